#!/usr/bin/env python3
"""validate MANIFEST.json and evidence/*.json against the harness schemas (run with python3-vt: has jsonschema)"""
import json, sys, glob, jsonschema
ok = True
m = json.load(open('/verif/MANIFEST.json'))
jsonschema.validate(m, json.load(open('/root/.vp/MANIFEST.schema.json')))
sch = json.load(open('/root/.vp/EVIDENCE.schema.json'))
for p in sorted(glob.glob('/verif/evidence/C*.json')):
    try:
        jsonschema.validate(json.load(open(p)), sch)
    except Exception as e:
        ok = False
        print('INVALID', p, str(e)[:300])
ids = {c['property_id'] for c in m['checks']} | {n['property_id'] for n in m.get('not_applicable', [])}
want = {'C%02d' % i for i in range(1, 21)}
if ids != want:
    ok = False
    print('manifest does not cover', sorted(want - ids), 'extra', sorted(ids - want))
print('manifest+evidence', 'valid' if ok else 'INVALID', '(%d checks, %d not_applicable)' % (len(m['checks']), len(m.get('not_applicable', []))))
sys.exit(0 if ok else 1)
