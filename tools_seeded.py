#!/usr/bin/env python3
"""Confirm a seeded change (from an independent sub-agent) and run the checks against it.

usage: tools_seeded.py confirm <src-dir> <PID> <name>     verify in a scratch worktree, then store under /verif/seeded/<PID>-<name>/
       tools_seeded.py run [<PID>-<name> ...]             apply each stored patch to /repo, run ./check <PID>, undo, report

confirm = (a) demo passes on a clean checkout, (b) patch applies, (c) the 149-test baseline passes with it,
          (d) demo fails with it.  The scratch worktree lives under /tmp and is removed afterwards.
"""
import json
import os
import shutil
import subprocess
import sys
import tempfile

VERIF = os.path.dirname(os.path.abspath(__file__))
SEEDED = os.path.join(VERIF, 'seeded')
PY = '/venv/bin/python'


def sh(cmd, cwd=None, timeout=1200):
    p = subprocess.run(cmd, cwd=cwd, shell=isinstance(cmd, str), stdout=subprocess.PIPE, stderr=subprocess.STDOUT, timeout=timeout)
    return p.returncode, p.stdout.decode('utf8', 'replace')


def confirm(src, pid, name):
    wt = tempfile.mkdtemp(prefix='wt-confirm-')
    os.rmdir(wt)
    rc, out = sh(['git', '-C', '/repo', 'worktree', 'add', '-q', '--detach', wt, 'HEAD'])
    if rc:
        print(out)
        return False
    res = {}
    try:
        demo = os.path.join(src, 'demo.py')
        patch = os.path.join(src, 'patch.diff')
        rc, out = sh([PY, demo], cwd=wt)
        res['demo_clean_rc'] = rc
        rc2, out2 = sh(['git', 'apply', patch], cwd=wt)
        res['apply_rc'] = rc2
        if rc2 == 0:
            rc3, out3 = sh([PY, '-m', 'pytest', '-q', '-p', 'no:cacheprovider', '--timeout=900'], cwd=wt)
            res['tests_rc'] = rc3
            res['tests_tail'] = out3.strip().splitlines()[-1] if out3.strip() else ''
            rc4, out4 = sh([PY, demo], cwd=wt)
            res['demo_patched_rc'] = rc4
            res['demo_patched_tail'] = '\n'.join(out4.strip().splitlines()[-3:])
        ok = res.get('demo_clean_rc') == 0 and res.get('apply_rc') == 0 and res.get('tests_rc') == 0 and res.get('demo_patched_rc') not in (0, None)
        res['confirmed'] = ok
        print(pid, name, json.dumps(res))
        if ok:
            dst = os.path.join(SEEDED, '%s-%s' % (pid, name))
            os.makedirs(dst, exist_ok=True)
            shutil.copy(patch, os.path.join(dst, 'patch.diff'))
            shutil.copy(demo, os.path.join(dst, 'demo.py'))
            meta = {}
            mp = os.path.join(src, 'meta.json')
            if os.path.exists(mp):
                try:
                    meta = json.load(open(mp))
                except Exception:
                    meta = {'raw': open(mp).read()}
            meta['property'] = pid
            meta['confirmed_by'] = ('scratch worktree of /repo HEAD: demo.py exit 0 clean; git apply ok; pytest (149-test baseline) %s; '
                                    'demo.py exit %s with the patch' % (res['tests_tail'], res['demo_patched_rc']))
            meta['repo_head'] = sh(['git', '-C', '/repo', 'rev-parse', 'HEAD'])[1].strip()
            json.dump(meta, open(os.path.join(dst, 'meta.json'), 'w'), indent=1)
        return ok
    finally:
        sh(['git', '-C', '/repo', 'worktree', 'remove', '--force', wt])
        shutil.rmtree(wt, ignore_errors=True)


def run(names, all_props=False):
    if not names:
        names = sorted(n for n in os.listdir(SEEDED) if os.path.isdir(os.path.join(SEEDED, n)))
    rc, out = sh(['git', '-C', '/repo', 'status', '--porcelain'])
    if out.strip():
        print('refusing: /repo is not clean:\n' + out)
        return 2
    results = {}
    for n in names:
        d = os.path.join(SEEDED, n)
        pid = n.split('-')[0]
        patch = os.path.join(d, 'patch.diff')
        rc, out = sh(['git', '-C', '/repo', 'apply', patch])
        if rc:
            print(n, 'PATCH DOES NOT APPLY', out[:200])
            results[n] = 'no-apply'
            continue
        try:
            props = [pid] if not all_props else ['C%02d' % i for i in range(1, 21)]
            line = []
            for p in props:
                rc, out = sh([os.path.join(VERIF, 'check'), p, '--no-evidence'], cwd=VERIF)
                v = [l for l in out.splitlines() if l.startswith('  rule=')]
                line.append((p, rc, v[:2]))
            caught = [x for x in line if x[1] == 1]
            results[n] = 'CAUGHT' if any(x[0] == pid and x[1] == 1 for x in line) else ('caught-by-other' if caught else ('undecided' if any(x[1] == 2 for x in line) else 'MISSED'))
            print('%-14s %-16s %s' % (n, results[n], '; '.join('%s exit %d %s' % (p, rc, v[0].strip()[:150] if v else '') for p, rc, v in line if rc or p == pid)))
        finally:
            sh(['git', '-C', '/repo', 'checkout', '--', '.'])
    rp = os.path.join(VERIF, 'seeded', 'RESULTS.json')
    try:
        merged = json.load(open(rp))
    except Exception:
        merged = {}
    merged.update(results)
    merged = {k: v for k, v in merged.items() if os.path.isdir(os.path.join(SEEDED, k))}
    json.dump(merged, open(rp, 'w'), indent=1, sort_keys=True)
    return 0


if __name__ == '__main__':
    if sys.argv[1] == 'confirm':
        sys.exit(0 if confirm(sys.argv[2], sys.argv[3], sys.argv[4]) else 1)
    elif sys.argv[1] == 'run':
        args = sys.argv[2:]
        allp = '--all' in args
        args = [a for a in args if a != '--all']
        sys.exit(run(args, allp))
