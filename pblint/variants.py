"""Self-test variant catalogue: one realistic single edit per rule instance (DESIGN.md Appendix B).

Each entry: prop, name, file, [scope], old, new, expect (rule id prefix that must report a violation).
`old` is looked up inside `scope` (a dotted def/class path) so that the edit is anchored to a construct, not a line.
"""
CORE = 'bitcoin/core/__init__.py'
SER = 'bitcoin/core/serialize.py'
SCRIPT = 'bitcoin/core/script.py'
EVAL = 'bitcoin/core/scripteval.py'
KEY = 'bitcoin/core/key.py'
WALLET = 'bitcoin/wallet.py'
MSG = 'bitcoin/messages.py'
NET = 'bitcoin/net.py'
RPC = 'bitcoin/rpc.py'
BLOOM = 'bitcoin/bloom.py'
B58 = 'bitcoin/base58.py'
B32 = 'bitcoin/bech32.py'
SEGWIT = 'bitcoin/segwit_addr.py'
SIGMSG = 'bitcoin/signmessage.py'
INIT = 'bitcoin/__init__.py'
RIPEMD = 'bitcoin/core/contrib/ripemd160.py'
BIGNUM = 'bitcoin/core/_bignum.py'

VARIANTS = []


def V(prop, name, file, old, new, expect, scope=None, nth=0):
    VARIANTS.append(dict(prop=prop, name=name, file=file, old=old, new=new, expect=expect, scope=scope, nth=nth))


# ------------------------------------------------------------------------------------------------ C01
V('C01', 'txin-reader-signed-sequence', CORE, 'nSequence = struct.unpack(b"<I"', 'nSequence = struct.unpack(b"<i"', 'C01.L', scope='CTxIn.stream_deserialize')
V('C01', 'header-writer-swaps-time-bits', CORE, 'f.write(struct.pack(b"<I", self.nTime))\n        f.write(struct.pack(b"<I", self.nBits))',
  'f.write(struct.pack(b"<I", self.nBits))\n        f.write(struct.pack(b"<I", self.nTime))', 'C01.L', scope='CBlockHeader.stream_serialize')
V('C01', 'txout-reader-raw-read', CORE, 'struct.unpack(b"<q", ser_read(f,8))[0]', 'struct.unpack(b"<q", f.read(8))[0]', 'C01.E1', scope='CTxOut.stream_deserialize')
V('C01', 'compactsize-writer-boundary', SER, 'elif i <= 0xffff:', 'elif i < 0xffff:', 'C01.T1', scope='VarIntSerializer.stream_serialize')
V('C01', 'compactsize-reader-prefix', SER, 'elif r == 0xfe:', 'elif r == 0xff:', 'C01.T1', scope='VarIntSerializer.stream_deserialize')
V('C01', 'compactsize-reader-width', SER, "struct.unpack(b'<H', ser_read(f, 2))", "struct.unpack(b'>H', ser_read(f, 2))", 'C01.T1', scope='VarIntSerializer.stream_deserialize')
V('C01', 'marker-guard-default-compare', CORE, 'if include_witness and not self.wit.is_null():', 'if include_witness and self.wit != CTxWitness():', 'C01.L3', scope='CTransaction.stream_serialize')
V('C01', 'marker-guard-len', CORE, 'if include_witness and not self.wit.is_null():', 'if include_witness and len(self.wit.vtxinwit) > 0:', 'C01.L3', scope='CTransaction.stream_serialize')
V('C01', 'reader-drops-rewind', CORE, 'f.seek(pos) # put marker byte back, since we don\'t have peek', 'pass', 'C01.L', scope='CTransaction.stream_deserialize')
V('C01', 'reader-flag-value', CORE, 'if markerbyte == 0 and flagbyte == 1:', 'if markerbyte == 0 and flagbyte == 2:', 'C01.L', scope='CTransaction.stream_deserialize')
V('C01', 'scriptwitness-null-means-one', SCRIPT, 'return len(self.stack) == 0', 'return len(self.stack) <= 1', 'C01.L3', scope='CScriptWitness.is_null')
V('C01', 'outpoint-reader-short-hash', CORE, 'hash = ser_read(f,32)', 'hash = ser_read(f,31)', 'C01.L', scope='COutPoint.stream_deserialize')
V('C01', 'locktime-writer-signed', CORE, 'f.write(struct.pack(b"<I", self.nLockTime))', 'f.write(struct.pack(b"<i", self.nLockTime))', ['C01.L', 'C01.R1'], scope='CTransaction.stream_serialize')
V('C01', 'value-writer-32bit', CORE, 'f.write(struct.pack(b"<q", self.nValue))', 'f.write(struct.pack(b"<i", self.nValue))', ['C01.L', 'C01.R1'], scope='CTxOut.stream_serialize')
V('C01', 'read-size-mismatch', CORE, 'nBits = struct.unpack(b"<I", ser_read(f,4))[0]', 'nBits = struct.unpack(b"<I", ser_read(f,8))[0]', ['C01.E1', 'C01.L'], scope='CBlockHeader.stream_deserialize')
V('C01', 'ser_read-drops-truncation-guard', SER, '    if len(r) < n:\n        raise SerializationTruncationError', '    if False:\n        raise SerializationTruncationError', 'C01.E1', scope='ser_read')
V('C01', 'ser_read-wrong-truncation-class', SER, 'raise SerializationTruncationError(', 'raise SerializationError(', 'C01.E1', scope='ser_read')
V('C01', 'deserialize-skips-padding-check', SER, 'if not allow_padding:', 'if allow_padding:', 'C01.E3', scope='Serializable.deserialize')
V('C01', 'extra-data-args-swapped', SER, "r, padding)", "padding, r)", 'C01.E3', scope='Serializable.deserialize')
V('C01', 'block-vector-of-headers', CORE, 'vtx = VectorSerializer.stream_deserialize(CTransaction, f)', 'vtx = VectorSerializer.stream_deserialize(CTxIn, f)', 'C01.L', scope='CBlock.stream_deserialize')
V('C01', 'witness-written-before-outputs', CORE, '            VectorSerializer.stream_serialize(CTxOut, self.vout, f)\n            self.wit.stream_serialize(f)',
  '            self.wit.stream_serialize(f)\n            VectorSerializer.stream_serialize(CTxOut, self.vout, f)', 'C01.L', scope='CTransaction.stream_serialize')
V('C01', 'bytes-serializer-no-length', SER, 'VarIntSerializer.stream_serialize(len(b), f)\n        f.write(b)', 'f.write(b)', 'C01.L', scope='BytesSerializer.stream_serialize')

# ------------------------------------------------------------------------------------------------ C04
V('C04', 'revert-F1-locktime-signed', SCRIPT, 'f.write(struct.pack("<I", txTo.nLockTime))', 'f.write(struct.pack("<i", txTo.nLockTime))', 'C04.L1', scope='SignatureHash')
V('C04', 'swap-hashSequence-hashOutputs', SCRIPT, 'f.write(hashSequence)', 'f.write(hashOutputs)', 'C04.L1', scope='SignatureHash')
V('C04', 'hashSequence-guard-or', SCRIPT, "(hashtype & 0x1f) != SIGHASH_SINGLE and (hashtype & 0x1f) != SIGHASH_NONE):\n            serialize_sequence",
  "(hashtype & 0x1f) != SIGHASH_SINGLE or (hashtype & 0x1f) != SIGHASH_NONE):\n            serialize_sequence", 'C04.D1', scope='SignatureHash')
V('C04', 'amount-32bit', SCRIPT, 'f.write(struct.pack("<q", amount))', 'f.write(struct.pack("<i", amount))', 'C04.L1', scope='SignatureHash')
V('C04', 'hashOutputs-mask-0x0f', SCRIPT, "if ((hashtype & 0x1f) != SIGHASH_SINGLE and (hashtype & 0x1f) != SIGHASH_NONE):\n            serialize_outputs",
  "if ((hashtype & 0x0f) != SIGHASH_SINGLE and (hashtype & 0x0f) != SIGHASH_NONE):\n            serialize_outputs", 'C04.D1', scope='SignatureHash')
V('C04', 'single-index-off-by-one', SCRIPT, 'inIdx < len(txTo.vout)', 'inIdx <= len(txTo.vout)', 'C04.D1', scope='SignatureHash')
V('C04', 'outpoint-of-first-input', SCRIPT, 'txTo.vin[inIdx].prevout.stream_serialize(f)', 'txTo.vin[0].prevout.stream_serialize(f)', 'C04.L1', scope='SignatureHash')
V('C04', 'sequences-16bit', SCRIPT, 'serialize_sequence += struct.pack("<I", i.nSequence)', 'serialize_sequence += struct.pack("<H", i.nSequence & 0xffff)', 'C04.D1', scope='SignatureHash')
V('C04', 'prevouts-skip-anyonecanpay-test', SCRIPT, 'if not (hashtype & SIGHASH_ANYONECANPAY):\n            serialize_prevouts', 'if not (hashtype & SIGHASH_SINGLE):\n            serialize_prevouts', 'C04.D1', scope='SignatureHash')
V('C04', 'writes-through-txTo', SCRIPT, '        f = BytesIO()\n        f.write(struct.pack("<i", txTo.nVersion))', '        f = BytesIO()\n        txTo.wit = None\n        f.write(struct.pack("<i", txTo.nVersion))', 'C04.RO', scope='SignatureHash')
V('C04', 'single-sha', SER, 'return hashlib.sha256(hashlib.sha256(msg).digest()).digest()', 'return hashlib.sha256(msg).digest()', 'C04.H1', scope='Hash')
V('C04', 'scriptcode-without-length', SCRIPT, 'BytesSerializer.stream_serialize(script, f)', 'f.write(script)', 'C04.L1', scope='SignatureHash')
V('C04', 'rejects-zero-amount', SCRIPT, "        hashPrevouts = b'\\x00'*32", "        if not amount:\n            raise ValueError('amount required')\n        hashPrevouts = b'\\x00'*32", 'C04.X1', scope='SignatureHash')

# ------------------------------------------------------------------------------------------------ C09
V('C09', 'shallow-from_tx', CORE, 'vin = [CMutableTxIn.from_txin(txin) for txin in tx.vin]', 'vin = list(tx.vin)', 'C09.R6', scope='CMutableTransaction.from_tx')
V('C09', 'txid-cache-on-transaction', CORE, "        if self.wit != CTxWitness():\n            txid = Hash(", "        try:\n            return self._cached_GetTxid\n        except AttributeError:\n            pass\n        if self.wit != CTxWitness():\n            txid = Hash(", 'C09.R3', scope='CTransaction.GetTxid')
V('C09', 'undecorated-mutable-txout', CORE, '@__make_mutable\nclass CMutableTxOut(CTxOut):', 'class CMutableTxOut(CTxOut):', 'C09.R4')
V('C09', 'revert-F8a-witness-list', CORE, "object.__setattr__(self, 'vtxinwit', tuple(vtxinwit))", "object.__setattr__(self, 'vtxinwit', vtxinwit)", 'C09.R5')
V('C09', 'revert-F8a-stack-list', SCRIPT, "object.__setattr__(self, 'stack', tuple(stack))", "object.__setattr__(self, 'stack', stack)", 'C09.R5')
V('C09', 'revert-F8b-prevout-alias', CORE, "object.__setattr__(self, 'prevout', COutPoint.from_outpoint(prevout))", "object.__setattr__(self, 'prevout', prevout)", 'C09.R5')
V('C09', 'mutable-from_outpoint-identity', CORE, 'return cls(outpoint.hash, outpoint.n)', 'return outpoint', 'C09.R6', scope='CMutableOutPoint.from_outpoint')
V('C09', 'mutable-default-vin', CORE, 'def __init__(self, vin=(), vout=(), nLockTime=0, nVersion=1, witness=CTxWitness()):', 'def __init__(self, vin=[], vout=(), nLockTime=0, nVersion=1, witness=CTxWitness()):', 'C09.R7')
V('C09', 'isinstance-identity-shortcut', CORE, 'if outpoint.__class__ is COutPoint:', 'if isinstance(outpoint, COutPoint):', 'C09.R6', scope='COutPoint.from_outpoint')
V('C09', 'hash-fills-gethash-slot', SER, "object.__setattr__(self, '_cached__hash__', _cached__hash__)", "object.__setattr__(self, '_cached_GetHash', _cached__hash__)", 'C09.R3')
V('C09', 'sighash-edits-caller-tx', SCRIPT, 'txtmp = bitcoin.core.CMutableTransaction.from_tx(txTo)', 'txtmp = txTo', 'C09.R8', scope='RawSignatureHash')
V('C09', 'conditional-immutability', SER, "    def __setattr__(self, name, value):\n        raise AttributeError('Object is immutable')", "    def __setattr__(self, name, value):\n        if not name.startswith('n'):\n            raise AttributeError('Object is immutable')\n        object.__setattr__(self, name, value)", 'C09.R1')
V('C09', 'decorator-keeps-cached-gethash', CORE, '    cls.GetHash = Serializable.GetHash\n', '', 'C09.R3', scope='__make_mutable')
V('C09', 'tx-vin-not-converted', CORE, "tuple(CTxIn.from_txin(txin) for txin in vin)", "tuple(vin)", 'C09.R5', scope='CTransaction.__init__')
V('C09', 'block-vtx-list', CORE, "object.__setattr__(self, 'vtx', tuple(CTransaction.from_tx(tx) for tx in vtx))", "object.__setattr__(self, 'vtx', list(CTransaction.from_tx(tx) for tx in vtx))", 'C09.R5', scope='CBlock.__init__')
V('C09', 'setattr-backdoor', CORE, "    def is_final(self):\n        return (self.nSequence == 0xffffffff)", "    def is_final(self):\n        return (self.nSequence == 0xffffffff)\n\n    def set_sequence(self, n):\n        object.__setattr__(self, 'nSequence', n)", 'C09.R2')
V('C09', 'mutable-txin-shares-prevout', CORE, 'prevout = CMutableOutPoint.from_outpoint(txin.prevout)', 'prevout = txin.prevout', 'C09.R6', scope='CMutableTxIn.from_txin')
V('C09', 'checktransaction-sorts-inputs', CORE, "    if not tx.vin:\n        raise CheckTransactionError(\"CheckTransaction() : vin empty\")", "    if not tx.vin:\n        raise CheckTransactionError(\"CheckTransaction() : vin empty\")\n    tx.vin.sort(key=lambda i: i.prevout.n)", 'C09.R8', scope='CheckTransaction')

# ------------------------------------------------------------------------------------------------ C02
V('C02', 'txid-hashes-full-serialisation', CORE, "        if self.wit != CTxWitness():\n            txid = Hash(CTransaction(self.vin, self.vout, self.nLockTime,\n                self.nVersion).serialize())\n        else:\n            txid = Hash(self.serialize())", "        txid = Hash(self.serialize())", 'C02.T1', scope='CTransaction.GetTxid')
V('C02', 'txid-reconstruction-with-witness', CORE, "self.nVersion).serialize())", "self.nVersion, self.wit).serialize())", 'C02.T1', scope='CTransaction.GetTxid')
V('C02', 'txid-reconstruction-swaps-fields', CORE, "CTransaction(self.vin, self.vout, self.nLockTime,\n                self.nVersion)", "CTransaction(self.vin, self.vout, self.nVersion,\n                self.nLockTime)", 'C02.T1', scope='CTransaction.GetTxid')
V('C02', 'block-hash-covers-transactions', CORE, "_cached_GetHash = self.get_header().GetHash()", "_cached_GetHash = Hash(self.serialize())", 'C02.T3', scope='CBlock.GetHash')
V('C02', 'decorator-drops-gethash', CORE, '    cls.GetHash = Serializable.GetHash\n', '', 'C02.T4', scope='__make_mutable')
V('C02', 'get_header-default-nonce', CORE, "                            nNonce=self.nNonce)", "                            )", 'C02.T3', scope='CBlock.get_header')
V('C02', 'eq-compares-hash', SER, "return self.serialize() == other.serialize()", "return self.GetHash() == other.GetHash() and type(self) is type(other)", 'C02.T5', scope='Serializable.__eq__')
V('C02', 'include-witness-default-false', CORE, "def stream_serialize(self, f, include_witness=True):\n        f.write(struct.pack(b\"<i\", self.nVersion))", "def stream_serialize(self, f, include_witness=False):\n        f.write(struct.pack(b\"<i\", self.nVersion))", 'C02.T2')
V('C02', 'mutable-tx-own-txid', CORE, "    @classmethod\n    def from_tx(cls, tx):\n        \"\"\"Create a fully mutable copy of a pre-existing transaction\"\"\"", "    def GetTxid(self):\n        return Hash(self.serialize())\n\n    @classmethod\n    def from_tx(cls, tx):\n        \"\"\"Create a fully mutable copy of a pre-existing transaction\"\"\"", 'C02.T4')
V('C02', 'null-witness-ignores-empty-items', SCRIPT, 'return len(self.stack) == 0', 'return not any(self.stack)', 'C02.W1', scope='CScriptWitness.is_null')
V('C02', 'gethash-single-sha', SER, 'return Hash(self.serialize())', 'return hashlib.sha256(self.serialize()).digest()', 'C02.T2', scope='Serializable.GetHash')


def V2(prop, name, edits, expect):
    VARIANTS.append(dict(prop=prop, name=name, expect=expect, edits=[dict(file=f, old=o, new=n, scope=s) for f, o, n, s in edits]))


# ------------------------------------------------------------------------------------------------ C03
V('C03', 'none-mask-0x0f', SCRIPT, "if (hashtype & 0x1f) == SIGHASH_NONE:", "if (hashtype & 0x0f) == SIGHASH_NONE:", 'C03.D1', scope='RawSignatureHash')
V2('C03', 'none-single-constants-swapped', [(SCRIPT, 'SIGHASH_NONE = 2', 'SIGHASH_NONE = 3', None), (SCRIPT, 'SIGHASH_SINGLE = 3', 'SIGHASH_SINGLE = 2', None)], 'C03.D1')
V('C03', 'none-zeroes-own-sequence', SCRIPT, "            if i != inIdx:\n                txtmp.vin[i].nSequence = 0\n\n    elif", "            txtmp.vin[i].nSequence = 0\n\n    elif", 'C03.D1', scope='RawSignatureHash')
V('C03', 'witness-not-reset', SCRIPT, "    txtmp.wit = bitcoin.core.CTxWitness()\n", "", 'C03.D1', scope='RawSignatureHash')
V('C03', 'edits-caller-transaction', SCRIPT, 'txtmp = bitcoin.core.CMutableTransaction.from_tx(txTo)', 'txtmp = txTo', ['C03.A0', 'C03.RO'], scope='RawSignatureHash')
V('C03', 'hashtype-two-bytes', SCRIPT, 's += struct.pack(b"<i", hashtype)', 's += struct.pack(b"<H", hashtype)', 'C03.D1', scope='RawSignatureHash')
V('C03', 'missing-input-without-error', SCRIPT, 'return (HASH_ONE, "inIdx %d out of range (%d)" % (inIdx, len(txTo.vin)))', 'return (HASH_ONE, None)', 'C03.D1', scope='RawSignatureHash')
V('C03', 'single-one-blank-too-many', SCRIPT, 'for i in range(outIdx):', 'for i in range(outIdx + 1):', 'C03.D1', scope='RawSignatureHash')
V('C03', 'scriptsig-blanked-with-zero-byte', SCRIPT, "txin.scriptSig = b''", "txin.scriptSig = b'\\x00'", 'C03.D1', scope='RawSignatureHash')
V('C03', 'codeseparators-kept', SCRIPT, 'FindAndDelete(script, CScript([OP_CODESEPARATOR]))', 'script', 'C03.D1', scope='RawSignatureHash')
V('C03', 'wrapper-swallows-error', SCRIPT, "    if err is not None:\n        raise ValueError(err)\n    return h", "    return h", 'C03.P1', scope='SignatureHash')
V('C03', 'single-missing-output-off-by-one', SCRIPT, 'if outIdx >= len(txtmp.vout):', 'if outIdx > len(txtmp.vout):', 'C03.D1', scope='RawSignatureHash')
V('C03', 'anyonecanpay-keeps-first-input', SCRIPT, "        tmp = txtmp.vin[inIdx]\n        txtmp.vin = []", "        tmp = txtmp.vin[0]\n        txtmp.vin = []", 'C03.D1', scope='RawSignatureHash')
V('C03', 'hash-one-constant', SCRIPT, "HASH_ONE = b'\\x01\\x00", "HASH_ONE = b'\\x00\\x01", 'C03.D1', scope='RawSignatureHash')
V('C03', 'wrapper-raises-runtimeerror', SCRIPT, "        raise ValueError(err)", "        raise RuntimeError(err)", 'C03.P1', scope='SignatureHash')
V('C03', 'anyonecanpay-bit', SCRIPT, 'SIGHASH_ANYONECANPAY = 0x80', 'SIGHASH_ANYONECANPAY = 0x40', 'C03.D1')

# ------------------------------------------------------------------------------------------------ C20
V('C20', 'seed-multiplier', BLOOM, '0xFBA4C795', '0xFBA4C796', 'C20.S1', scope='CBloomFilter.bloom_hash')
V('C20', 'contains-skips-last-function', BLOOM, 'for i in range(0, self.nHashFuncs):\n            nIndex = self.bloom_hash(i, elem)\n            if not', 'for i in range(0, self.nHashFuncs - 1):\n            nIndex = self.bloom_hash(i, elem)\n            if not', 'C20.N1', scope='CBloomFilter.contains')
V('C20', 'insert-mask-index-3-bits', BLOOM, 'self.vData[nIndex >> 3] |= self.__bit_mask[7 & nIndex]', 'self.vData[nIndex >> 3] |= self.__bit_mask[3 & nIndex]', 'C20.N1', scope='CBloomFilter.insert')
V('C20', 'revert-F7-contains', BLOOM, "        if len(self.vData) == 0:\n            # Avoid divide-by-zero (CVE-2013-5700); an empty filter matches everything\n            return True\n", "", 'C20.G1', scope='CBloomFilter.contains')
V('C20', 'revert-F7-insert', BLOOM, "        if len(self.vData) == 0:\n            # Avoid divide-by-zero (CVE-2013-5700)\n            return\n", "", 'C20.G1', scope='CBloomFilter.insert')
V('C20', 'hash-function-cap-51', BLOOM, 'MAX_HASH_FUNCS = 50', 'MAX_HASH_FUNCS = 51', 'C20.K1')
V('C20', 'size-cap-applied-to-bytes-in-bits', BLOOM, 'self.MAX_BLOOM_FILTER_SIZE * 8) / 8))', 'self.MAX_BLOOM_FILTER_SIZE * 8)))', 'C20.K1', scope='CBloomFilter.__init__')
V('C20', 'murmur-c2', BLOOM, 'c2 = 0x1b873593', 'c2 = 0x1b873595', 'C20.M1', scope='MurmurHash3')
V('C20', 'murmur-rotation', BLOOM, 'h1 = _ROTL32(h1, 13)', 'h1 = _ROTL32(h1, 15)', 'C20.M1', scope='MurmurHash3')
V('C20', 'murmur-final-shift', BLOOM, 'h1 ^= (h1 & 0xFFFFFFFF) >> 13', 'h1 ^= (h1 & 0xFFFFFFFF) >> 16', 'C20.M1', scope='MurmurHash3')
V('C20', 'murmur-length-byte', BLOOM, 'h1 ^= len(vDataToHash) & 0xFFFFFFFF', 'h1 ^= len(vDataToHash) & 0xFF', 'C20.M1', scope='MurmurHash3')
V('C20', 'murmur-tail-shift', BLOOM, 'k1 ^= vDataToHash[j+1] << 8', 'k1 ^= vDataToHash[j+1] << 16', 'C20.M1', scope='MurmurHash3')
V('C20', 'wire-flags-32bit', BLOOM, "__struct = struct.Struct(b'<IIB')", "__struct = struct.Struct(b'<III')", 'C20.L1')
V('C20', 'reader-drops-tweak', BLOOM, 'deserialized.nTweak = nTweak', 'deserialized.nTweak = 0', 'C20.L1', scope='CBloomFilter.stream_deserialize')
V('C20', 'modulus-bytes-not-bits', BLOOM, '% (len(self.vData) * 8)', '% (len(self.vData))', 'C20.S1', scope='CBloomFilter.bloom_hash')
V('C20', 'insert-full-shortcut-widened', BLOOM, "        if len(self.vData) == 1 and self.vData[0] == 0xff:\n            return\n", "        if len(self.vData) >= 1 and self.vData[0] == 0xff:\n            return\n", 'C20.N1', scope='CBloomFilter.insert')
V('C20', 'bit-mask-table', BLOOM, '[0x01, 0x02, 0x04, 0x08, 0x10, 0x20, 0x40, 0x80]', '[0x01, 0x02, 0x04, 0x08, 0x10, 0x20, 0x40, 0x40]', 'C20.N1')

# ------------------------------------------------------------------------------------------------ C18
V('C18', 'revert-F6-length-signed', MSG, 'msglen = struct.unpack(b"<I", recvbuf[4+12:4+12+4])[0]', 'msglen = struct.unpack(b"<i", recvbuf[4+12:4+12+4])[0]', 'C18.H1')
V('C18', 'checksum-not-compared', MSG, "        if checksum != h[:4]:\n            raise ValueError(\"got bad checksum %s\" % repr(recvbuf))\n            recvbuf = recvbuf[4+12+4+4+msglen:]\n", "", 'C18.D1', scope='MsgSerializable.stream_deserialize')
V('C18', 'ping-reader-32bit', MSG, 'c.nonce = struct.unpack(b"<Q", ser_read(f, 8))[0]', 'c.nonce = struct.unpack(b"<I", ser_read(f, 4))[0]', 'C18.L', scope='msg_ping.msg_deser')
V('C18', 'pong-unregistered', MSG, '               msg_pong, msg_reject, msg_mempool]', '               msg_reject, msg_mempool]', 'C18.R1')
V('C18', 'testnet-magic', INIT, "MESSAGE_START = b'\\x0b\\x11\\x09\\x07'", "MESSAGE_START = b'\\x0b\\x11\\x09\\x08'", 'C18.C1')
V('C18', 'command-padded-to-11', MSG, 'res += b"\\x00" * (12 - len(self.command))', 'res += b"\\x00" * (11 - len(self.command))', 'C18.H1', scope='MsgSerializable.to_bytes')
V('C18', 'magic-default-argument', MSG, "    def stream_deserialize(cls, f, protover=PROTO_VERSION):\n        recvbuf = ser_read(f, 4 + 12 + 4 + 4)", "    def stream_deserialize(cls, f, protover=PROTO_VERSION, magic=bitcoin.params.MESSAGE_START):\n        recvbuf = ser_read(f, 4 + 12 + 4 + 4)", 'C18.P1')
V('C18', 'raw-read-of-payload', MSG, 'recvbuf += ser_read(f, msglen)', 'recvbuf += f.read(msglen)', 'C18.D1', scope='MsgSerializable.stream_deserialize')
V('C18', 'inv-type-16bit', NET, 'f.write(struct.pack(b"<i", self.type))', 'f.write(struct.pack(b"<h", self.type))', 'C18.L', scope='CInv.stream_serialize')
V('C18', 'port-little-endian', NET, 'f.write(struct.pack(b">H", self.port))', 'f.write(struct.pack(b"<H", self.port))', 'C18.L', scope='CAddress.stream_serialize')
V('C18', 'version-services-order', MSG, "        f.write(struct.pack(b\"<Q\", self.nServices))\n        f.write(struct.pack(b\"<q\", self.nTime))", "        f.write(struct.pack(b\"<q\", self.nTime))\n        f.write(struct.pack(b\"<Q\", self.nServices))", 'C18.L', scope='msg_version.msg_ser')
V('C18', 'getheaders-no-hashstop', MSG, "        c.locator = CBlockLocator.stream_deserialize(f)\n        c.hashstop = ser_read(f, 32)", "        c.locator = CBlockLocator.stream_deserialize(f)", 'C18.L', scope='msg_getheaders.msg_deser')
V('C18', 'checksum-single-sha', MSG, "        th = hashlib.sha256(body).digest()\n        h = hashlib.sha256(th).digest()", "        h = hashlib.sha256(body).digest()", 'C18.H1', scope='MsgSerializable.to_bytes')
V('C18', 'payload-slice-off-by-one', MSG, 'msg = recvbuf[4+12+4+4:4+12+4+4+msglen]', 'msg = recvbuf[4+12+4+3:4+12+4+4+msglen]', 'C18.H1', scope='MsgSerializable.stream_deserialize')
V('C18', 'wrong-magic-returns-none', MSG, "            raise ValueError(\"Invalid message start '%s', expected '%s'\" %\n                             (b2x(recvbuf[:4]), b2x(bitcoin.params.MESSAGE_START)))", "            return None", 'C18.D1', scope='MsgSerializable.stream_deserialize')
V('C18', 'ipv4-prefix-10-bytes', NET, 'if bytes(packedIP[0:12]) == IPV4_COMPAT:', 'if bytes(packedIP[0:10]) == IPV4_COMPAT[0:10]:', 'C18.A1')
V('C18', 'addr-time-16bit', NET, 'c.nTime = struct.unpack(b"<I", ser_read(f, 4))[0]', 'c.nTime = struct.unpack(b"<H", ser_read(f, 2))[0]', 'C18.L', scope='CAddress.stream_deserialize')
V('C18', 'reject-code-missing-in-writer', MSG, '        f.write(struct.pack(b"<c", self.ccode))\n', '', 'C18.L', scope='msg_reject.msg_ser')
V('C18', 'command-two-classes', MSG, 'command = b"notfound"', 'command = b"getdata"', 'C18.R1')

# ------------------------------------------------------------------------------------------------ C14
V('C14', 'header-base-28', SIGMSG, 'meta = 27 + i', 'meta = 28 + i', 'C14.L2', scope='SignMessage')
V('C14', 'magic-constant', SIGMSG, 'magic="Bitcoin Signed Message:\\n"', 'magic="Bitcoin Signed Message\\n"', 'C14.L1')
V('C14', 'message-before-magic', SIGMSG, "        bitcoin.core.serialize.BytesSerializer.stream_serialize(self.magic, f)\n        bitcoin.core.serialize.BytesSerializer.stream_serialize(self.message, f)", "        bitcoin.core.serialize.BytesSerializer.stream_serialize(self.message, f)\n        bitcoin.core.serialize.BytesSerializer.stream_serialize(self.magic, f)", 'C14.L1', scope='BitcoinMessage.stream_serialize')
V('C14', 'message-stripped', SIGMSG, 'message.encode("utf-8")', 'message.strip().encode("utf-8")', 'C14.L1')
V('C14', 'compressed-flag-plus-8', SIGMSG, 'meta += 4', 'meta += 8', 'C14.L2', scope='SignMessage')
V('C14', 'recid-mask-1', KEY, 'recid = (sig[0] - 27) & 3', 'recid = (sig[0] - 27) & 1', 'C14.L2', scope='CPubKey.recover_compact')
V('C14', 'r-s-slices-swapped', KEY, "        sigR = sig[1:33]\n        sigS = sig[33:65]", "        sigS = sig[1:33]\n        sigR = sig[33:65]", 'C14.L2', scope='CPubKey.recover_compact')
V('C14', 'verify-compares-objects', SIGMSG, 'return str(P2PKHBitcoinAddress.from_pubkey(pubkey)) == str(address)', 'return P2PKHBitcoinAddress.from_pubkey(pubkey) == address', 'C14.V1')
V('C14', 'recid-search-uncompressed-compare', KEY, 'if cec_key.get_pubkey() == pubkey.get_pubkey():', 'if cec_key.get_pubkey() == self.get_pubkey():', 'C14.S1', scope='CECKey.sign_compact')
V('C14', 'r-not-padded', KEY, "r_val = ((b'\\x00' * 32) + r_val)[-32:]", "r_val = r_val[-32:]", 'C14.S1', scope='CECKey.sign_compact')
V('C14', 'verify-hashes-text-not-digest', SIGMSG, 'hash = message.GetHash()', 'hash = message.serialize()[:32]', 'C14.V1', scope='VerifyMessage')
V('C14', 'length-check-64', KEY, 'if len(sig) != 65:', 'if len(sig) < 64:', 'C14.L2', scope='CPubKey.recover_compact')

# ------------------------------------------------------------------------------------------------ C06
V('C06', 'min-not-binary', EVAL, "    OP_MIN,\n    OP_MAX,\n}", "    OP_MAX,\n}", 'C06.S1')
V('C06', 'mul-not-disabled', SCRIPT, 'OP_OR, OP_XOR, OP_2MUL, OP_2DIV, OP_MUL, OP_DIV, OP_MOD,', 'OP_OR, OP_XOR, OP_2MUL, OP_2DIV, OP_DIV, OP_MOD,', ['C06.D2', 'C06.D1'])
V('C06', 'op16-counted', EVAL, 'if sop > OP_16:', 'if sop >= OP_16:', 'C06.D1', scope='_EvalScript')
V('C06', '2over-copies-wrong-pair', EVAL, "                v1 = stack[-4]\n                v2 = stack[-3]\n                stack.append(v1)", "                v1 = stack[-3]\n                v2 = stack[-2]\n                stack.append(v1)", 'C06.S1', scope='_EvalScript')
V('C06', 'revert-F3-within', EVAL, "                if v:\n                    stack.append(b\"\\x01\")\n                else:\n                    stack.append(b\"\")", "                if v:\n                    stack.append(b\"\\x01\")\n                else:\n                    stack.append(b\"\\x00\")", 'C06.B1', scope='_EvalScript')
V('C06', 'revert-F12-continue', EVAL, "            elif fExec:\n                stack.append(sop_data)\n", "            elif fExec:\n                stack.append(sop_data)\n                continue\n", 'C06.L2', scope='_EvalScript')
V('C06', 'opcount-limit-200', SCRIPT, 'MAX_SCRIPT_OPCODES = 201', 'MAX_SCRIPT_OPCODES = 200', 'C06.L1')
V('C06', 'sub-operands-swapped', EVAL, 'bn = bn1 - bn2', 'bn = bn2 - bn1', 'C06.O1', scope='_BinOp')
V('C06', 'sha256-uses-sha1', EVAL, 'stack.append(hashlib.sha256(stack.pop()).digest())', 'stack.append(hashlib.sha1(stack.pop()).digest())', 'C06.H1', scope='_EvalScript')
V('C06', 'within-inclusive-upper', EVAL, 'v = (bn2 <= bn1) and (bn1 < bn3)', 'v = (bn2 <= bn1) and (bn1 <= bn3)', 'C06.O1', scope='_EvalScript')
V('C06', 'tuck-position', EVAL, 'stack.insert(len(stack) - 2, vch)', 'stack.insert(len(stack) - 1, vch)', 'C06.S1', scope='_EvalScript')
V('C06', 'ifdup-always', EVAL, "                if _CastToBool(vch):\n                    stack.append(vch)", "                stack.append(vch)", 'C06.S1', scope='_EvalScript')
V('C06', 'nop-ignores-discourage-flag', EVAL, "                if SCRIPT_VERIFY_DISCOURAGE_UPGRADABLE_NOPS in flags:\n                    err_raiser(EvalScriptError, \"%s reserved for soft-fork upgrades\" % OPCODE_NAMES[sop])\n                else:\n                    pass", "                pass", 'C06.D1', scope='_EvalScript')
V('C06', 'verif-not-always-fail', SCRIPT, 'DISABLED_OPCODES = frozenset((OP_VERIF, OP_VERNOTIF,', 'DISABLED_OPCODES = frozenset((OP_VERNOTIF,', ['C06.D2', 'C06.D1'])
V('C06', 'p2sh-without-push-only', EVAL, "        if not scriptSig.is_push_only():\n            raise VerifyScriptError(\"P2SH scriptSig not is_push_only()\")\n", "", 'C06.V1', scope='VerifyScript')
V('C06', 'p2sh-stack-not-restored', EVAL, "        stack = stackCopy\n", "", 'C06.V1', scope='VerifyScript')
V('C06', 'cleanstack-allows-two', EVAL, 'if len(stack) != 1:', 'if len(stack) > 2:', 'C06.V1', scope='VerifyScript')
V('C06', 'ripemd-table-entry', RIPEMD, "    7, 4, 13, 1, 10, 6, 15, 3, 12, 0, 9, 5, 2, 14, 11, 8,", "    7, 4, 13, 1, 10, 6, 15, 3, 12, 0, 9, 5, 2, 14, 8, 11,", 'C06.H1')
V('C06', 'stack-limit-1001', EVAL, 'MAX_STACK_ITEMS = 1000', 'MAX_STACK_ITEMS = 1001', 'C06.L1')
V('C06', 'num-size-by-value', EVAL, 'if len(s) > MAX_NUM_SIZE:', 'if v.bit_length() >= 8 * MAX_NUM_SIZE:', 'C06.L1', scope='_CastToBigNum')
V('C06', 'nulldummy-cast-to-bool', EVAL, "if stack[-1] != b'':", "if _CastToBool(stack[-1]):", 'C06.L1', scope='_CheckMultiSig')
V('C06', 'multisig-key-reuse', EVAL, "        ikey += 1\n        keys_count -= 1\n\n        if sigs_count > keys_count:", "        else:\n            ikey += 1\n            keys_count -= 1\n\n        if sigs_count > keys_count:", 'C06.M1', scope='_CheckMultiSig')
V('C06', 'keys-limit-21', EVAL, 'if keys_count < 0 or keys_count > 20:', 'if keys_count < 0 or keys_count > 21:', 'C06.L1', scope='_CheckMultiSig')
V('C06', 'else-in-unexecuted-branch-skipped', EVAL, 'elif fExec or (OP_IF <= sop <= OP_ENDIF):', 'elif fExec or (OP_IF <= sop <= OP_NOTIF) or sop == OP_ENDIF:', 'C06.D1', scope='_EvalScript')
V('C06', 'script-size-limit-inclusive', EVAL, 'if len(scriptIn) > MAX_SCRIPT_SIZE:', 'if len(scriptIn) >= MAX_SCRIPT_SIZE:', 'C06.L1', scope='_EvalScript')
V('C06', 'max-selects-smaller', EVAL, "        if bn1 > bn2:\n            bn = bn1\n        else:\n            bn = bn2", "        if bn1 > bn2:\n            bn = bn2\n        else:\n            bn = bn1", 'C06.O1', scope='_BinOp')
V('C06', 'opcode-renumbered', SCRIPT, 'OP_NIP = CScriptOp(0x77)', 'OP_NIP = CScriptOp(0x78)', 'C06.D2')
V('C06', 'hash160-arm-uses-hash256', EVAL, 'stack.append(bitcoin.core.serialize.Hash160(stack.pop()))', 'stack.append(bitcoin.core.serialize.Hash(stack.pop()))', 'C06.H1', scope='_EvalScript')

# C01.E2 (escape) variants
V('C01', 'txout-constructor-rejects-negative', CORE, "        object.__setattr__(self, 'nValue', int(nValue))", "        if nValue < -1:\n            raise ValueError('CTxOut: nValue out of range')\n        object.__setattr__(self, 'nValue', int(nValue))", 'C01.E2', scope='CTxOut.__init__')
V('C01', 'reader-asserts-version', CORE, '        nVersion = struct.unpack(b"<i", ser_read(f,4))[0]\n        pos = f.tell()', '        nVersion = struct.unpack(b"<i", ser_read(f,4))[0]\n        assert nVersion > 0\n        pos = f.tell()', 'C01.E2', scope='CTransaction.stream_deserialize')
V('C01', 'sequence-read-as-64bit-with-range-check', CORE, 'nSequence = struct.unpack(b"<I", ser_read(f,4))[0]', 'nSequence = struct.unpack(b"<i", ser_read(f,4))[0]', ['C01.E2', 'C01.L'], scope='CTxIn.stream_deserialize')
V('C01', 'block-reader-checks-merkle', CORE, "        vtx = VectorSerializer.stream_deserialize(CTransaction, f)\n        vMerkleTree = tuple(CBlock.build_merkle_tree_from_txs(vtx))", "        vtx = VectorSerializer.stream_deserialize(CTransaction, f)\n        vMerkleTree = tuple(CBlock.build_merkle_tree_from_txs(vtx))\n        if vtx and vMerkleTree[-1] != self.hashMerkleRoot:\n            raise CheckBlockError('bad merkle root')", 'C01.E2', scope='CBlock.stream_deserialize')
V('C01', 'ser_read-raises-valueerror-on-oversize', SER, "raise SerializationError('Asked to read 0x%x bytes; MAX_SIZE exceeded' % n)", "raise ValueError('Asked to read 0x%x bytes; MAX_SIZE exceeded' % n)", ['C01.E2', 'C01.E1'], scope='ser_read')

# ------------------------------------------------------------------------------------------------ C07
V('C07', 'evalscript-without-conversion', EVAL, "    try:\n        _EvalScript(stack, scriptIn, txTo, inIdx, flags=flags)\n    except CScriptInvalidError as err:\n        raise EvalScriptError(repr(err),\n                              stack=stack,\n                              scriptIn=scriptIn,\n                              txTo=txTo,\n                              inIdx=inIdx,\n                              flags=flags)", "    _EvalScript(stack, scriptIn, txTo, inIdx, flags=flags)", ['C07.X1', 'C07.X2'], scope='EvalScript')
V('C07', 'cast-raises-valueerror', EVAL, "raise err_raiser(EvalScriptError, 'CastToBigNum() : overflow')", "raise ValueError('CastToBigNum() : overflow')", 'C07.X1', scope='_CastToBigNum')
V('C07', 'size-opcode-unnamed', SCRIPT, "    OP_SIZE: 'OP_SIZE',\n", "", ['C07.N1'])
V('C07', 'swap-guard-too-weak', EVAL, "            elif sop == OP_SWAP:\n                check_args(2)", "            elif sop == OP_SWAP:\n                check_args(1)", 'C07.G1', scope='_EvalScript')
V('C07', 'revert-F4-assert', EVAL, "        if SCRIPT_VERIFY_P2SH not in flags:\n            raise VerifyScriptError(\"SCRIPT_VERIFY_CLEANSTACK requires SCRIPT_VERIFY_P2SH\")", "        assert SCRIPT_VERIFY_P2SH in flags", 'C07.X1', scope='VerifyScript')
V('C07', 'sighash-on-callers-tx', SCRIPT, 'txtmp = bitcoin.core.CMutableTransaction.from_tx(txTo)', 'txtmp = txTo', 'C07.RO', scope='RawSignatureHash')
V('C07', 'only-truncation-converted', EVAL, 'except CScriptInvalidError as err:', 'except CScriptTruncatedPushDataError as err:', ['C07.X1', 'C07.X2'], scope='EvalScript')
V('C07', 'mutable-txin-identity-shortcut', CORE, "        \"\"\"Create a fully mutable copy of an existing TxIn\"\"\"\n", "        \"\"\"Create a fully mutable copy of an existing TxIn\"\"\"\n        if txin.__class__ is CMutableTxIn:\n            return txin\n", 'C07.RO', scope='CMutableTxIn.from_txin')
V('C07', 'multisig-bound-unchecked', EVAL, "    if len(stack) < i:\n        err_raiser(ArgumentsInvalidError, opcode, \"not enough keys on stack\")\n", "", 'C07.G2', scope='_CheckMultiSig')
V('C07', 'altstack-pop-unguarded', EVAL, "                if len(altstack) < 1:\n                    err_raiser(MissingOpArgumentsError, sop, altstack, 1)\n", "", 'C07.G1', scope='_EvalScript')
V('C07', 'endif-unguarded', EVAL, "                if len(vfExec) == 0:\n                    err_raiser(EvalScriptError, 'ENDIF found without prior IF')\n", "", 'C07.G1', scope='_EvalScript')
V('C07', 'pick-bound-off-by-one', EVAL, 'if n < 0 or n >= len(stack):', 'if n < 0 or n > len(stack):', 'C07.G1', scope='_EvalScript')
V('C07', 'unop-guard-dropped', EVAL, "    if len(stack) < 1:\n        err_raiser(MissingOpArgumentsError, opcode, stack, 1)\n    bn = _CastToBigNum(stack[-1], err_raiser)", "    bn = _CastToBigNum(stack[-1], err_raiser)", 'C07.G1', scope='_UnaryOp')
V('C07', 'verifyscript-top-unguarded', EVAL, "    if len(stack) == 0:\n        raise VerifyScriptError(\"scriptPubKey left an empty stack\")\n", "", ['C07.G1', 'C06.V1'], scope='VerifyScript')
V('C07', 'raw-iter-loop-without-step', SCRIPT, "            sop_idx = i\n            opcode = self[i]\n            i += 1\n", "            sop_idx = i\n            opcode = self[i]\n", 'C07.T1', scope='CScript.raw_iter')
V('C07', 'getsigop-not-converted-in-verify', EVAL, '    if inIdx < 0:\n        raise VerifySignatureError("inIdx negative")\n', '', 'C07.I1', scope='VerifySignature')
V('C07', 'push-non-bytes', EVAL, "                bn = len(stack)\n                stack.append(bitcoin.core._bignum.bn2vch(bn))", "                bn = len(stack)\n                stack.append(bn)", 'C07.K1', scope='_EvalScript')
V('C07', 'reserved-raise-site-keyerror', EVAL, "                err_raiser(EvalScriptError, 'unsupported opcode 0x%x' % sop)", "                err_raiser(EvalScriptError, 'unsupported opcode %s' % OPCODE_NAMES[sop])", 'C07.N1', scope='_EvalScript')

# ------------------------------------------------------------------------------------------------ C08
V('C08', 'pushdata1-threshold', SCRIPT, 'elif len(d) <= 0xff:', 'elif len(d) <= 0xfe:', 'C08.P1', scope='CScriptOp.encode_op_pushdata')
V('C08', 'pushdata2-guard-off-by-one', SCRIPT, 'if i + 1 >= len(self):', 'if i >= len(self):', 'C08.P2', scope='CScript.raw_iter')
V('C08', 'is_p2sh-last-index', SCRIPT, 'self[22] == OP_EQUAL)', 'self[21] == OP_EQUAL)', 'C08.Q1', scope='CScript.is_p2sh')
V('C08', 'revert-F2-decode-current-opcode', SCRIPT, 'n += CScriptOp(lastOpcode).decode_op_n()', 'n += CScriptOp(opcode).decode_op_n()', 'C08.S1', scope='CScript.GetSigOpCount')
V('C08', 'revert-F2-no-try', SCRIPT, "        except CScriptInvalidError:\n            # As in Bitcoin Core, count up to the first malformed push\n            pass", "        except ZeroDivisionError:\n            pass", 'C08.S1', scope='CScript.GetSigOpCount')
V('C08', 'pushdata4-shift', SCRIPT, '(self[i+3] << 24)', '(self[i+3] << 16)', 'C08.P2', scope='CScript.raw_iter')
V('C08', 'pushdata2-big-endian-writer', SCRIPT, "return b'\\x4d' + struct.pack(b'<H', len(d)) + d", "return b'\\x4d' + struct.pack(b'>H', len(d)) + d", 'C08.P1', scope='CScriptOp.encode_op_pushdata')
V('C08', 'small-int-range-excludes-16', SCRIPT, 'if 0x51 <= self <= 0x60 or self == 0:', 'if 0x51 <= self < 0x60 or self == 0:', ['C08.N1', 'C08.I1'], scope='CScriptOp.is_small_int')
V('C08', 'coerce-minus-one-as-number', SCRIPT, "            elif other == -1:\n                other = bytes([OP_1NEGATE])\n", "", 'C08.C1')
V('C08', 'coerce-int-upper-bound-15', SCRIPT, 'if 0 <= other <= 16:', 'if 0 <= other <= 15:', 'C08.C1')
V('C08', 'iter-yields-empty-bytes-for-op0', SCRIPT, "            if opcode == 0:\n                yield 0\n            elif data is not None:", "            if data is not None:", 'C08.I1', scope='CScript.__iter__')
V('C08', 'truncation-not-detected', SCRIPT, 'if len(data) < datasize:', 'if len(data) < datasize - 1:', 'C08.P2', scope='CScript.raw_iter')
V('C08', 'push-only-bound', SCRIPT, "                if op > OP_16:\n                    return False\n", "                if op > OP_NOP:\n                    return False\n", 'C08.Q1', scope='CScript.is_push_only')
V('C08', 'canonical-push-threshold', SCRIPT, 'elif op == OP_PUSHDATA2 and len(data) <= 0xFF:', 'elif op == OP_PUSHDATA2 and len(data) < 0xFF:', 'C08.Q1', scope='CScript.has_canonical_pushes')
V('C08', 'sigop-multisig-weight', SCRIPT, '                        n += 20', '                        n += 16', 'C08.S1', scope='CScript.GetSigOpCount')
V('C08', 'sigop-accurate-ignored', SCRIPT, 'if fAccurate and (OP_1 <= lastOpcode <= OP_16):', 'if OP_1 <= lastOpcode <= OP_16:', 'C08.S1', scope='CScript.GetSigOpCount')
V('C08', 'encode-op-n-off-by-one', SCRIPT, 'return CScriptOp(OP_1 + n-1)', 'return CScriptOp(OP_1 + n)', 'C08.N1', scope='CScriptOp.encode_op_n')
V('C08', 'p2wsh-predicate-length', SCRIPT, "return len(self) == 34 and self[0:2] == b'\\x00\\x20'", "return len(self) >= 34 and self[0:2] == b'\\x00\\x20'", 'C08.Q1')
V('C08', 'is-valid-swallows-nothing', SCRIPT, "        try:\n            list(self)\n        except CScriptInvalidError:\n            return False\n        return True", "        list(self)\n        return True", ['C08.Q1', 'C08.X1'], scope='CScript.is_valid')
V('C08', 'cursor-not-advanced-past-data', SCRIPT, "                i += datasize\n\n                yield (opcode, data, sop_idx)", "                yield (opcode, data, sop_idx)", 'C08.P2', scope='CScript.raw_iter')
V('C08', 'lastopcode-not-updated-for-pushes', SCRIPT, "                lastOpcode = opcode\n", "                if data is None:\n                    lastOpcode = opcode\n", 'C08.S1', scope='CScript.GetSigOpCount')

# ------------------------------------------------------------------------------------------------ C16
V('C16', 'coinbase-script-101', CORE, 'if not (2 <= len(tx.vin[0].scriptSig) <= 100):', 'if not (2 <= len(tx.vin[0].scriptSig) <= 101):', 'C16.T1', scope='CheckTransaction')
V('C16', 'coinbase-script-1', CORE, 'if not (2 <= len(tx.vin[0].scriptSig) <= 100):', 'if not (1 <= len(tx.vin[0].scriptSig) <= 100):', 'C16.T1', scope='CheckTransaction')
V('C16', 'sigops-limit-inclusive', CORE, 'if nSigOps > MAX_BLOCK_SIGOPS:', 'if nSigOps >= MAX_BLOCK_SIGOPS:', 'C16.B1', scope='CheckBlock')
V('C16', 'revert-F9-loop-skips-coinbase', CORE, "    for i, tx in enumerate(block.vtx):\n        if i > 0 and tx.is_coinbase():", "    for tx in block.vtx[1:]:\n        if tx.is_coinbase():", 'C16.B1', scope='CheckBlock')
V('C16', 'revert-F9-nonce-index-first', CORE, "            if len(coinbase_wit) < 1 or len(coinbase_wit[0].scriptWitness.stack) != 1:\n                raise CheckBlockError(\"CheckBlock() : invalid coinbase witnessScript\")\n            nonce = coinbase_wit[0].scriptWitness.stack[0]", "            nonce = coinbase_wit[0].scriptWitness.stack[0]\n            if len(coinbase_wit) < 1 or len(coinbase_wit[0].scriptWitness.stack) != 1:\n                raise CheckBlockError(\"CheckBlock() : invalid coinbase witnessScript\")", 'C16.G1', scope='CheckBlock')
V('C16', 'duplicate-input-rule-dropped', CORE, "        if txin.prevout in vin_outpoints:\n            raise CheckTransactionError(\"CheckTransaction() : duplicate inputs\")\n", "", 'C16.T1', scope='CheckTransaction')
V('C16', 'checkblock-raises-valueerror', CORE, 'raise CheckBlockError("CheckBlock() : vtx empty")', 'raise ValueError("CheckBlock() : vtx empty")', ['C16.X1', 'C16.B1'], scope='CheckBlock')
V('C16', 'duplicate-tx-keyed-on-wtxid', CORE, 'txid = tx.GetTxid()', 'txid = tx.GetHash()', 'C16.B1', scope='CheckBlock')
V('C16', 'pow-limit-bound-at-import', CORE, "def CheckProofOfWork(hash, nBits):", "def CheckProofOfWork(hash, nBits, params=coreparams):", 'C16.P1')
V('C16', 'total-checked-after-loop', CORE, "        nValueOut += txout.nValue\n        if not MoneyRange(nValueOut):\n            raise CheckTransactionError(\"CheckTransaction() : txout total out of range\")", "        nValueOut += txout.nValue\n    if not MoneyRange(nValueOut):\n        raise CheckTransactionError(\"CheckTransaction() : txout total out of range\")", 'C16.T1', scope='CheckTransaction')
V('C16', 'max-money-off-by-one', CORE, 'if txout.nValue > coreparams.MAX_MONEY:', 'if txout.nValue >= coreparams.MAX_MONEY:', 'C16.T1', scope='CheckTransaction')
V('C16', 'timestamp-two-hours-inclusive', CORE, 'if block_header.nTime > cur_time + 2 * 60 * 60:', 'if block_header.nTime >= cur_time + 2 * 60 * 60:', 'C16.H1', scope='CheckBlockHeader')
V('C16', 'weight-limit', CORE, 'MAX_BLOCK_WEIGHT = 4000000', 'MAX_BLOCK_WEIGHT = 4000001', 'C16.B1')
V('C16', 'null-prevout-rule-on-first-input-only', CORE, "        for txin in tx.vin:\n            if txin.prevout.is_null():", "        for txin in tx.vin[:1]:\n            if txin.prevout.is_null():", 'C16.T1', scope='CheckTransaction')
V('C16', 'merkle-check-skipped', CORE, "        if block.hashMerkleRoot != block.calc_merkle_root():\n            raise CheckBlockError(\"CheckBlock() : hashMerkleRoot mismatch\")\n", "", 'C16.B1', scope='CheckBlock')
V('C16', 'is-null-ignores-index', CORE, "return ((self.hash == b'\\x00'*32) and (self.n == 0xffffffff))", "return (self.hash == b'\\x00'*32)", 'C16.D1', scope='COutPoint.is_null')
V('C16', 'legacy-sigops-outputs-only', CORE, "    for txin in tx.vin:\n        nSigOps += txin.scriptSig.GetSigOpCount(False)\n", "", 'C16.D1', scope='GetLegacySigOpCount')
V('C16', 'legacy-mode-decodes-op-n', SCRIPT, 'if fAccurate and (OP_1 <= lastOpcode <= OP_16):', 'if OP_1 <= lastOpcode <= OP_16:', 'C16.S1', scope='CScript.GetSigOpCount')
V('C16', 'size-measured-with-witness', CORE, 'base_tx = CTransaction(tx.vin, tx.vout, tx.nLockTime, tx.nVersion)', 'base_tx = tx', 'C16.T1', scope='CheckTransaction')
V('C16', 'commitment-compared-with-root-only', CORE, 'if commit != Hash(root + nonce):', 'if commit != Hash(root):', 'C16.B1', scope='CheckBlock')

# ------------------------------------------------------------------------------------------------ C17
V('C17', 'revert-F10-sign-bit', CORE, "    if nBits & 0x00800000:\n        raise CheckProofOfWorkError(\"CheckProofOfWork() : nBits negative\")\n", "", 'C17.R1', scope='CheckProofOfWork')
V('C17', 'hash-equal-rejected', CORE, 'if hash > target:', 'if hash >= target:', 'C17.R1', scope='CheckProofOfWork')
V('C17', 'regtest-limit', CORE, 'PROOF_OF_WORK_LIMIT = 2**256-1 >> 1', 'PROOF_OF_WORK_LIMIT = 2**256-1 >> 2', 'C17.C1')
V('C17', 'hash-big-endian', SER, 't = struct.unpack(b"<IIIIIIII", s[:32])', 't = struct.unpack(b">IIIIIIII", s[:32])', 'C17.L1', scope='uint256_from_str')
V('C17', 'zero-target-accepted', CORE, 'if not (0 < target <= coreparams.PROOF_OF_WORK_LIMIT):', 'if not (0 <= target <= coreparams.PROOF_OF_WORK_LIMIT):', 'C17.R1', scope='CheckProofOfWork')
V('C17', 'limb-shift', SER, 'r += t[i] << (i * 32)', 'r += t[i] << (i * 16)', 'C17.L1', scope='uint256_from_str')
V('C17', 'decode-mask-23-bits', SER, 'v = (c & 0xFFFFFF) << (8 * (nbytes - 3))', 'v = (c & 0x7FFFFF) << (8 * (nbytes - 4))', 'C17.F1', scope='uint256_from_compact')
V('C17', 'decode-threshold', SER, "    nbytes = (c >> 24) & 0xFF\n    if nbytes <= 3:", "    nbytes = (c >> 24) & 0xFF\n    if nbytes <= 4:", 'C17.F1', scope='uint256_from_compact')
V('C17', 'encode-no-renormalisation', SER, "    if compact & 0x00800000:\n        compact >>= 8\n        nbytes += 1\n", "", 'C17.F2', scope='compact_from_uint256')
V('C17', 'encode-renormalisation-keeps-exponent', SER, "        compact >>= 8\n        nbytes += 1\n", "        compact >>= 8\n", 'C17.F2', scope='compact_from_uint256')
V('C17', 'encode-size-rounds-down', SER, 'nbytes = (v.bit_length() + 7) >> 3', 'nbytes = v.bit_length() >> 3', 'C17.F2', scope='compact_from_uint256')
V('C17', 'decode-wraps', SER, "        v = (c & 0xFFFFFF) << (8 * (nbytes - 3))\n    return v", "        v = (c & 0xFFFFFF) << (8 * (nbytes - 3))\n    return v & (2**256 - 1)", 'C17.F1', scope='uint256_from_compact')
V('C17', 'pow-error-not-validation', CORE, 'class CheckProofOfWorkError(CheckBlockHeaderError):', 'class CheckProofOfWorkError(Exception):', 'C17.R1')
V('C17', 'limit-default-argument', CORE, "def CheckProofOfWork(hash, nBits):", "def CheckProofOfWork(hash, nBits, limit=coreparams.PROOF_OF_WORK_LIMIT):", 'C17.P1')

# ------------------------------------------------------------------------------------------------ C15
V('C15', 'weight-four-times-stripped', CORE, 'return len(stripped.serialize()) * 3 + len(self.serialize())', 'return len(stripped.serialize()) * 4 + len(self.serialize())', 'C15.W1', scope='CTransaction.calc_weight')
V('C15', 'witness-tree-from-txids', CORE, 'hashes.append(tx.GetHash())', 'hashes.append(tx.GetTxid())', 'C15.M1', scope='CBlock.build_witness_merkle_tree_from_txs')
V('C15', 'coinbase-entry-not-zeroed', CORE, "        hashes[0] = b'\\x00' * 32\n", "", 'C15.M1', scope='CBlock.build_witness_merkle_tree_from_txs')
V('C15', 'pair-clamp-hoisted', CORE, "        size = len(txids)\n        j = 0\n        while size > 1:\n            for i in range(0, size, 2):\n                i2 = min(i+1, size-1)", "        size = len(txids)\n        last = size - 1\n        j = 0\n        while size > 1:\n            for i in range(0, size, 2):\n                i2 = min(i+1, last)", 'C15.M2', scope='CBlock.build_merkle_tree_from_txids')
V('C15', 'pair-without-clamp', CORE, 'i2 = min(i+1, size-1)', 'i2 = min(i+1, size)', 'C15.M2', scope='CBlock.build_merkle_tree_from_txids')
V('C15', 'halving-rounds-down', CORE, 'size = (size + 1) // 2', 'size = size // 2', 'C15.M2', scope='CBlock.build_merkle_tree_from_txids')
V('C15', 'offset-after-halving', CORE, "            j += size\n            size = (size + 1) // 2", "            size = (size + 1) // 2\n            j += size", 'C15.M2', scope='CBlock.build_merkle_tree_from_txids')
V('C15', 'block-weight-full-times-four', CORE, "return len(self.serialize(dict(include_witness=False))) * 3 + len(self.serialize())", "return len(self.serialize()) * 4", 'C15.W1', scope='CBlock.GetWeight')
V('C15', 'ctor-accepts-any-root', CORE, "            elif hashMerkleRoot != vMerkleTree[-1]:\n                raise CheckBlockError(\"CBlock : hashMerkleRoot is not compatible with vtx\")\n", "", 'C15.B1', scope='CBlock.__init__')
V('C15', 'ctor-zero-root-not-filled', CORE, "            if hashMerkleRoot == b'\\x00'*32:\n                hashMerkleRoot = vMerkleTree[-1]\n            elif hashMerkleRoot != vMerkleTree[-1]:", "            if hashMerkleRoot == b'\\x00'*32:\n                pass\n            elif hashMerkleRoot != vMerkleTree[-1]:", 'C15.B1', scope='CBlock.__init__')
V('C15', 'merkle-leaves-wtxid', CORE, 'txids = [tx.GetTxid() for tx in txs]', 'txids = [tx.GetHash() for tx in txs]', 'C15.M1', scope='CBlock.build_merkle_tree_from_txs')
V('C15', 'nowitness-raised-when-any', CORE, "        if not has_witness:\n            raise NoWitnessData", "        if has_witness:\n            raise NoWitnessData", 'C15.M1', scope='CBlock.build_witness_merkle_tree_from_txs')
V('C15', 'weight-null-shortcut-without-guard', CORE, "        if self.wit.is_null():\n            return len(self.serialize()) * 4\n        else:\n            stripped = CTransaction(self.vin, self.vout, self.nLockTime, self.nVersion)\n            return len(stripped.serialize()) * 3 + len(self.serialize())", "        return len(self.serialize()) * 4", 'C15.W1', scope='CTransaction.calc_weight')
V('C15', 'block-transactions-keep-witness-when-stripped', CORE, 'VectorSerializer.stream_serialize(CTransaction, self.vtx, f, dict(include_witness=include_witness))', 'VectorSerializer.stream_serialize(CTransaction, self.vtx, f)', 'C15.W1', scope='CBlock.stream_serialize')

# ------------------------------------------------------------------------------------------------ C19
V('C19', 'no-decimal-parsing', RPC, 'return json.loads(rdata, parse_float=decimal.Decimal)', 'return json.loads(rdata)', 'C19.D1')
V('C19', 'sendrawtransaction-plain-hex', RPC, "            r = self._call('sendrawtransaction', hextx)\n        return lx(r)", "            r = self._call('sendrawtransaction', hextx)\n        return x(r)", 'C19.T1', scope='Proxy.sendrawtransaction')
V('C19', 'getblock-hash-not-reversed', RPC, "            block_hash = b2lx(block_hash)\n        except TypeError:\n            raise TypeError('%s.getblock()", "            block_hash = b2x(block_hash)\n        except TypeError:\n            raise TypeError('%s.getblock()", 'C19.T1', scope='Proxy.getblock')
V('C19', 'balance-int-before-multiply', RPC, "        r = self._call('getbalance', account, minconf, include_watchonly)\n        return int(r*COIN)", "        r = self._call('getbalance', account, minconf, include_watchonly)\n        return int(r)*COIN", 'C19.T1', scope='Proxy.getbalance')
V('C19', 'unregistered-error-subclass', RPC, "@JSONRPCError._register_subcls\nclass InWarmupError(JSONRPCError):", "class InWarmupError(JSONRPCError):", 'C19.R1')
V('C19', 'id-incremented-after-response', RPC, "        self.__id_count += 1\n\n        postdata = json.dumps({'version': '1.1',", "        postdata = json.dumps({'version': '1.1',", 'C19.I1', scope='BaseProxy._call')
V('C19', 'result-returned-despite-error', RPC, "        if err is not None:\n            if isinstance(err, dict):", "        if err is not None and 'result' not in response:\n            if isinstance(err, dict):", 'C19.E1', scope='BaseProxy._call')
V('C19', 'duplicate-error-code', RPC, "class VerifyRejectedError(JSONRPCError):\n    RPC_ERROR_CODE = -26", "class VerifyRejectedError(JSONRPCError):\n    RPC_ERROR_CODE = -25", 'C19.R1')
V('C19', 'lx-not-reversing', CORE, "return binascii.unhexlify(h.encode('utf8'))[::-1]", "return binascii.unhexlify(h.encode('utf8'))", 'C19.C1', scope='lx')
V('C19', 'listunspent-txid-plain', RPC, "COutPoint(lx(unspent['txid']), unspent['vout'])", "COutPoint(x(unspent['txid']), unspent['vout'])", 'C19.T1', scope='Proxy.listunspent')
V('C19', 'sendtoaddress-integer-amount', RPC, "        amount = float(amount)/COIN\n", "        amount = amount/COIN\n", 'C19.T1', scope='Proxy.sendtoaddress')
V('C19', 'missing-result-returns-none', RPC, "        elif 'result' not in response:\n            raise JSONRPCError({\n                'code': -343, 'message': 'missing JSON-RPC result'})\n        else:\n            return response['result']", "        else:\n            return response.get('result')", 'C19.E1', scope='BaseProxy._call')
V('C19', 'gettxout-value-float', RPC, "r['txout'] = CTxOut(int(r['value'] * COIN),", "r['txout'] = CTxOut(int(float(r['value']) * COIN),", 'C19.T1', scope='Proxy.gettxout')
V('C19', 'error-dispatch-without-fallback', RPC, "cls = JSONRPCError.SUBCLS_BY_CODE.get(rpc_error['code'], cls)", "cls = JSONRPCError.SUBCLS_BY_CODE[rpc_error['code']]", 'C19.R1')
V('C19', 'lockunspent-hash-plain', RPC, "json_outpoints = [{'txid':b2lx(outpoint.hash), 'vout':outpoint.n}", "json_outpoints = [{'txid':b2x(outpoint.hash), 'vout':outpoint.n}", 'C19.T1', scope='Proxy.lockunspent')

# ------------------------------------------------------------------------------------------------ C11
V('C11', 'generator-constant', SEGWIT, '0x3b6a57b2, 0x26508e6d', '0x3b6a57b2, 0x26508e6c', 'C11.C1')
V('C11', 'max-length-91', SEGWIT, 'len(bech) > 90', 'len(bech) > 91', 'C11.R1')
V('C11', 'program-min-length-1', SEGWIT, 'len(decoded) < 2', 'len(decoded) < 1', 'C11.R3')
V('C11', 'v0-length-rule-dropped', SEGWIT, "    if data[0] == 0 and len(decoded) != 20 and len(decoded) != 32:\n        return (None, None)\n", "", 'C11.R3', scope='decode')
V('C11', 'separator-first-one', SEGWIT, "pos = bech.rfind('1')", "pos = bech.find('1')", 'C11.R1')
V('C11', 'padding-five-bits-accepted', SEGWIT, 'elif bits >= frombits or', 'elif bits > frombits or', 'C11.R2')
V('C11', 'nonzero-padding-accepted', SEGWIT, 'elif bits >= frombits or ((acc << (tobits - bits)) & maxv):', 'elif bits >= frombits:', 'C11.R2')
V('C11', 'prefix-startswith', SEGWIT, "    if hrpgot != hrp:\n        return (None, None)", "    if hrpgot is None or not hrpgot.startswith(hrp):\n        return (None, None)", 'C11.R3', scope='decode')
V('C11', 'mixed-case-accepted', SEGWIT, "            (bech.lower() != bech and bech.upper() != bech)):", "            False):", 'C11.R1')
V('C11', 'version-17-accepted', SEGWIT, 'if data[0] > 16:', 'if data[0] > 17:', 'C11.R3')
V('C11', 'checksum-constant', SEGWIT, 'return bech32_polymod(bech32_hrp_expand(hrp) + data) == 1', 'return bech32_polymod(bech32_hrp_expand(hrp) + data) == 0', 'C11.C2')
V('C11', 'polymod-shift', SEGWIT, 'top = chk >> 25', 'top = chk >> 24', 'C11.C2')
V('C11', 'charset-letter-swapped', SEGWIT, 'qpzry9x8gf2tvdw0s3jn54khce6mua7l', 'qpzry9x8gf2tvdw0s3jn54khce6mau7l', 'C11.C1')
V('C11', 'prefix-bound-at-import', B32, "import bitcoin\n", "import bitcoin\nfrom bitcoin import params\n", 'C11.P1')
V('C11', 'encoder-without-self-check', SEGWIT, "    if decode(hrp, ret) == (None, None):\n        return None\n", "", 'C11.E1', scope='encode')
V('C11', 'regtest-prefix', INIT, "BECH32_HRP = 'bcrt'", "BECH32_HRP = 'bcr'", 'C11.W1')
V('C11', 'data-min-five-chars', SEGWIT, 'pos + 7 > len(bech)', 'pos + 6 > len(bech)', 'C11.R1')
V('C11', 'checksum-symbols-kept', SEGWIT, 'return (hrp, data[:-6])', 'return (hrp, data[:-5])', 'C11.R1')

# ------------------------------------------------------------------------------------------------ C12
V('C12', 'regtest-hrp', INIT, "BECH32_HRP = 'bcrt'", "BECH32_HRP = 'bcr'", 'C12.C1')
V('C12', 'signet-pubkey-prefix', INIT, "class SigNetParams(bitcoin.core.CoreSigNetParams):\n    MESSAGE_START = b'\\x0a\\x03\\xcf\\x40'\n    DEFAULT_PORT = 38333\n    RPC_PORT = 38332\n    DNS_SEEDS = ((\"signet.bitcoin.sprovoost.nl\", \"seed.signet.bitcoin.sprovoost.nl\"))\n    BASE58_PREFIXES = {'PUBKEY_ADDR':111,", "class SigNetParams(bitcoin.core.CoreSigNetParams):\n    MESSAGE_START = b'\\x0a\\x03\\xcf\\x40'\n    DEFAULT_PORT = 38333\n    RPC_PORT = 38332\n    DNS_SEEDS = ((\"signet.bitcoin.sprovoost.nl\", \"seed.signet.bitcoin.sprovoost.nl\"))\n    BASE58_PREFIXES = {'PUBKEY_ADDR':125,", 'C12.C1')
V('C12', 'select-sets-only-params', INIT, "    elif name == 'regtest':\n        params = bitcoin.core.coreparams = RegTestParams()", "    elif name == 'regtest':\n        params = RegTestParams()", 'C12.S1')
V('C12', 'default-argument-reads-params', WALLET, "    def from_bytes(cls, data, nVersion=None):\n        if nVersion is None:\n            nVersion = bitcoin.params.BASE58_PREFIXES['PUBKEY_ADDR']", "    def from_bytes(cls, data, nVersion=bitcoin.params.BASE58_PREFIXES['PUBKEY_ADDR']):\n        if nVersion is None:\n            nVersion = bitcoin.params.BASE58_PREFIXES['PUBKEY_ADDR']", ['C12.P1', 'C12.T1'])
V('C12', 'revert-F5-assert', WALLET, "        if witver != 0:\n            raise CBitcoinAddressError('witness version %d not supported' % witver)", "        assert witver == 0", ['C12.X1', 'C12.D1'])
V('C12', 'p2wsh-slice-short', WALLET, 'return cls.from_bytes(0, scriptPubKey[2:34])', 'return cls.from_bytes(0, scriptPubKey[2:33])', 'C12.T1')
V('C12', 'p2pkh-matcher-index', WALLET, 'and scriptPubKey[23] == script.OP_EQUALVERIFY', 'and scriptPubKey[22] == script.OP_EQUALVERIFY', 'C12.T1')
V('C12', 'p2sh-builder-uses-equalverify', WALLET, 'return script.CScript([script.OP_HASH160, self, script.OP_EQUAL])', 'return script.CScript([script.OP_HASH160, self, script.OP_EQUALVERIFY])', 'C12.T1')
V('C12', 'script-addr-selects-p2pkh', WALLET, "        if nVersion == bitcoin.params.BASE58_PREFIXES['SCRIPT_ADDR']:\n            self.__class__ = P2SHBitcoinAddress", "        if nVersion == bitcoin.params.BASE58_PREFIXES['SCRIPT_ADDR']:\n            self.__class__ = P2PKHBitcoinAddress", 'C12.D1')
V('C12', 'unknown-version-valueerror', WALLET, "           raise CBitcoinAddressError('Version %d not a recognized Bitcoin Address' % nVersion)", "           raise ValueError('Version %d not a recognized Bitcoin Address' % nVersion)", ['C12.X1', 'C12.D1'])
V('C12', 'select-testnet-uses-mainnet-class', INIT, "    elif name == 'testnet':\n        params = bitcoin.core.coreparams = TestNetParams()", "    elif name == 'testnet':\n        params = bitcoin.core.coreparams = MainParams()", 'C12.S1')
V('C12', 'base58-error-not-absorbed', WALLET, "        except bitcoin.base58.Base58Error:\n            pass\n\n        raise CBitcoinAddressError('Unrecognized encoding for bitcoin address')", "        except bitcoin.base58.Base58ChecksumError:\n            pass\n\n        raise CBitcoinAddressError('Unrecognized encoding for bitcoin address')", ['C12.X1', 'C12.D1'])
V('C12', 'p2wpkh-from-script-uses-wrong-slice', WALLET, "            return cls.from_bytes(0, scriptPubKey[2:22])", "            return cls.from_bytes(0, scriptPubKey[1:21])", 'C12.T1')
V('C12', 'bech32-hrp-prefix-match', SEGWIT, "    if hrpgot != hrp:\n        return (None, None)", "    if hrpgot is None or not hrpgot.startswith(hrp):\n        return (None, None)", 'C12.R3', scope='decode')
V('C12', 'unknown-chain-silently-ignored', INIT, "    else:\n        raise ValueError('Unknown chain %r' % name)", "    else:\n        pass", 'C12.S1', scope='SelectParams')

# ------------------------------------------------------------------------------------------------ C10
V('C10', 'checksum-slice-three', B58, 'verbyte, data, check0 = k[0:1], k[1:-4], k[-4:]', 'verbyte, data, check0 = k[0:1], k[1:-4], k[-3:]', 'C10.L1')
V('C10', 'checksum-not-compared', B58, "        if check0 != check1:\n            raise Base58ChecksumError('Checksum mismatch: expected %r, calculated %r' % (check0, check1))\n", "", 'C10.L1')
V('C10', 'alphabet-contains-zero', B58, "B58_DIGITS = '123456789ABCDEFGHJKLMNPQRSTUVWXYZabcdefghijkmnopqrstuvwxyz'", "B58_DIGITS = '023456789ABCDEFGHJKLMNPQRSTUVWXYZabcdefghijkmnopqrstuvwxyz'", 'C10.C1')
V('C10', 'version-255-refused', B58, 'if not (0 <= nVersion <= 255):', 'if not (0 <= nVersion < 0xff):', 'C10.L1')
V('C10', 'float-length', B58, "    h = '%x' % n\n    if len(h) % 2:\n        h = '0' + h\n    res = binascii.unhexlify(h.encode('utf8'))", "    import math\n    res = n.to_bytes(int(math.log(n, 256)) + 1 if n else 1, 'big')", 'C10.A1', scope='decode')
V('C10', 'invalid-char-valueerror', B58, "            raise InvalidBase58Error('Character %r is not a valid base58 character' % c)", "            raise ValueError('Character %r is not a valid base58 character' % c)", ['C10.A1', 'C10.X1'], scope='decode')
V('C10', 'membership-check-dropped', B58, "        if c not in B58_DIGITS:\n            raise InvalidBase58Error('Character %r is not a valid base58 character' % c)\n", "", 'C10.A1', scope='decode')
V('C10', 'writer-checksum-over-payload-only', B58, 'check = bitcoin.core.Hash(vs)[0:4]', 'check = bitcoin.core.Hash(self)[0:4]', 'C10.L1')
V('C10', 'encode-base-57', B58, 'n, r = divmod(n, 58)', 'n, r = divmod(n, 57)', 'C10.C1', scope='encode')
V('C10', 'pad-on-the-right', B58, "return b'\\x00' * pad + res", "return res + b'\\x00' * pad", 'C10.A1', scope='decode')
V('C10', 'checksum-error-not-base58error', B58, 'class Base58ChecksumError(Base58Error):', 'class Base58ChecksumError(Exception):', 'C10.X1')
V('C10', 'reader-version-from-last-byte', B58, 'return cls.from_bytes(data, verbyte[0])', 'return cls.from_bytes(data, k[-1])', 'C10.L1')

# ------------------------------------------------------------------------------------------------ C13
V('C13', 'sign-returns-raw-signature', KEY, "        if bitcoin.core.script.IsLowDERSignature(mb_sig.raw[:sig_size0.value]):\n            return mb_sig.raw[:sig_size0.value]\n        else:\n            return self.signature_to_low_s(mb_sig.raw[:sig_size0.value])", "        return mb_sig.raw[:sig_size0.value]", 'C13.D1', scope='CECKey.sign')
V('C13', 'verify-nonzero-is-valid', KEY, 'return _ssl.ECDSA_verify(0, hash, len(hash), norm_der, derlen, self.k) == 1', 'return _ssl.ECDSA_verify(0, hash, len(hash), norm_der, derlen, self.k) != 0', 'C13.V1')
V('C13', 'half-order-byte', SCRIPT, "0x5d,0x57,0x6e,0x73,0x57,0xa4,0x50,0x1d,", "0x5d,0x57,0x6e,0x73,0x57,0xa4,0x50,0x1e,", 'C13.C1')
V('C13', 'wif-marker-index-31', WALLET, 'len(self) > 32 and self[32] == 1', 'len(self) > 31 and self[31] == 1', 'C13.L1')
V('C13', 'wif-marker-last-byte', WALLET, 'len(self) > 32 and self[32] == 1', 'self[-1] == 1', 'C13.L1')
V('C13', 'verify-failure-returns-true', KEY, "        if not norm_sig:\n            return False", "        if not norm_sig:\n            return True", 'C13.V1', scope='CECKey.verify')
V('C13', 'low-s-upper-bound-exclusive', SCRIPT, 'CompareBigEndian(s_val, max_mod_half_order) <= 0', 'CompareBigEndian(s_val, max_mod_half_order) < 0', 'C13.C1')
V('C13', 'fullyvalid-always', KEY, 'self.is_fullyvalid = _cec_key.set_pubkey(self) is not None', 'self.is_fullyvalid = _cec_key.set_pubkey(self) is not False', 'C13.K1')
V('C13', 'wif-version-not-checked', WALLET, "        if self.nVersion != bitcoin.params.BASE58_PREFIXES['SECRET_KEY']:\n            raise CBitcoinSecretError('Not a base58-encoded secret key: got nVersion=%d; expected nVersion=%d' % \\\n                                      (self.nVersion, bitcoin.params.BASE58_PREFIXES['SECRET_KEY']))\n", "", 'C13.L1')
V('C13', 'wif-writer-marker-00', WALLET, "secret + (b'\\x01' if compressed else b'')", "secret + (b'\\x00' if compressed else b'')", 'C13.L1')
V('C13', 'curve-nid', KEY, '_NID_secp256k1 = 714', '_NID_secp256k1 = 715', 'C13.C1')
V('C13', 'sign-compact-skips-normalisation', KEY, "            sig = self.signature_to_low_s(mb_sig.raw[:sig_size0.value])\n\n        sig = bitcoin.signature", "            sig = mb_sig.raw[:sig_size0.value]\n\n        sig = bitcoin.signature", 'C13.D1', scope='CECKey.sign_compact')
V('C13', 'secret-prefix-regtest', INIT, "class RegTestParams(bitcoin.core.CoreRegTestParams):\n    MESSAGE_START = b'\\xfa\\xbf\\xb5\\xda'\n    DEFAULT_PORT = 18444\n    RPC_PORT = 18443\n    DNS_SEEDS = ()\n    BASE58_PREFIXES = {'PUBKEY_ADDR':111,\n                       'SCRIPT_ADDR':196,\n                       'SECRET_KEY' :239}", "class RegTestParams(bitcoin.core.CoreRegTestParams):\n    MESSAGE_START = b'\\xfa\\xbf\\xb5\\xda'\n    DEFAULT_PORT = 18444\n    RPC_PORT = 18443\n    DNS_SEEDS = ()\n    BASE58_PREFIXES = {'PUBKEY_ADDR':111,\n                       'SCRIPT_ADDR':196,\n                       'SECRET_KEY' :238}", 'C13.L1')
V('C13', 'compressed-form-after-pubkey', WALLET, "        self._cec_key.set_compressed(compressed)\n\n        self.pub = bitcoin.core.key.CPubKey(self._cec_key.get_pubkey(), self._cec_key)", "        self.pub = bitcoin.core.key.CPubKey(self._cec_key.get_pubkey(), self._cec_key)\n        self._cec_key.set_compressed(compressed)", 'C13.L1')

# ------------------------------------------------------------------------------------------------ C05
V('C05', 'checksig-passes-full-signature', EVAL, "    hashtype = sig[-1]\n    sig = sig[:-1]\n", "    hashtype = sig[-1]\n", 'C05.W1', scope='_CheckSig')
V('C05', 'hashtype-first-byte', EVAL, 'hashtype = sig[-1]', 'hashtype = sig[0]', 'C05.W1', scope='_CheckSig')
V('C05', 'legacy-single-keeps-all-outputs', SCRIPT, "        tmp = txtmp.vout[outIdx]\n        txtmp.vout = []\n        for i in range(outIdx):\n            txtmp.vout.append(bitcoin.core.CTxOut())\n        txtmp.vout.append(tmp)\n", "", 'C05.K1', scope='RawSignatureHash')
V('C05', 'verifier-hashes-first-input', EVAL, '(h, err) = RawSignatureHash(script, txTo, inIdx, hashtype)', '(h, err) = RawSignatureHash(script, txTo, 0, hashtype)', 'C05.W1', scope='_CheckSig')
V('C05', 'subscript-ignores-codeseparator', EVAL, "                vchSig = stack[-2]\n                tmpScript = CScript(scriptIn[pbegincodehash:])", "                vchSig = stack[-2]\n                tmpScript = CScript(scriptIn)", 'C05.W1', scope='_EvalScript')
V('C05', 'signature-not-removed-from-subscript', EVAL, "                tmpScript = FindAndDelete(tmpScript, CScript([vchSig]))\n", "", 'C05.W1', scope='_EvalScript')
V('C05', 'multisig-key-not-consumed', EVAL, "        ikey += 1\n        keys_count -= 1\n\n        if sigs_count > keys_count:", "        else:\n            ikey += 1\n            keys_count -= 1\n\n        if sigs_count > keys_count:", 'C05.M1', scope='_CheckMultiSig')
V('C05', 'sequence-of-own-input-zeroed', SCRIPT, "            if i != inIdx:\n                txtmp.vin[i].nSequence = 0\n\n    elif", "            txtmp.vin[i].nSequence = 0\n\n    elif", 'C05.K1', scope='RawSignatureHash')
V('C05', 'verifyscript-evaluates-with-index-zero', EVAL, "    EvalScript(stack, scriptPubKey, txTo, inIdx, flags=flags)\n    if len(stack) == 0:", "    EvalScript(stack, scriptPubKey, txTo, 0, flags=flags)\n    if len(stack) == 0:", 'C05.W1', scope='VerifyScript')
V('C05', 'codeseparator-position-off', EVAL, 'pbegincodehash = sop_pc', 'pbegincodehash = sop_pc + 1', 'C05.W1', scope='_EvalScript')
V('C05', 'signer-high-s', KEY, "        if bitcoin.core.script.IsLowDERSignature(mb_sig.raw[:sig_size0.value]):\n            return mb_sig.raw[:sig_size0.value]\n        else:\n            return self.signature_to_low_s(mb_sig.raw[:sig_size0.value])", "        return mb_sig.raw[:sig_size0.value]", 'C05.S2', scope='CECKey.sign')
V('C05', 'locktime-not-committed', SCRIPT, "    txtmp.wit = bitcoin.core.CTxWitness()\n    s = txtmp.serialize()", "    s = bitcoin.core.CTransaction(txtmp.vin, txtmp.vout, 0, txtmp.nVersion).serialize()", 'C05.K1', scope='RawSignatureHash')

# ------------------------------------------------------------------------------------------------ behaviour-preserving twins
# (expect='SILENT': the property still holds; the rules must neither fire nor become undecided)
V('C15', 'benign-weight-per-transaction-sum', CORE, "return len(self.serialize(dict(include_witness=False))) * 3 + len(self.serialize())",
  "overhead = (len(self.get_header().serialize()) + len(VarIntSerializer.serialize(len(self.vtx)))) * 4\n        return overhead + sum(tx.calc_weight() for tx in self.vtx)", 'SILENT', scope='CBlock.GetWeight')
V('C15', 'benign-weight-operands-swapped', CORE, "return len(self.serialize(dict(include_witness=False))) * 3 + len(self.serialize())",
  "full = len(self.serialize())\n        stripped = len(self.serialize(dict(include_witness=False)))\n        return full + 3 * stripped", 'SILENT', scope='CBlock.GetWeight')
V('C01', 'benign-header-reader-renamed-locals', CORE, "        nTime = struct.unpack(b\"<I\", ser_read(f,4))[0]\n        nBits = struct.unpack(b\"<I\", ser_read(f,4))[0]\n        nNonce = struct.unpack(b\"<I\", ser_read(f,4))[0]\n        return cls(nVersion, hashPrevBlock, hashMerkleRoot, nTime, nBits, nNonce)",
  "        t = struct.unpack(\"<I\", ser_read(f, 4))[0]\n        bits = struct.unpack(\"<I\", ser_read(f, 4))[0]\n        nonce = struct.unpack(\"<I\", ser_read(f, 4))[0]\n        return cls(nVersion, hashPrevBlock, hashMerkleRoot, t, bits, nonce)", 'SILENT', scope='CBlockHeader.stream_deserialize')
V('C01', 'benign-outpoint-writer-single-pack', CORE, "        f.write(self.hash)\n        f.write(struct.pack(b\"<I\", self.n))", "        f.write(self.hash + struct.pack(b\"<I\", self.n))", 'SILENT', scope='COutPoint.stream_serialize')
V('C03', 'benign-base-type-local', SCRIPT, "    if (hashtype & 0x1f) == SIGHASH_NONE:\n        txtmp.vout = []", "    base_type = hashtype & 0x1f\n    if base_type == SIGHASH_NONE:\n        txtmp.vout = []", 'SILENT', scope='RawSignatureHash')
V('C04', 'benign-guard-rewritten', SCRIPT, "        if ((hashtype & 0x1f) != SIGHASH_SINGLE and (hashtype & 0x1f) != SIGHASH_NONE):\n            serialize_outputs = bytes()", "        if (hashtype & 0x1f) not in (SIGHASH_SINGLE, SIGHASH_NONE):\n            serialize_outputs = bytes()", 'SILENT', scope='SignatureHash')
V('C16', 'benign-coinbase-script-bounds-rewritten', CORE, 'if not (2 <= len(tx.vin[0].scriptSig) <= 100):', 'if len(tx.vin[0].scriptSig) < 2 or len(tx.vin[0].scriptSig) > 100:', 'SILENT', scope='CheckTransaction')
V('C06', 'benign-limit-compare-flipped', EVAL, 'if len(stack) + len(altstack) > MAX_STACK_ITEMS:', 'if MAX_STACK_ITEMS < len(stack) + len(altstack):', 'SILENT', scope='_EvalScript')
V('C17', 'benign-target-range-split', CORE, "    if not (0 < target <= coreparams.PROOF_OF_WORK_LIMIT):\n        raise CheckProofOfWorkError(\"CheckProofOfWork() : nBits below minimum work\")", "    if target <= 0 or target > coreparams.PROOF_OF_WORK_LIMIT:\n        raise CheckProofOfWorkError(\"CheckProofOfWork() : nBits below minimum work\")", 'SILENT', scope='CheckProofOfWork')
V('C20', 'benign-seed-operands-swapped', BLOOM, '((nHashNum * 0xFBA4C795) + self.nTweak) & 0xFFFFFFFF', '(self.nTweak + 0xFBA4C795 * nHashNum) & 0xFFFFFFFF', 'SILENT', scope='CBloomFilter.bloom_hash')
V('C09', 'benign-from-tx-explicit-loops', CORE, "        vin = [CMutableTxIn.from_txin(txin) for txin in tx.vin]\n        vout = [CMutableTxOut.from_txout(txout) for txout in tx.vout]", "        vin = [CMutableTxIn.from_txin(i) for i in tx.vin]\n        vout = [CMutableTxOut.from_txout(o) for o in tx.vout]", 'SILENT', scope='CMutableTransaction.from_tx')
V('C08', 'benign-pushdata-bounds-as-decimals', SCRIPT, "        if len(d) < 0x4c:\n            return bytes([len(d)]) + d # OP_PUSHDATA\n        elif len(d) <= 0xff:", "        if len(d) < 76:\n            return bytes([len(d)]) + d # OP_PUSHDATA\n        elif len(d) < 256:", 'SILENT', scope='CScriptOp.encode_op_pushdata')

# ------------------------------------------------------------------------------------------------ EFFECT rule (Cxx.Z1) and the rules added after the third round
V('C01', 'serialize-merges-into-default-params', SER, "        f = BytesIO()\n        self.stream_serialize(f, **params)\n        return f.getvalue()",
  "        params.setdefault('include_witness', True)\n        f = BytesIO()\n        self.stream_serialize(f, **params)\n        return f.getvalue()", 'C01.Z1', scope='Serializable.serialize')
V2('C02', 'txid-cached-on-all-transactions', [(CORE, "    __slots__ = ['nVersion', 'vin', 'vout', 'nLockTime', 'wit']\n\n    def __init__(self, vin=(), vout=(), nLockTime=0, nVersion=1, witness=CTxWitness()):\n        \"\"\"Create a new transaction\n",
                                                "    __slots__ = ['nVersion', 'vin', 'vout', 'nLockTime', 'wit', '_cached_GetTxid']\n\n    def __init__(self, vin=(), vout=(), nLockTime=0, nVersion=1, witness=CTxWitness()):\n        \"\"\"Create a new transaction\n", None),
                                               (CORE, "            txid = Hash(self.serialize())\n        return txid", "            txid = Hash(self.serialize())\n        object.__setattr__(self, '_cached_GetTxid', txid)\n        return txid", 'CTransaction.GetTxid')], 'C02.Z1')
V2('C16', 'pow-targets-memoised-across-chains', [(CORE, "def CheckProofOfWork(hash, nBits):", "_targets = {}\n\ndef CheckProofOfWork(hash, nBits):", None),
                                                  (CORE, "    target = uint256_from_compact(nBits)\n\n    # A compact value with the sign bit set denotes a negative target\n    if nBits & 0x00800000:\n        raise CheckProofOfWorkError(\"CheckProofOfWork() : nBits negative\")\n\n    # Check range\n    if not (0 < target <= coreparams.PROOF_OF_WORK_LIMIT):\n        raise CheckProofOfWorkError(\"CheckProofOfWork() : nBits below minimum work\")\n",
                                                   "    target = _targets.get(nBits)\n    if target is None:\n        target = uint256_from_compact(nBits)\n        if nBits & 0x00800000:\n            raise CheckProofOfWorkError(\"CheckProofOfWork() : nBits negative\")\n        if not (0 < target <= coreparams.PROOF_OF_WORK_LIMIT):\n            raise CheckProofOfWorkError(\"CheckProofOfWork() : nBits below minimum work\")\n        _targets[nBits] = target\n", 'CheckProofOfWork')], 'C16.Z1')
V2('C17', 'pow-limit-latched-at-first-use', [(CORE, "def CheckProofOfWork(hash, nBits):", "_limit = None\n\ndef CheckProofOfWork(hash, nBits):", None),
                                              (CORE, "    target = uint256_from_compact(nBits)\n\n    # A compact value", "    global _limit\n    if _limit is None:\n        _limit = coreparams.PROOF_OF_WORK_LIMIT\n    target = uint256_from_compact(nBits)\n\n    # A compact value", 'CheckProofOfWork'),
                                              (CORE, "    if not (0 < target <= coreparams.PROOF_OF_WORK_LIMIT):", "    if not (0 < target <= _limit):", 'CheckProofOfWork')], 'C17.Z1')
V2('C11', 'decode-remembers-validated-strings', [(SEGWIT, "def bech32_decode(bech):", "_seen = {}\n\ndef bech32_decode(bech):", None),
                                                  (SEGWIT, "    if ((any(ord(x) < 33 or ord(x) > 126 for x in bech)) or", "    hit = _seen.get(bech.lower())\n    if hit is not None:\n        return (hit[0], list(hit[1]))\n    if ((any(ord(x) < 33 or ord(x) > 126 for x in bech)) or", 'bech32_decode'),
                                                  (SEGWIT, "    return (hrp, data[:-6])", "    _seen[bech] = (hrp, tuple(data[:-6]))\n    return (hrp, data[:-6])", 'bech32_decode')], 'C11.Z1')
V2('C14', 'recovered-keys-memoised-by-signature', [(SIGMSG, "def VerifyMessage(address, message, sig):", "_keys = {}\n\ndef VerifyMessage(address, message, sig):", None),
                                                    (SIGMSG, "    pubkey = CPubKey.recover_compact(hash, sig)\n", "    pubkey = _keys.get(sig)\n    if pubkey is None:\n        pubkey = CPubKey.recover_compact(hash, sig)\n        _keys[sig] = pubkey\n", 'VerifyMessage')], 'C14.Z1')
V('C10', 'str-memoised-by-lru-cache', B58, "    def __str__(self):\n        \"\"\"Convert to string\"\"\"", "    @functools.lru_cache(maxsize=None)\n    def __str__(self):\n        \"\"\"Convert to string\"\"\"", 'C10.Z1', scope='CBase58Data')
V('C04', 'midstate-stored-on-the-transaction', SCRIPT, "            hashPrevouts = bitcoin.core.Hash(serialize_prevouts)", "            if not hasattr(txTo, '_prevouts_hash'):\n                object.__setattr__(txTo, '_prevouts_hash', bitcoin.core.Hash(serialize_prevouts))\n            hashPrevouts = txTo._prevouts_hash", 'C04.Z1', scope='SignatureHash')
# new rules
V('C03', 'wrapper-looks-at-the-input-first', SCRIPT, "    if sigversion == SIGVERSION_WITNESS_V0:\n        hashPrevouts = b'\\x00'*32", "    txin = txTo.vin[inIdx]\n    if sigversion == SIGVERSION_WITNESS_V0:\n        hashPrevouts = b'\\x00'*32", 'C03.P1', scope='SignatureHash')
V2('C05', 'multisig-shares-one-key-object', [(EVAL, "def _CheckSig(sig, pubkey, script, txTo, inIdx, err_raiser):\n    key = bitcoin.core.key.CECKey()", "def _CheckSig(sig, pubkey, script, txTo, inIdx, err_raiser, key=None):\n    if key is None:\n        key = bitcoin.core.key.CECKey()", None),
                                              (EVAL, "        if _CheckSig(sig, pubkey, script, txTo, inIdx, err_raiser):\n            isig += 1", "        if _CheckSig(sig, pubkey, script, txTo, inIdx, err_raiser, shared_key):\n            isig += 1", '_CheckMultiSig'),
                                              (EVAL, "    success = True\n\n    while success and sigs_count > 0:", "    success = True\n    shared_key = bitcoin.core.key.CECKey()\n\n    while success and sigs_count > 0:", '_CheckMultiSig')], 'C05.W1')
V('C05', 'mutable-txin-copy-returns-itself', CORE, "        prevout = CMutableOutPoint.from_outpoint(txin.prevout)\n        return cls(prevout, txin.scriptSig, txin.nSequence)", "        if txin.__class__ is cls:\n            return txin\n        prevout = CMutableOutPoint.from_outpoint(txin.prevout)\n        return cls(prevout, txin.scriptSig, txin.nSequence)", 'C05.F2', scope='CMutableTxIn.from_txin')
V('C06', 'cast-to-bool-by-strip', EVAL, "    for i in range(len(s)):\n        sv = s[i]\n        if sv != 0:\n            if (i == (len(s) - 1)) and (sv == 0x80):\n                return False\n            return True\n\n    return False",
  "    return s.strip(b'\\x00') not in (b'', b'\\x80')", 'C06.B2', scope='_CastToBool')
V('C06', 'cast-to-bool-negative-zero-anywhere', EVAL, "            if (i == (len(s) - 1)) and (sv == 0x80):", "            if sv == 0x80:", 'C06.B2', scope='_CastToBool')
V('C06', 'cast-to-bool-empty-true', EVAL, "            return True\n\n    return False", "            return True\n\n    return len(s) == 0", 'C06.B2', scope='_CastToBool')
V('C06', 'benign-cast-to-bool-enumerate', EVAL, "    for i in range(len(s)):\n        sv = s[i]\n        if sv != 0:\n            if (i == (len(s) - 1)) and (sv == 0x80):\n                return False\n            return True",
  "    for i, sv in enumerate(s):\n        if sv == 0:\n            continue\n        return not (i == len(s) - 1 and sv == 0x80)", 'SILENT', scope='_CastToBool')
V('C07', 'verify-peeks-at-der-header', KEY, "        if not sig:\n          return False\n", "        if not sig:\n          return False\n        if sig[0] != 0x30 or sig[1] == 0:\n          return False\n", 'C07.I2', scope='CECKey.verify')
V('C07', 'benign-verify-peeks-with-length-test', KEY, "        if not sig:\n          return False\n", "        if not sig:\n          return False\n        if len(sig) < 2 or sig[0] != 0x30:\n          return False\n", 'SILENT', scope='CECKey.verify')
V('C07', 'mutable-txout-copy-returns-itself', CORE, "        return cls(txout.nValue, txout.scriptPubKey)", "        if txout.__class__ is cls:\n            return txout\n        return cls(txout.nValue, txout.scriptPubKey)", ['C07.F2', 'C07.RO'], scope='CMutableTxOut.from_txout')
V('C08', 'sigops-skip-data-pushes-early', SCRIPT, "            for (opcode, data, sop_idx) in self.raw_iter():\n", "            for (opcode, data, sop_idx) in self.raw_iter():\n                if data is not None:\n                    continue\n", 'C08.S1', scope='CScript.GetSigOpCount')
V('C12', 'case-checked-on-data-part-only', SEGWIT, "            (bech.lower() != bech and bech.upper() != bech)):", "            (bech[bech.rfind('1'):].lower() != bech[bech.rfind('1'):] and bech[bech.rfind('1'):].upper() != bech[bech.rfind('1'):])):", 'C12.R1', scope='bech32_decode')
V('C14', 'sign-compact-compresses-the-key', KEY, "        pubkey = CECKey()\n        pubkey.set_pubkey(self.get_pubkey())\n        pubkey.set_compressed(True)", "        self.set_compressed(True)\n        pubkey = CECKey()\n        pubkey.set_pubkey(self.get_pubkey())\n        pubkey.set_compressed(True)", 'C14.K2', scope='CECKey.sign_compact')
V('C18', 'unknown-command-returns-before-payload', MSG, "        msglen = struct.unpack(b\"<I\", recvbuf[4+12:4+12+4])[0]\n", "        msglen = struct.unpack(b\"<I\", recvbuf[4+12:4+12+4])[0]\n        if command not in messagemap:\n            return None\n", 'C18.D1', scope='MsgSerializable.stream_deserialize')
V('C08', 'p2sh-indexes-before-length', SCRIPT, "        return (len(self) == 23 and\n                self[0] == OP_HASH160 and", "        return (self[0] == OP_HASH160 and\n                len(self) == 23 and", 'C08.I2', scope='CScript.is_p2sh')
V('C12', 'bare-pubkey-template-indexes-before-length', WALLET, "            if (len(scriptPubKey) == 35 # compressed\n                  and scriptPubKey[0]  == 0x21", "            if (scriptPubKey[0]  == 0x21\n                  and len(scriptPubKey) == 35 # compressed", 'C12.I2', scope='P2PKHBitcoinAddress.from_scriptPubKey')
V('C13', 'wif-compression-marker-without-length-test', WALLET, "CKey.__init__(self, self[0:32], len(self) > 32 and self[32] == 1)", "CKey.__init__(self, self[0:32], self[32] == 1)", ['C13.I2', 'C13.L1'], scope='CBitcoinSecret.__init__')
V('C14', 'recover-compact-header-before-length-test', KEY, "        if len(sig) != 65:\n            raise ValueError(\"Signature should be 65 characters, not [%d]\" % (len(sig), ))\n\n        recid = (sig[0] - 27) & 3",
  "        recid = (sig[0] - 27) & 3\n        if len(sig) != 65:\n            raise ValueError(\"Signature should be 65 characters, not [%d]\" % (len(sig), ))\n", 'C14.I2', scope='CPubKey.recover_compact')
V('C08', 'benign-unspendable-length-alias', SCRIPT, "        return (len(self) > 0 and\n                self[0] == OP_RETURN)", "        size = len(self)\n        return (size > 0 and\n                self[0] == OP_RETURN)", 'SILENT', scope='CScript.is_unspendable')

# ------------------------------------------------------------------------------------------------ RESTORE twins (round-4 kinds): spelling only, the rules must stay silent
V('C01', 'benign-else-after-return-removed', CORE, "            return cls(vin, vout, nLockTime, nVersion, wit)\n        else:\n            f.seek(pos) # put marker byte back, since we don't have peek\n            vin = VectorSerializer.stream_deserialize(CTxIn, f)\n            vout = VectorSerializer.stream_deserialize(CTxOut, f)\n            nLockTime = struct.unpack(b\"<I\", ser_read(f,4))[0]\n            return cls(vin, vout, nLockTime, nVersion)",
  "            return cls(vin, vout, nLockTime, nVersion, wit)\n        f.seek(pos) # put marker byte back, since we don't have peek\n        vin = VectorSerializer.stream_deserialize(CTxIn, f)\n        vout = VectorSerializer.stream_deserialize(CTxOut, f)\n        nLockTime = struct.unpack(b\"<I\", ser_read(f,4))[0]\n        return cls(vin, vout, nLockTime, nVersion)", 'SILENT', scope='CTransaction.stream_deserialize')
V('C01', 'benign-compactsize-thresholds-as-shifts', SER, "elif i <= 0xffff:", "elif i <= (1 << 16) - 1:", 'SILENT', scope='VarIntSerializer.stream_serialize')
V('C01', 'benign-short-read-guard-negated', SER, "    if len(r) < n:\n        raise SerializationTruncationError", "    if not len(r) >= n:\n        raise SerializationTruncationError", 'SILENT', scope='ser_read')
V('C01', 'benign-vector-reader-zero-trip-guard', SER, "        n = VarIntSerializer.stream_deserialize(f)\n        r = []\n        for i in range(n):\n            r.append(inner_cls.stream_deserialize(f, **inner_params))",
  "        n = VarIntSerializer.stream_deserialize(f)\n        if n == 0:\n            return []\n        r = []\n        for i in range(n):\n            r.append(inner_cls.stream_deserialize(f, **inner_params))", 'SILENT', scope='VectorSerializer.stream_deserialize')
V('C11', 'benign-decode-called-by-keyword', B32, "witver, data = decode(bitcoin.params.BECH32_HRP, s)", "witver, data = decode(hrp=bitcoin.params.BECH32_HRP, addr=s)", 'SILENT', scope='CBech32Data.__new__')
V('C06', 'benign-pick-roll-bound-chained', EVAL, "if n < 0 or n >= len(stack):", "if not (0 <= n < len(stack)):", 'SILENT', scope='_EvalScript')
V('C07', 'benign-altstack-emptiness-by-truth', EVAL, "if len(altstack) < 1:", "if not altstack:", 'SILENT', scope='_EvalScript')
V('C18', 'benign-caddress-nested-ifs', NET, "        if c.protover >= CADDR_TIME_VERSION and not without_time:\n            c.nTime = struct.unpack(b\"<I\", ser_read(f, 4))[0]",
  "        if c.protover >= CADDR_TIME_VERSION:\n            if not without_time:\n                c.nTime = struct.unpack(b\"<I\", ser_read(f, 4))[0]", 'SILENT', scope='CAddress.stream_deserialize')
V('C15', 'benign-merkle-index-conditional', CORE, "i2 = min(i+1, size-1)", "i2 = i+1 if i+1 < size else size-1", 'SILENT', scope='CBlock.build_merkle_tree_from_txids')
V('C10', 'benign-encode-remainder-quotient', B58, "n, r = divmod(n, 58)", "r = n % 58\n        n = n // 58", 'SILENT', scope='encode')
V('C12', 'template-order-of-tests-with-index-first', WALLET, "            if (len(scriptPubKey) == 35 # compressed\n                  and scriptPubKey[0]  == 0x21", "            if (scriptPubKey[0]  == 0x21\n                  and len(scriptPubKey) == 35 # compressed", 'C12.I2', scope='P2PKHBitcoinAddress.from_scriptPubKey')

# ------------------------------------------------------------------------------------------------ rules added after the fourth round of defects
V('C07', 'multisigverify-failure-built-with-a-message', EVAL, "                err_raiser(VerifyOpFailedError, opcode)", "                err_raiser(VerifyOpFailedError, opcode, \"not enough valid signatures\")", 'C07.A1', scope='_CheckMultiSig')
V('C01', 'locktime-read-relabels-truncation', CORE, "            nLockTime = struct.unpack(b\"<I\", ser_read(f,4))[0]\n            return cls(vin, vout, nLockTime, nVersion, wit)",
  "            try:\n                nLockTime = struct.unpack(b\"<I\", ser_read(f,4))[0]\n            except SerializationError:\n                raise ValueError('truncated witness transaction')\n            return cls(vin, vout, nLockTime, nVersion, wit)", 'C01.E1', scope='CTransaction.stream_deserialize')
V('C18', 'body-read-relabels-truncation', MSG, "        recvbuf += ser_read(f, msglen)\n", "        try:\n            recvbuf += ser_read(f, msglen)\n        except SerializationError as err:\n            raise ValueError('Invalid message length %d: %s' % (msglen, err))\n", 'C18.D1', scope='MsgSerializable.stream_deserialize')
V('C09', 'immutable-hash-taken-from-gethash', SER, "_cached__hash__ = hash(self.serialize())", "_cached__hash__ = hash(self.GetHash())", 'C09.R3', scope='ImmutableSerializable.__hash__')
V('C09', 'eq-type-guard-de-morgan-slip', SER, "if (not isinstance(other, self.__class__) and\n            not isinstance(self, other.__class__)):", "if not (isinstance(other, self.__class__) and\n            isinstance(self, other.__class__)):", 'C09.T5', scope='Serializable.__eq__')
V('C10', 'decode-strips-white-space', B58, "    if not s:\n        return b''\n\n    # Convert the string to an integer", "    s = s.strip()\n    if not s:\n        return b''\n\n    # Convert the string to an integer", 'C10.A1', scope='decode')
V('C10', 'revert-F17-short-string-guard', B58, "        if len(k) < 5:\n            # a version byte and a four-byte checksum: with fewer bytes the slices below overlap\n            raise Base58ChecksumError('Base58 string too short to hold a version byte and checksum: %d bytes' % len(k))\n", "", 'C10.L1', scope='CBase58Data.__new__')
V2('C12', 'witness-version-test-moved-behind-length', [(WALLET, "        if witver != 0:\n            raise CBitcoinAddressError('witness version %d not supported' % witver)\n        self = super(CBech32BitcoinAddress, cls).from_bytes(", "        self = super(CBech32BitcoinAddress, cls).from_bytes(", 'CBech32BitcoinAddress.from_bytes'),
                                                       (WALLET, "        elif len(self) == 20:\n            self.__class__ = P2WPKHBitcoinAddress\n        else:\n            raise CBitcoinAddressError('witness program does not match any known segwit address format')",
                                                        "        elif len(self) == 20:\n            self.__class__ = P2WPKHBitcoinAddress\n        elif witver != 0:\n            raise CBitcoinAddressError('witness version %d not supported' % witver)\n        else:\n            raise CBitcoinAddressError('witness program does not match any known segwit address format')", 'CBech32BitcoinAddress.from_bytes')], 'C12.D1')
V('C13', 'from-secret-bytes-drops-the-flag', WALLET, "        self.__init__(None)\n        return self", "        CKey.__init__(self, secret)\n        return self", 'C13.L1', scope='CBitcoinSecret.from_secret_bytes')
V('C16', 'commitment-index-first-match', CORE, "                commit_pos = index\n        if commit_pos is None:\n            raise ValueError('The witness commitment is missed')\n        return commit_pos", "                return index\n        raise ValueError('The witness commitment is missed')", 'C16.D1', scope='CBlock.get_witness_commitment_index')
V('C17', 'renormalisation-only-for-long-values', SER, "        compact = compact & 0xFFFFFF\n\n    # If the sign bit (0x00800000) is set, divide the mantissa by 256 and\n    # increase the exponent to get an encoding without it set.\n    if compact & 0x00800000:\n        compact >>= 8\n        nbytes += 1\n",
  "        compact = compact & 0xFFFFFF\n        if compact & 0x00800000:\n            compact >>= 8\n            nbytes += 1\n", 'C17.F2', scope='compact_from_uint256')
V('C17', 'limb-loop-stops-at-zero-word', SER, "    for i in range(8):\n        r += t[i] << (i * 32)", "    for i in range(8):\n        if not t[i]:\n            break\n        r += t[i] << (i * 32)", 'C17.L1', scope='uint256_from_str')
V('C19', 'listunspent-conversions-behind-the-address', RPC, "            except KeyError:\n                pass\n            unspent['scriptPubKey'] = CScript(unhexlify_str(unspent['scriptPubKey']))\n            unspent['amount'] = int(unspent['amount'] * COIN)",
  "                unspent['scriptPubKey'] = CScript(unhexlify_str(unspent['scriptPubKey']))\n                unspent['amount'] = int(unspent['amount'] * COIN)\n            except KeyError:\n                pass", 'C19.T1', scope='Proxy.listunspent')
V('C20', 'insert-stops-at-a-saturated-byte', BLOOM, "            nIndex = self.bloom_hash(i, elem)\n            # Sets bit nIndex of vData", "            nIndex = self.bloom_hash(i, elem)\n            if self.vData[nIndex >> 3] == 0xff:\n                break\n            # Sets bit nIndex of vData", 'C20.N1', scope='CBloomFilter.insert')

# ------------------------------------------------------------------------------------------------ rules added after the fifth round (defects disguised as cleanups)
V('C07', 'wrapped-error-state-handed-over-positionally', EVAL, "        raise EvalScriptError(repr(err),\n                              stack=stack,\n                              scriptIn=scriptIn,\n                              txTo=txTo,\n                              inIdx=inIdx,\n                              flags=flags)",
  "        raise EvalScriptError(repr(err), stack, scriptIn, txTo, inIdx, flags)", 'C07.A1', scope='EvalScript')
V('C14', 'recovery-id-split-shifts-by-two', KEY, "i = int(recid / 2)", "i = recid >> 2", 'C14.R1', scope='CECKey.recover')
V('C14', 'benign-recovery-id-split-by-shift', KEY, "i = int(recid / 2)", "i = recid >> 1", 'SILENT', scope='CECKey.recover')
V('C02', 'input-witness-null-by-item-truth', CORE, "        return self.scriptWitness.is_null()", "        return not any(self.scriptWitness)", 'C02.W1', scope='CTxInWitness.is_null')
V('C08', 'sigops-counted-after-collecting-all-opcodes', SCRIPT, "            for (opcode, data, sop_idx) in self.raw_iter():\n                if opcode in (OP_CHECKSIG, OP_CHECKSIGVERIFY):",
  "            opcodes = [op for (op, data, sop_idx) in self.raw_iter()]\n            for opcode in opcodes:\n                if opcode in (OP_CHECKSIG, OP_CHECKSIGVERIFY):", 'C08.S1', scope='CScript.GetSigOpCount')
V('C15', 'witness-flag-skips-the-coinbase', CORE, "        for tx in txs:\n            hashes.append(tx.GetHash())\n            has_witness |= tx.has_witness()",
  "        for tx in txs:\n            hashes.append(tx.GetHash())\n        has_witness = any(tx.has_witness() for tx in txs[1:])", 'C15.M1', scope='CBlock.build_witness_merkle_tree_from_txs')
V('C10', 'zero-count-by-strip', B58, "    czero = 0\n    pad = 0\n    for c in b:\n        if c == czero:\n            pad += 1\n        else:\n            break\n", "    pad = len(b) - len(b.strip(b'\\x00'))\n", 'C10.A1', scope='encode')
V('C10', 'benign-zero-count-by-lstrip', B58, "    czero = 0\n    pad = 0\n    for c in b:\n        if c == czero:\n            pad += 1\n        else:\n            break\n", "    pad = len(b) - len(b.lstrip(b'\\x00'))\n", 'SILENT', scope='encode')
V('C09', 'witness-list-stored-as-given', CORE, "object.__setattr__(self, 'vtxinwit', tuple(vtxinwit))", "object.__setattr__(self, 'vtxinwit', vtxinwit)", 'C09.R5', scope='CTxWitness.__init__')

# ------------------------------------------------------------------------------------------------ rules added in the sixth round (one-token defects; newer-Python spellings read by LOWER)
HASH_ONE_LIT = "HASH_ONE = b'\\x01\\x00\\x00\\x00\\x00\\x00\\x00\\x00\\x00\\x00\\x00\\x00\\x00\\x00\\x00\\x00\\x00\\x00\\x00\\x00\\x00\\x00\\x00\\x00\\x00\\x00\\x00\\x00\\x00\\x00\\x00\\x00'"
V('C05', 'entry-compares-with-the-spending-outputs', EVAL, "if txin.prevout.n >= len(txFrom.vout):", "if txin.prevout.n >= len(txTo.vout):", 'C05.E1', scope='VerifySignature')
V('C05', 'entry-verifies-the-other-script', EVAL, "VerifyScript(txin.scriptSig, txout.scriptPubKey, txTo, inIdx)", "VerifyScript(txout.scriptPubKey, txin.scriptSig, txTo, inIdx)", 'C05.E1', scope='VerifySignature')
V('C05', 'cleanstack-tests-the-kept-stack', EVAL, "        if len(stack) != 1:", "        if len(stackCopy) != 1:", 'C05.V1', scope='VerifyScript')
V('C05', 'nulldummy-wants-a-zero-byte', EVAL, "        if stack[-1] != b'':", "        if stack[-1] != b'\\x00':", 'C05.L1', scope='_CheckMultiSig')
V('C05', 'digest-for-the-signature-version', SCRIPT, "(h, err) = RawSignatureHash(script, txTo, inIdx, hashtype)", "(h, err) = RawSignatureHash(script, txTo, sigversion, hashtype)", 'C05.P1', scope='SignatureHash')
V('C05', 'kept-stack-is-the-stack-itself', EVAL, "stackCopy = list(stack)", "stackCopy = stack", ['C05.V1', 'C06.V1'], scope='VerifyScript')
V('C05', 'benign-kept-stack-by-slice', EVAL, "stackCopy = list(stack)", "stackCopy = stack[:]", 'SILENT', scope='VerifyScript')
V('C06', 'benign-kept-stack-by-copy-method', EVAL, "stackCopy = list(stack)", "stackCopy = stack.copy()", 'SILENT', scope='VerifyScript')
V('C10', 'short-string-guard-refuses-empty-payload', B58, "        if len(k) < 5:", "        if len(k) <= 5:", 'C10.L1', scope='CBase58Data.__new__')
V('C03', 'benign-hash-one-by-to-bytes', SCRIPT, HASH_ONE_LIT, "HASH_ONE = (1).to_bytes(32, 'little')", 'SILENT', scope='RawSignatureHash')
V('C03', 'hash-one-big-endian', SCRIPT, HASH_ONE_LIT, "HASH_ONE = (1).to_bytes(32, 'big')", 'C03.D1', scope='RawSignatureHash')
V('C08', 'benign-f-string-message', SCRIPT, "raise ValueError('op %r is not an OP_N' % self)", "raise ValueError(f'op {self!r} is not an OP_N')", 'SILENT', scope='CScriptOp.decode_op_n')
V('C17', 'benign-walrus-in-the-comparison', CORE, "    hash = uint256_from_str(hash)\n    if hash > target:", "    if (hash := uint256_from_str(hash)) > target:", 'SILENT', scope='CheckProofOfWork')
V('C17', 'walrus-with-equality-refused', CORE, "    hash = uint256_from_str(hash)\n    if hash > target:", "    if (hash := uint256_from_str(hash)) >= target:", 'C17.R1', scope='CheckProofOfWork')
V('C16', 'benign-params-by-or', CORE, "    if not params:\n      params = coreparams\n", "    params = params or coreparams\n", 'SILENT', scope='MoneyRange')
V('C16', 'params-default-bound-to-the-core-chain', CORE, "    if not params:\n      params = coreparams\n", "    params = params or CoreMainParams\n", 'C16.T1', scope='MoneyRange')
V('C18', 'benign-one-element-unpacking', MSG, 'c.nonce = struct.unpack(b"<Q", ser_read(f, 8))[0]', '(c.nonce,) = struct.unpack(b"<Q", ser_read(f, 8))', 'SILENT', scope='msg_ping.msg_deser')
V('C18', 'one-element-unpacking-signed', MSG, 'c.nonce = struct.unpack(b"<Q", ser_read(f, 8))[0]', '(c.nonce,) = struct.unpack(b"<q", ser_read(f, 8))', 'C18.L1', scope='msg_ping.msg_deser')
V('C06', 'benign-within-by-conditional-expression', EVAL, "                v = (bn2 <= bn1) and (bn1 < bn3)\n                if v:\n                    stack.append(b\"\\x01\")\n                else:\n                    stack.append(b\"\")",
  "                stack.append(b\"\\x01\" if bn2 <= bn1 < bn3 else b\"\")", 'SILENT', scope='_EvalScript')
V('C06', 'within-includes-the-upper-bound', EVAL, "                v = (bn2 <= bn1) and (bn1 < bn3)\n                if v:\n                    stack.append(b\"\\x01\")\n                else:\n                    stack.append(b\"\")",
  "                stack.append(b\"\\x01\" if bn2 <= bn1 <= bn3 else b\"\")", 'C06.O1', scope='_EvalScript')
V('C06', 'within-arms-swapped', EVAL, "                v = (bn2 <= bn1) and (bn1 < bn3)\n                if v:\n                    stack.append(b\"\\x01\")\n                else:\n                    stack.append(b\"\")",
  "                stack.append(b\"\" if bn2 <= bn1 < bn3 else b\"\\x01\")", 'C06.O1', scope='_EvalScript')
V('C15', 'benign-zeroed-coinbase-by-display', CORE, "        hashes[0] = b'\\x00' * 32\n        return CBlock.build_merkle_tree_from_txids(hashes)", "        return CBlock.build_merkle_tree_from_txids([b'\\x00' * 32, *hashes[1:]])", 'SILENT',
  scope='CBlock.build_witness_merkle_tree_from_txs')
V('C15', 'coinbase-entry-is-31-zero-bytes', CORE, "        hashes[0] = b'\\x00' * 32\n        return CBlock.build_merkle_tree_from_txids(hashes)", "        return CBlock.build_merkle_tree_from_txids([b'\\x00' * 31, *hashes[1:]])", 'C15.M1',
  scope='CBlock.build_witness_merkle_tree_from_txs')
V('C13', 'benign-undecodable-der-test-twice', KEY, "        if not norm_sig:\n            return False", "        if not norm_sig or norm_sig.value is None:\n            return False", 'SILENT', scope='CECKey.verify')

# ------------------------------------------------------------------------------------------------ rules that came out of the mutation campaign (DELTA, TOKEN, defaults, refusals, round trips)
# (expect='UNDECIDED:<rule>': the family cannot judge the edit; the named rule must say so and nothing may claim a violation)
V('C19', 'request-no-longer-sent', RPC, "        r = self._call('getbalance', account, minconf, include_watchonly)", "        pass", 'C19.Q1', scope='Proxy.getbalance')
V('C19', 'converted-reply-dropped', RPC, "        return r\n\n    def getmininginfo", "        pass\n\n    def getmininginfo", ['C19.Q1'], scope=None)
V('C19', 'verbose-header-by-default', RPC, "def getblockheader(self, block_hash, verbose=False):", "def getblockheader(self, block_hash, verbose=True):", 'C19.Q1')
V('C19', 'verbosity-flag-no-longer-reaches-the-node', RPC, "r = self._call('getrawtransaction', b2lx(txid), 1 if verbose else 0)", "r = self._call('getrawtransaction', b2lx(txid), 1 if verbose else 1)", 'C19.Q1', scope='Proxy.getrawtransaction')
V('C19', 'benign-higher-verbosity-requested', RPC, "r = self._call('getrawtransaction', b2lx(txid), 1 if verbose else 0)", "r = self._call('getrawtransaction', b2lx(txid), 2 if verbose else 0)", 'UNDECIDED:C19.Z3', scope='Proxy.getrawtransaction')
V('C19', 'balance-converted-when-absent', RPC, "        if 'balance' in r:", "        if 'balance' not in r:", 'C19.T1', scope='Proxy.getinfo')
V('C19', 'type-refusal-swallowed', RPC, "            raise TypeError('%s.getblock(): block_hash must be bytes; got %r instance' %\n                    (self.__class__.__name__, block_hash.__class__))", "            pass", 'C19.Z2', scope='Proxy.getblock')
V('C16', 'null-prevout-refusal-gone', CORE, '                raise CheckTransactionError("CheckTransaction() : prevout is null")', '                pass', ['C16.Z2', 'C16.T1'], scope='CheckTransaction')
V('C06', 'benign-unreachable-assertion-gone', EVAL, "        raise AssertionError(\"Unknown unary opcode encountered; this should not happen\")", "        pass", 'UNDECIDED:C06.Z2', scope='_UnaryOp')
V('C16', 'duplicate-test-refuses-nothing', CORE, '            raise CheckBlockError("CheckBlock() : duplicate transaction")', '            pass', 'C16.B1', scope='CheckBlock')
V('C16', 'pow-off-by-default', CORE, "def CheckBlock(block, fCheckPoW = True, fCheckMerkleRoot = True, cur_time=None):", "def CheckBlock(block, fCheckPoW = False, fCheckMerkleRoot = True, cur_time=None):", 'C16.B1')
V('C16', 'sigop-total-starts-at-one', CORE, "    nSigOps = 0\n    for i, tx in enumerate(block.vtx):", "    nSigOps = 1\n    for i, tx in enumerate(block.vtx):", 'C16.B1', scope='CheckBlock')
V('C16', 'commitment-of-39-bytes-refused', CORE, "if not (6 + 32 <= len(commit_script) <= 6 + 32 + 1):", "if not (6 + 32 <= len(commit_script) < 6 + 32 + 1):", 'C16.B1', scope='CheckBlock')
V('C16', 'commitment-of-40-bytes-accepted', CORE, "if not (6 + 32 <= len(commit_script) <= 6 + 32 + 1):", "if not (6 + 32 <= len(commit_script) <= 6 + 32 + 2):", 'UNDECIDED:C16.B1', scope='CheckBlock')
V('C16', 'missing-commitment-swallowed', CORE, '                raise CheckBlockError("CheckBlock() : " + str(e))', '                pass', 'C16.B1', scope='CheckBlock')
V('C06', 'ifdup-reads-the-bottom', EVAL, "                vch = stack[-1]\n                if _CastToBool(vch):", "                vch = stack[-0]\n                if _CastToBool(vch):", 'C06.I1', scope='_EvalScript')
V('C06', 'ripemd-block-starts-early', RIPEMD, "state = compress(*state, data[64*b:64*(b+1)])", "state = compress(*state, data[63*b:64*(b+1)])", 'C06.H1', scope='ripemd160')
V('C12', 'builder-asserts-nonzero-version', WALLET, "        assert self.witver == 0\n        return script.CScript([0, self])\n\n    def to_redeemScript(self):\n        raise NotImplementedError",
  "        assert self.witver != 0\n        return script.CScript([0, self])\n\n    def to_redeemScript(self):\n        raise NotImplementedError", 'C12.T1')
V('C12', 'missing-version-not-resolved', WALLET, "        if nVersion is None:\n            nVersion = bitcoin.params.BASE58_PREFIXES['SCRIPT_ADDR']", "        if nVersion is not None:\n            nVersion = bitcoin.params.BASE58_PREFIXES['SCRIPT_ADDR']", 'C12.T1',
  scope='P2SHBitcoinAddress.from_bytes')
V('C12', 'nested-program-slice-early', WALLET, "return cls.from_bytes(scriptPubKey[3:23], bitcoin.params.BASE58_PREFIXES['PUBKEY_ADDR'])\n        elif (len(scriptPubKey) == 25",
  "return cls.from_bytes(scriptPubKey[2:23], bitcoin.params.BASE58_PREFIXES['PUBKEY_ADDR'])\n        elif (len(scriptPubKey) == 25", 'C12.T1', scope='P2PKHBitcoinAddress.from_scriptPubKey')
V('C12', 'benign-slice-bound-beyond-the-end', WALLET, "return cls.from_bytes(scriptPubKey[2:22], bitcoin.params.BASE58_PREFIXES['PUBKEY_ADDR'])", "return cls.from_bytes(scriptPubKey[2:23], bitcoin.params.BASE58_PREFIXES['PUBKEY_ADDR'])",
  'SILENT', scope='P2PKHBitcoinAddress.from_scriptPubKey')
V('C01', 'witness-dropped-by-default', CORE, "    def stream_serialize(self, f, include_witness=True):\n        f.write(struct.pack(b\"<i\", self.nVersion))\n        if include_witness",
  "    def stream_serialize(self, f, include_witness=False):\n        f.write(struct.pack(b\"<i\", self.nVersion))\n        if include_witness", 'C01.F1')
V('C01', 'default-previous-hash-31-bytes', CORE, "def __init__(self, nVersion=2, hashPrevBlock=b'\\x00'*32, hashMerkleRoot=b'\\x00'*32, nTime=0, nBits=0, nNonce=0):",
  "def __init__(self, nVersion=2, hashPrevBlock=b'\\x00'*31, hashMerkleRoot=b'\\x00'*32, nTime=0, nBits=0, nNonce=0):", 'C01.F1')
V('C13', 'uncompressed-by-default', WALLET, "    def __init__(self, secret, compressed=True):", "    def __init__(self, secret, compressed=False):", 'C13.F1')
V('C15', 'witness-root-second-to-last', CORE, "return self.build_witness_merkle_tree_from_txs(self.vtx)[-1]", "return self.build_witness_merkle_tree_from_txs(self.vtx)[-2]", 'C15.M1', scope='CBlock.calc_witness_merkle_root')
V('C15', 'weight-needs-two-outputs', CORE, "        assert len(self.vout) > 0", "        assert len(self.vout) > 1", 'C15.W1', scope='CTransaction.calc_weight')
V('C15', 'benign-weight-precondition-weaker', CORE, "        assert len(self.vout) > 0", "        assert len(self.vout) >= 0", 'UNDECIDED:C15.Z3', scope='CTransaction.calc_weight')
V('C08', 'sigop-count-starts-at-one', SCRIPT, "        n = 0\n        lastOpcode = OP_INVALIDOPCODE", "        n = 1\n        lastOpcode = OP_INVALIDOPCODE", 'C08.S1', scope='CScript.GetSigOpCount')
V('C08', 'previous-opcode-not-initialised', SCRIPT, "        n = 0\n        lastOpcode = OP_INVALIDOPCODE", "        n = 0\n        pass", 'C08.S1', scope='CScript.GetSigOpCount')
V('C18', 'stream-form-writes-nothing', MSG, "        data = self.to_bytes()\n        f.write(data)", "        data = self.to_bytes()\n        pass", 'C18.V1', scope='MsgSerializable.stream_serialize')
V('C18', 'legacy-version-fixup-off-by-one', MSG, "        if c.nVersion == 10300:\n            c.nVersion = 300", "        if c.nVersion == 10300:\n            c.nVersion = 301", 'C18.V1', scope='msg_version.msg_deser')
V('C18', 'relay-byte-read-with-size-two', MSG, 'c.fRelay = struct.unpack(b"<B", ser_read(f,1))[0]', 'c.fRelay = struct.unpack(b"<B", ser_read(f,2))[0]', 'C18.V1', scope='msg_version.msg_deser')
V('C18', 'absent-nonce-keeps-constructor-value', MSG, "            c.addrFrom = None\n            c.nNonce = None", "            c.addrFrom = None\n            pass", 'C18.V1', scope='msg_version.msg_deser')
V('C20', 'rotation-refuses-the-all-ones-word', BLOOM, "    assert x <= 0xFFFFFFFF", "    assert x < 0xFFFFFFFF", 'C20.K1', scope='_ROTL32')
V('C20', 'benign-rotation-domain-wider', BLOOM, "    assert x <= 0xFFFFFFFF", "    assert x <= 0x1FFFFFFFF", 'UNDECIDED:C20.Z3', scope='_ROTL32')
V('C20', 'bits-to-bytes-by-nine', BLOOM, "self.MAX_BLOOM_FILTER_SIZE * 8) / 8))", "self.MAX_BLOOM_FILTER_SIZE * 8) / 9))", 'C20.K1', scope='CBloomFilter.__init__')
V('C20', 'full-filter-answers-false', BLOOM, "        if len(self.vData) == 1 and self.vData[0] == 0xff:\n            return True", "        if len(self.vData) == 1 and self.vData[0] == 0xff:\n            return False", 'C20.N1', scope='CBloomFilter.contains')
V('C09', 'copy-helper-returns-nothing', CORE, "            return cls(txout.nValue, txout.scriptPubKey)", "            pass", ['C09.R6', 'C02.F2'], scope='CTxOut.from_txout')
V('C09', 'none-default-stored', CORE, "        if vout is None:\n            vout = []\n        self.vout = vout", "        if vout is None:\n            pass\n        self.vout = vout", 'C09.R7', scope='CMutableTransaction.__init__')
V('C07', 'captured-stack-not-kept', EVAL, "        self.stack = stack\n", "        pass\n", 'C07.A1', scope='EvalScriptError.__init__')
V('C07', 'benign-captured-opcode-not-kept', EVAL, "        self.sop = sop\n", "        pass\n", 'UNDECIDED:C07.Z2', scope='EvalScriptError.__init__')
V('C07', 'op-limit-error-drops-its-state', EVAL, "        super(MaxOpCountError, self).__init__('max opcode count exceeded',**kwargs)", "        pass", 'C07.A1', scope='MaxOpCountError.__init__')
V('C14', 'recovery-keeps-going-on-a-bad-point', KEY, "            if not _ssl.EC_POINT_set_compressed_coordinates_GFp(group, R, x, recid % 2, ctx):\n                return 0", "            if not _ssl.EC_POINT_set_compressed_coordinates_GFp(group, R, x, recid % 2, ctx):\n                pass",
  'UNDECIDED:C14.Z2', scope='CECKey.recover')
V('C16', 'duplicate-input-rule-removed', CORE, "        if txin.prevout in vin_outpoints:\n            raise CheckTransactionError(\"CheckTransaction() : duplicate inputs\")\n", "", ['C16.Z2', 'C16.T1'], scope='CheckTransaction')
V('C06', 'script-size-limit-removed', EVAL, "    if len(scriptIn) > MAX_SCRIPT_SIZE:\n        raise EvalScriptError('script too large; got %d bytes; maximum %d bytes' %\n                                        (len(scriptIn), MAX_SCRIPT_SIZE),\n                              stack=stack,\n                              scriptIn=scriptIn,\n                              txTo=txTo,\n                              inIdx=inIdx,\n                              flags=flags)\n", "", ['C06.Z2', 'C06.L1'], scope='_EvalScript')
V('C04', 'digest-forms-share-one-value', SCRIPT, "SIGVERSION_BASE = 0", "SIGVERSION_BASE = 1", 'C04.A0')
V('C01', 'element-limit-one-less', SER, "MAX_SIZE = 0x02000000", "MAX_SIZE = 0x01ffffff", 'C01.K1')
V('C18', 'address-time-version-moved', NET, "CADDR_TIME_VERSION = 31402", "CADDR_TIME_VERSION = 31403", 'C18.C1')

# ------------------------------------------------------------------------------------------------ one-token twins (round 8)
# edits of one or two tokens that leave the behaviour alone: decided by the property's rule or by the token-edit rule, silently
V('C06', 'benign-cleanstack-more-than-one', EVAL, 'if len(stack) != 1:', 'if len(stack) > 1:', 'SILENT', scope='VerifyScript')
V('C17', 'benign-decode-threshold-below-three', SER, "    nbytes = (c >> 24) & 0xFF\n    if nbytes <= 3:", "    nbytes = (c >> 24) & 0xFF\n    if nbytes < 3:", 'SILENT', scope='uint256_from_compact')
V('C17', 'benign-target-nonzero', CORE, 'if not (0 < target <= coreparams.PROOF_OF_WORK_LIMIT):', 'if not (0 != target <= coreparams.PROOF_OF_WORK_LIMIT):', 'SILENT', scope='CheckProofOfWork')
V('C01', 'benign-format-code-L', CORE, 'nTime = struct.unpack(b"<I", ser_read(f,4))[0]', 'nTime = struct.unpack(b"<L", ser_read(f,4))[0]', 'SILENT', scope='CBlockHeader.stream_deserialize')
V('C02', 'benign-setattr-through-base', SER, "object.__setattr__(self, '_cached_GetHash', _cached_GetHash)", "Serializable.__setattr__(self, '_cached_GetHash', _cached_GetHash)", 'SILENT', scope='ImmutableSerializable.GetHash')
V('C09', 'benign-mutable-setattr-through-base', CORE, 'cls.__setattr__ = object.__setattr__', 'cls.__setattr__ = Serializable.__setattr__', 'SILENT', scope='__make_mutable')
V('C09', 'benign-identity-operands-swapped', CORE, 'if txout.__class__ is CTxOut:', 'if CTxOut is txout.__class__:', 'SILENT', scope='CTxOut.from_txout')
V('C11', 'benign-hrp-low-bits-by-modulo', SEGWIT, '[ord(x) & 31 for x in hrp]', '[ord(x) % 32 for x in hrp]', 'SILENT', scope='bech32_hrp_expand')
V('C12', 'benign-program-slice-to-end', WALLET, 'return cls.from_bytes(0, scriptPubKey[2:34])', 'return cls.from_bytes(0, scriptPubKey[2:])', 'SILENT', scope='P2WSHBitcoinAddress.from_scriptPubKey')
V('C16', 'benign-legacy-sigops-zero-flag', CORE, 'nSigOps += txin.scriptSig.GetSigOpCount(False)', 'nSigOps += txin.scriptSig.GetSigOpCount(0)', 'SILENT', scope='GetLegacySigOpCount')
V('C19', 'benign-reversal-from-last', CORE, "return binascii.hexlify(b[::-1]).decode('utf8')", "return binascii.hexlify(b[-1::-1]).decode('utf8')", 'SILENT', scope='b2lx')
V('C04', 'benign-single-arm-not-none', SCRIPT, 'elif ((hashtype & 0x1f) == SIGHASH_SINGLE and inIdx < len(txTo.vout)):', 'elif ((hashtype & 0x1f) != SIGHASH_NONE and inIdx < len(txTo.vout)):', 'SILENT', scope='SignatureHash')
V('C08', 'benign-pushdata4-at-least', SCRIPT, 'elif opcode == OP_PUSHDATA4:', 'elif opcode >= OP_PUSHDATA4:', 'SILENT', scope='CScript.raw_iter')
V('C09', 'benign-copied-index', SCRIPT, 'if outIdx >= len(txtmp.vout):', 'if inIdx >= len(txtmp.vout):', 'SILENT', scope='RawSignatureHash')
V('C05', 'benign-signature-index-operands-swapped', EVAL, 'sig = stack[-isig - k]', 'sig = stack[-k - isig]', 'SILENT', scope='_CheckMultiSig')
V('C07', 'benign-flag-test-operands-swapped', SCRIPT, '    if hashtype & SIGHASH_ANYONECANPAY:', '    if SIGHASH_ANYONECANPAY & hashtype:', 'SILENT', scope='RawSignatureHash')
V('C10', 'benign-odd-length-by-mask', B58, 'if len(h) % 2:', 'if len(h) & 1:', 'SILENT', scope='decode')
# ... and their near misses, which are not harmless
V('C16', 'legacy-sigops-accurate-flag-one', CORE, 'nSigOps += txin.scriptSig.GetSigOpCount(False)', 'nSigOps += txin.scriptSig.GetSigOpCount(1)', 'C16.D1', scope='GetLegacySigOpCount')
V('C19', 'reversal-drops-last-byte', CORE, "return binascii.hexlify(b[::-1]).decode('utf8')", "return binascii.hexlify(b[-2::-1]).decode('utf8')", 'C19.C1', scope='b2lx')
V('C08', 'pushdata2-at-least', SCRIPT, 'elif opcode == OP_PUSHDATA2:', 'elif opcode >= OP_PUSHDATA2:', 'C08.P2', scope='CScript.raw_iter')
V('C12', 'program-slice-from-three', WALLET, 'return cls.from_bytes(0, scriptPubKey[2:34])', 'return cls.from_bytes(0, scriptPubKey[3:])', 'C12.T1', scope='P2WSHBitcoinAddress.from_scriptPubKey')
V('C01', 'format-code-H', CORE, 'nTime = struct.unpack(b"<I", ser_read(f,4))[0]', 'nTime = struct.unpack(b"<H", ser_read(f,4))[0]', 'C01.L1', scope='CBlockHeader.stream_deserialize')
V('C09', 'mutable-setattr-through-immutable-base', CORE, 'cls.__setattr__ = object.__setattr__', 'cls.__setattr__ = ImmutableSerializable.__setattr__', 'C09.R4', scope='__make_mutable')


# ------------------------------------------------------------------------------------------------ look-alike defects (round 9)
V('C07', 'flags-default-none', EVAL, 'def EvalScript(stack, scriptIn, txTo, inIdx, flags=()):', 'def EvalScript(stack, scriptIn, txTo, inIdx, flags=None):', 'C07.F3')
V('C06', 'flags-default-p2sh', EVAL, 'def VerifyScript(scriptSig, scriptPubKey, txTo, inIdx, flags=()):', 'def VerifyScript(scriptSig, scriptPubKey, txTo, inIdx, flags=(SCRIPT_VERIFY_P2SH,)):', 'C06.F1')
V('C07', 'benign-flags-default-frozenset', EVAL, 'def EvalScript(stack, scriptIn, txTo, inIdx, flags=()):', 'def EvalScript(stack, scriptIn, txTo, inIdx, flags=frozenset()):', 'SILENT')
V('C03', 'anyonecanpay-by-threshold', SCRIPT, '    if hashtype & SIGHASH_ANYONECANPAY:', '    if hashtype >= SIGHASH_ANYONECANPAY:', 'C03.D1', scope='RawSignatureHash')
V('C13', 'trim-drops-last-byte', SCRIPT, 'while len(c1) > len(c2):\n        if c1.pop(0) > 0:', 'while len(c1) > len(c2):\n        if c1.pop() > 0:', 'UNDECIDED:C13.Z3', scope='CompareBigEndian')
V('C03', 'none-loop-ordering-guard', SCRIPT, "        for i in range(len(txtmp.vin)):\n            if i != inIdx:\n                txtmp.vin[i].nSequence = 0\n\n    elif", "        for i in range(len(txtmp.vin)):\n            if i > inIdx:\n                txtmp.vin[i].nSequence = 0\n\n    elif", 'C03.D1', scope='RawSignatureHash')
V('C03', 'none-loop-identity-guard', SCRIPT, "        for i in range(len(txtmp.vin)):\n            if i != inIdx:\n                txtmp.vin[i].nSequence = 0\n\n    elif", "        for i in range(len(txtmp.vin)):\n            if i is not inIdx:\n                txtmp.vin[i].nSequence = 0\n\n    elif", 'C03.D1', scope='RawSignatureHash')
V('C06', 'nulldummy-compared-with-int', EVAL, "if stack[-1] != b'':", "if stack[-1] != 0:", 'C06.L1', scope='_CheckMultiSig')
V('C15', 'level-offset-assigned', CORE, "            j += size", "            j = size", 'C15.M2', scope='CBlock.build_merkle_tree_from_txids')
V('C02', 'witness-null-asks-last-entry', CORE, "if not self.vtxinwit[n].is_null(): return False", "if not self.vtxinwit[-1].is_null(): return False", 'C02.W1', scope='CTxWitness.is_null')
V('C20', 'full-filter-test-admits-empty', BLOOM, "        if len(self.vData) == 1 and self.vData[0] == 0xff:\n            return True", "        if len(self.vData) <= 1 and self.vData[0] == 0xff:\n            return True", 'C20.G1', scope='CBloomFilter.contains')

# ------------------------------------------------------------------------------------------------ one-line twins (round 10)
V('C01', 'benign-read-to-the-end-explicit', SER, '            padding = fd.read()', '            padding = fd.read(-1)', 'SILENT', scope='Serializable.deserialize')
V('C06', 'benign-tuck-negative-position', EVAL, 'stack.insert(len(stack) - 2, vch)', 'stack.insert(-2, vch)', 'SILENT', scope='_EvalScript')
V('C10', 'benign-version-byte-last-of-one', B58, 'return cls.from_bytes(data, verbyte[0])', 'return cls.from_bytes(data, verbyte[-1])', 'SILENT', scope='CBase58Data.__new__')
V('C13', 'benign-compression-flag-arms-exchanged', WALLET, "(b'\\x01' if compressed else b'')", "(b'' if not compressed else b'\\x01')", 'SILENT', scope='CBitcoinSecret.from_secret_bytes')
V('C19', 'benign-id-counter-minus-minus-one', RPC, '        self.__id_count += 1', '        self.__id_count -= -1', 'SILENT', scope='BaseProxy._call')
V('C11', 'benign-separator-search-from-zero', SEGWIT, "pos = bech.rfind('1')", "pos = bech.rfind('1', 0)", 'SILENT', scope='bech32_decode')
V('C03', 'benign-filler-default-restated', SCRIPT, 'txtmp.vout.append(bitcoin.core.CTxOut())', 'txtmp.vout.append(bitcoin.core.CTxOut(-1))', 'SILENT', scope='RawSignatureHash')
V('C16', 'benign-enumerate-from-zero', CORE, 'for index, out in enumerate(self.vtx[0].vout):', 'for index, out in enumerate(self.vtx[0].vout, 0):', 'SILENT', scope='CBlock.get_witness_commitment_index')
V('C17', 'benign-limb-format-repeat-count', SER, 'struct.unpack(b"<IIIIIIII", s[:32])', 'struct.unpack(b"<8I", s[:32])', 'SILENT', scope='uint256_from_str')
# ... and near misses
V('C06', 'tuck-position-one-below-top', EVAL, 'stack.insert(len(stack) - 2, vch)', 'stack.insert(-1, vch)', 'C06.S1', scope='_EvalScript')
V('C11', 'separator-search-from-one', SEGWIT, "pos = bech.rfind('1')", "pos = bech.find('1', 0)", 'C11.R1', scope='bech32_decode')
V('C03', 'filler-value-zero', SCRIPT, 'txtmp.vout.append(bitcoin.core.CTxOut())', 'txtmp.vout.append(bitcoin.core.CTxOut(0))', 'C03.D1', scope='RawSignatureHash')
V('C13', 'compression-flag-arms-exchanged-only', WALLET, "(b'\\x01' if compressed else b'')", "(b'' if compressed else b'\\x01')", 'C13.L1', scope='CBitcoinSecret.from_secret_bytes')
V('C16', 'enumerate-from-one', CORE, 'for index, out in enumerate(self.vtx[0].vout):', 'for index, out in enumerate(self.vtx[0].vout, 1):', 'UNDECIDED:C16.D1', scope='CBlock.get_witness_commitment_index')

# ------------------------------------------------------------------------------------------------ look-alike defects, second batch (round 11)
V('C19', 'blockhash-handler-catches-base-class', RPC, "        except InvalidParameterError as ex:\n            raise IndexError('%s.getblockhash(): %s (%d)' %", "        except JSONRPCError as ex:\n            raise IndexError('%s.getblockhash(): %s (%d)' %", 'C19.H1', scope='Proxy.getblockhash')
V('C03', 'hashtype-appended-unsigned', SCRIPT, 's += struct.pack(b"<i", hashtype)', 's += struct.pack(b"<I", hashtype)', 'C03.D1', scope='RawSignatureHash')
V('C03', 'none-loop-starts-at-one', SCRIPT, "        txtmp.vout = []\n\n        for i in range(len(txtmp.vin)):", "        txtmp.vout = []\n\n        for i in range(1, len(txtmp.vin)):", 'C03.D1', scope='RawSignatureHash')
