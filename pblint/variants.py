"""Self-test variant catalogue: one realistic single edit per rule instance (DESIGN.md Appendix B).

Each entry: prop, name, file, [scope], old, new, expect (rule id prefix that must report a violation).
`old` is looked up inside `scope` (a dotted def/class path) so that the edit is anchored to a construct, not a line.
"""
CORE = 'bitcoin/core/__init__.py'
SER = 'bitcoin/core/serialize.py'
SCRIPT = 'bitcoin/core/script.py'
EVAL = 'bitcoin/core/scripteval.py'
KEY = 'bitcoin/core/key.py'
WALLET = 'bitcoin/wallet.py'
MSG = 'bitcoin/messages.py'
NET = 'bitcoin/net.py'
RPC = 'bitcoin/rpc.py'
BLOOM = 'bitcoin/bloom.py'
B58 = 'bitcoin/base58.py'
B32 = 'bitcoin/bech32.py'
SEGWIT = 'bitcoin/segwit_addr.py'
SIGMSG = 'bitcoin/signmessage.py'
INIT = 'bitcoin/__init__.py'
RIPEMD = 'bitcoin/core/contrib/ripemd160.py'
BIGNUM = 'bitcoin/core/_bignum.py'

VARIANTS = []


def V(prop, name, file, old, new, expect, scope=None, nth=0):
    VARIANTS.append(dict(prop=prop, name=name, file=file, old=old, new=new, expect=expect, scope=scope, nth=nth))


# ------------------------------------------------------------------------------------------------ C01
V('C01', 'txin-reader-signed-sequence', CORE, 'nSequence = struct.unpack(b"<I"', 'nSequence = struct.unpack(b"<i"', 'C01.L', scope='CTxIn.stream_deserialize')
V('C01', 'header-writer-swaps-time-bits', CORE, 'f.write(struct.pack(b"<I", self.nTime))\n        f.write(struct.pack(b"<I", self.nBits))',
  'f.write(struct.pack(b"<I", self.nBits))\n        f.write(struct.pack(b"<I", self.nTime))', 'C01.L', scope='CBlockHeader.stream_serialize')
V('C01', 'txout-reader-raw-read', CORE, 'struct.unpack(b"<q", ser_read(f,8))[0]', 'struct.unpack(b"<q", f.read(8))[0]', 'C01.E1', scope='CTxOut.stream_deserialize')
V('C01', 'compactsize-writer-boundary', SER, 'elif i <= 0xffff:', 'elif i < 0xffff:', 'C01.T1', scope='VarIntSerializer.stream_serialize')
V('C01', 'compactsize-reader-prefix', SER, 'elif r == 0xfe:', 'elif r == 0xff:', 'C01.T1', scope='VarIntSerializer.stream_deserialize')
V('C01', 'compactsize-reader-width', SER, "struct.unpack(b'<H', ser_read(f, 2))", "struct.unpack(b'>H', ser_read(f, 2))", 'C01.T1', scope='VarIntSerializer.stream_deserialize')
V('C01', 'marker-guard-default-compare', CORE, 'if include_witness and not self.wit.is_null():', 'if include_witness and self.wit != CTxWitness():', 'C01.L3', scope='CTransaction.stream_serialize')
V('C01', 'marker-guard-len', CORE, 'if include_witness and not self.wit.is_null():', 'if include_witness and len(self.wit.vtxinwit) > 0:', 'C01.L3', scope='CTransaction.stream_serialize')
V('C01', 'reader-drops-rewind', CORE, 'f.seek(pos) # put marker byte back, since we don\'t have peek', 'pass', 'C01.L', scope='CTransaction.stream_deserialize')
V('C01', 'reader-flag-value', CORE, 'if markerbyte == 0 and flagbyte == 1:', 'if markerbyte == 0 and flagbyte == 2:', 'C01.L', scope='CTransaction.stream_deserialize')
V('C01', 'scriptwitness-null-means-one', SCRIPT, 'return len(self.stack) == 0', 'return len(self.stack) <= 1', 'C01.L3', scope='CScriptWitness.is_null')
V('C01', 'outpoint-reader-short-hash', CORE, 'hash = ser_read(f,32)', 'hash = ser_read(f,31)', 'C01.L', scope='COutPoint.stream_deserialize')
V('C01', 'locktime-writer-signed', CORE, 'f.write(struct.pack(b"<I", self.nLockTime))', 'f.write(struct.pack(b"<i", self.nLockTime))', ['C01.L', 'C01.R1'], scope='CTransaction.stream_serialize')
V('C01', 'value-writer-32bit', CORE, 'f.write(struct.pack(b"<q", self.nValue))', 'f.write(struct.pack(b"<i", self.nValue))', ['C01.L', 'C01.R1'], scope='CTxOut.stream_serialize')
V('C01', 'read-size-mismatch', CORE, 'nBits = struct.unpack(b"<I", ser_read(f,4))[0]', 'nBits = struct.unpack(b"<I", ser_read(f,8))[0]', ['C01.E1', 'C01.L'], scope='CBlockHeader.stream_deserialize')
V('C01', 'ser_read-drops-truncation-guard', SER, '    if len(r) < n:\n        raise SerializationTruncationError', '    if False:\n        raise SerializationTruncationError', 'C01.E1', scope='ser_read')
V('C01', 'ser_read-wrong-truncation-class', SER, 'raise SerializationTruncationError(', 'raise SerializationError(', 'C01.E1', scope='ser_read')
V('C01', 'deserialize-skips-padding-check', SER, 'if not allow_padding:', 'if allow_padding:', 'C01.E3', scope='Serializable.deserialize')
V('C01', 'extra-data-args-swapped', SER, "r, padding)", "padding, r)", 'C01.E3', scope='Serializable.deserialize')
V('C01', 'block-vector-of-headers', CORE, 'vtx = VectorSerializer.stream_deserialize(CTransaction, f)', 'vtx = VectorSerializer.stream_deserialize(CTxIn, f)', 'C01.L', scope='CBlock.stream_deserialize')
V('C01', 'witness-written-before-outputs', CORE, '            VectorSerializer.stream_serialize(CTxOut, self.vout, f)\n            self.wit.stream_serialize(f)',
  '            self.wit.stream_serialize(f)\n            VectorSerializer.stream_serialize(CTxOut, self.vout, f)', 'C01.L', scope='CTransaction.stream_serialize')
V('C01', 'bytes-serializer-no-length', SER, 'VarIntSerializer.stream_serialize(len(b), f)\n        f.write(b)', 'f.write(b)', 'C01.L', scope='BytesSerializer.stream_serialize')
