"""Call resolution through the program model (DESIGN.md section 2): exact receiver class / C3 MRO, closures,
class-valued arguments, the field-class map.  Name-based resolution is used only for method names whose definitions
all lie in one inheritance family.
"""
import ast
import builtins

from .model import (UNKNOWN, ClassRef, FuncRef, ModuleRef, ExternalRef, Instance, ClassInfo, FunctionInfo, norm,
                    walk_no_nested)

# method names defined by many unrelated classes: never resolved by name
AMBIGUOUS = {'__init__', '__new__', 'serialize', 'deserialize', 'stream_serialize', 'stream_deserialize', 'from_bytes',
             'to_bytes', '__repr__', '__str__', '__len__', '__iter__', '__hash__', '__eq__', '__ne__', 'GetHash',
             'msg_ser', 'msg_deser', 'from_scriptPubKey', 'to_scriptPubKey', 'to_redeemScript', 'is_null', 'is_valid',
             'verify', 'sign', 'is_compressed', 'join', '__add__', '__setattr__', '__delattr__', '__getattr__',
             'close', '__del__', 'call', 'sign_compact'}

RETURNS_INSTANCE = ('from_', 'deserialize', 'stream_deserialize')
BUILTIN_METHODS = set(dir(list)) | set(dir(dict)) | set(dir(set)) | set(dir(bytes)) | set(dir(str)) | set(dir(int)) | set(dir(bytearray))


class Target(object):
    __slots__ = ('fi', 'ctx', 'how', 'bound')

    def __init__(self, fi, ctx=None, how='', bound=None):
        self.fi = fi
        self.ctx = ctx  # receiver class context for self./cls. lookups inside the callee
        self.how = how
        if bound is None:
            if how in ('init', 'new', 'super'):
                bound = fi.kind != 'staticmethod'
            elif how in ('function', 'closure'):
                bound = fi.kind == 'classmethod'
            elif how == 'unbound':
                bound = fi.kind == 'classmethod'
            else:
                bound = fi.kind in ('method', 'classmethod', 'property')
        self.bound = bound  # is the first parameter implicitly bound (self / cls)?

    def __repr__(self):
        return 'Target(%s ctx=%s)' % (self.fi.qualname, self.ctx.name if self.ctx else None)


class Resolver(object):
    def __init__(self, repo, layout_engine=None):
        self.repo = repo
        self.eng = layout_engine
        self.by_name = {}
        for c in repo.classes.values():
            for n, f in c.methods.items():
                self.by_name.setdefault(n, []).append(f)
        self._ltypes = {}
        self.unresolved = []

    # ------------------------------------------------------------------ local types
    def local_types(self, fi, ctx):
        key = (fi.qualname, ctx.qualname if ctx else None)
        if key in self._ltypes:
            return self._ltypes[key]
        lt = {}
        self._ltypes[key] = lt
        if fi.cls is not None and fi.params:
            if fi.kind == 'method':
                lt[fi.params[0]] = ('inst', ctx or fi.cls)
            elif fi.kind == 'classmethod':
                lt[fi.params[0]] = ('cls', ctx or fi.cls)
        for p, d in fi.defaults().items():
            t = self.expr_type(d, fi, ctx, lt)
            if t is not None:
                lt.setdefault(p, t)
        for p in fi.params:
            q = PARAM_TYPES.get(p)
            if q and p not in lt and q in self.repo.classes:
                lt[p] = ('inst', self.repo.classes[q])
        for st in walk_no_nested(fi.node):
            if isinstance(st, ast.Assign) and len(st.targets) == 1 and isinstance(st.targets[0], ast.Name):
                t = self.expr_type(st.value, fi, ctx, lt)
                nm = st.targets[0].id
                if t is not None and nm not in lt:
                    lt[nm] = t
            elif isinstance(st, (ast.For, ast.comprehension)) and isinstance(st.target, ast.Name) and self.eng is not None:
                it = st.iter
                if isinstance(it, ast.Call) and norm(it.func) in ('reversed', 'iter', 'list', 'tuple') and it.args:
                    it = it.args[0]
                if isinstance(it, ast.Subscript):
                    it = it.value
                if isinstance(it, ast.Attribute):
                    bt = self.expr_type(it.value, fi, ctx, lt)
                    if bt and bt[0] == 'inst':
                        c = self.eng.field_elem_class(bt[1], it.attr)
                        if c is not None and st.target.id not in lt:
                            lt[st.target.id] = ('inst', c)
        return lt

    def expr_type(self, e, fi, ctx, lt):
        """-> ('inst', ClassInfo) | ('cls', ClassInfo) | None"""
        if isinstance(e, ast.Name):
            if e.id in lt:
                return lt[e.id]
            v = self.repo.fold(e, fi.module, cls=fi.cls)
            if isinstance(v, ClassRef):
                return ('cls', v.info)
            if isinstance(v, Instance):
                return ('inst', v.cls)
            return None
        if isinstance(e, ast.Call):
            f = e.func
            if isinstance(f, ast.Name):
                t = lt.get(f.id)
                if t and t[0] == 'cls':
                    return ('inst', t[1])
            v = self.repo.fold(f, fi.module, cls=fi.cls)
            if isinstance(v, ClassRef):
                return ('inst', v.info)
            if isinstance(f, ast.Attribute):
                bt = self.expr_type(f.value, fi, ctx, lt)
                if bt and bt[0] == 'cls' and f.attr.startswith(RETURNS_INSTANCE):
                    return ('inst', bt[1])
                if isinstance(f.value, ast.Call) and norm(f.value.func) == 'super' and f.attr.startswith(RETURNS_INSTANCE) and ctx is not None:
                    return ('inst', ctx)
            return None
        if isinstance(e, ast.Attribute):
            v = self.repo.fold(e, fi.module, cls=fi.cls)
            if isinstance(v, ClassRef):
                return ('cls', v.info)
            if isinstance(v, Instance):
                return ('inst', v.cls)
            bt = self.expr_type(e.value, fi, ctx, lt)
            if bt and bt[0] == 'inst' and self.eng is not None:
                c = self.eng.field_class(bt[1], e.attr)
                if c is not None:
                    return ('inst', c)
            return None
        if isinstance(e, ast.Subscript):
            if isinstance(e.value, ast.Attribute) and self.eng is not None:
                bt = self.expr_type(e.value.value, fi, ctx, lt)
                if bt and bt[0] == 'inst':
                    c = self.eng.field_elem_class(bt[1], e.value.attr)
                    if c is not None:
                        return ('inst', c)
            return None
        return None

    # ------------------------------------------------------------------ calls
    def constructor(self, ci):
        out = []
        new = self.repo.lookup_method(ci, '__new__')
        if new is not None:
            out.append(Target(new, ci, 'new'))
        init = self.repo.lookup_method(ci, '__init__')
        if init is not None:
            out.append(Target(init, ci, 'init'))
        return out

    def resolve(self, call, fi, ctx=None, class_args=None):
        """-> list of Target (possibly empty = external / builtin), or None if unknown.
        class_args: parameter name -> ClassInfo for class-valued parameters of fi (inner_cls, err_raiser's cls)"""
        repo = self.repo
        ctx = ctx or fi.cls
        f = call.func
        lt = self.local_types(fi, ctx)
        if isinstance(f, ast.Name):
            # closures
            cur = fi
            while cur is not None:
                if f.id in cur.nested:
                    return [Target(cur.nested[f.id], ctx, 'closure')]
                cur = cur.parent
            if class_args and f.id in class_args:
                if isinstance(class_args[f.id], FunctionInfo):
                    return [Target(class_args[f.id], ctx, 'closure')]
                return self.constructor(class_args[f.id])
            t = lt.get(f.id)
            if t and t[0] == 'cls':
                return self.constructor(t[1])
            v = repo.fold(f, fi.module, cls=fi.cls)
            if isinstance(v, FuncRef):
                return [Target(v.info, None, 'function')]
            if isinstance(v, ClassRef):
                return self.constructor(v.info)
            if isinstance(v, ExternalRef) or hasattr(builtins, f.id):
                return []
            if f.id in fi.params:
                return None
            return []
        if isinstance(f, ast.Attribute):
            meth = f.attr
            recv = f.value
            # super(...)
            if isinstance(recv, ast.Call) and norm(recv.func) == 'super':
                after = fi.cls
                if recv.args:
                    v = repo.fold(recv.args[0], fi.module, cls=fi.cls)
                    if isinstance(v, ClassRef):
                        after = v.info
                base = ctx if (ctx is not None and after is not None and repo.is_subclass(ctx, after)) else fi.cls
                if base is None:
                    return None
                tgt = repo.lookup_method(base, meth, after=after)
                if tgt is None:
                    return []  # object / builtin base
                return [Target(tgt, base, 'super')]
            if class_args and isinstance(recv, ast.Name) and recv.id in class_args and isinstance(class_args[recv.id], ClassInfo):
                tgt = repo.lookup_method(class_args[recv.id], meth)
                return [Target(tgt, class_args[recv.id], 'unbound')] if tgt else []
            t = self.expr_type(recv, fi, ctx, lt)
            if t is not None:
                kind, ci = t
                if meth == '__init__' and kind == 'cls':
                    tgt = repo.lookup_method(ci, '__init__')
                    return [Target(tgt, ci, 'init')] if tgt else []
                tgt = repo.lookup_method(ci, meth)
                if tgt is not None:
                    return [Target(tgt, ci, 'unbound' if kind == 'cls' else 'method')]
                # attribute holding a class / function?
                v = repo.class_attr_value(ci, meth)
                if isinstance(v, FuncRef):
                    return [Target(v.info, ci, 'attr')]
                return []
            v = repo.fold(f, fi.module, cls=fi.cls)
            if isinstance(v, FuncRef):
                return [Target(v.info, v.info.cls, 'unbound' if v.info.cls is not None else 'function')]
            if isinstance(v, ClassRef):
                return self.constructor(v.info)
            if isinstance(v, ExternalRef):
                return []
            bv = repo.fold(recv, fi.module, cls=fi.cls)
            if isinstance(bv, (ExternalRef, ModuleRef)):
                return []
            if isinstance(bv, (bytes, str, int, tuple, list, dict, set, frozenset)):
                return []
            # by-name fallback for method names with a single inheritance family
            defs = self.by_name.get(meth)
            if not defs:
                return []
            if meth in BUILTIN_METHODS:
                return []  # list/dict/set/bytes/str/int method on a receiver of unknown type
            if meth in AMBIGUOUS:
                return None
            fam = self._family(defs)
            if fam is not None:
                return [Target(d, d.cls, 'by-name') for d in defs]
            return None
        if isinstance(f, ast.Call):
            return None
        return None

    def _family(self, defs):
        """all defining classes related by inheritance to one root that also defines the method"""
        classes = [d.cls for d in defs]
        for root in classes:
            if all(self.repo.is_subclass(c, root) for c in classes):
                return root
        return None


def root_name(e):
    """root Name of an attribute/subscript chain, else None"""
    cur = e
    while isinstance(cur, (ast.Attribute, ast.Subscript)):
        cur = cur.value
    if isinstance(cur, ast.Name):
        return cur.id
    return None


# parameter-name conventions of the public API (documented in the docstrings): used only as a fallback type for
# receivers that are bare parameters; listed in evidence as an assumption
PARAM_TYPES = {
    'txTo': 'bitcoin.core.CTransaction', 'tx': 'bitcoin.core.CTransaction', 'txFrom': 'bitcoin.core.CTransaction',
    'block': 'bitcoin.core.CBlock', 'block_header': 'bitcoin.core.CBlockHeader',
    'scriptSig': 'bitcoin.core.script.CScript', 'scriptPubKey': 'bitcoin.core.script.CScript',
    'scriptIn': 'bitcoin.core.script.CScript', 'script': 'bitcoin.core.script.CScript',
    'redeemScript': 'bitcoin.core.script.CScript',
    'txin': 'bitcoin.core.CTxIn', 'txout': 'bitcoin.core.CTxOut', 'outpoint': 'bitcoin.core.COutPoint',
    'txwitness': 'bitcoin.core.CTxWitness', 'txinwitness': 'bitcoin.core.CTxInWitness',
}


def bind_args(call, target):
    """parameter name -> argument expression for a resolved call"""
    ps = target.fi.params
    off = 1 if target.bound else 0
    out = {}
    for i, a in enumerate(call.args):
        if isinstance(a, ast.Starred):
            continue
        if i + off < len(ps):
            out[ps[i + off]] = a
    for kw in call.keywords:
        if kw.arg is not None:
            out[kw.arg] = kw.value
    return out
