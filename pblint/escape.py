"""ESCAPE engine (stub - filled in below)."""


def rule_C01_E2(ctx, repo):
    pass
