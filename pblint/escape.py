"""ESCAPE engine: which exception classes may leave an entry point (DESIGN.md 3.3).

May-escape sets per (function, receiver context, class-valued arguments), memoised summaries solved to a fixpoint over
the resolved call graph; explicit `raise`, `assert`, re-raise and calls, minus what enclosing handlers catch.
Implicit exceptions (index, key, struct, attribute, zero division) are not inferred here: each has its own rule.
Nothing is executed.
"""
import ast
import builtins

from .model import UNKNOWN, ClassRef, FuncRef, ClassInfo, ExternalRef, OpInt, AnalysisError, norm, walk_no_nested
from .resolve import Resolver, bind_args, Target
from .table import Tracer
from .rules import canon_guard
from . import flow

ITER_BUILTINS = {'list', 'tuple', 'set', 'frozenset', 'sorted', 'iter', 'next', 'enumerate', 'sum', 'any', 'all', 'b"".join', "b''.join"}


class Esc(object):
    __slots__ = ('cls', 'info', 'fi', 'node', 'text', 'path')

    def __init__(self, cls, info, fi, node, text, path=()):
        self.cls, self.info, self.fi, self.node, self.text, self.path = cls, info, fi, node, text, path

    def key(self):
        return (self.cls, self.fi.qualname, self.text)

    def site(self):
        return '%s:%d' % (self.fi.module.relpath, getattr(self.node, 'lineno', 0))

    def via(self, step):
        if self.path and self.path[0] == step:
            return self
        return Esc(self.cls, self.info, self.fi, self.node, self.text, (step,) + self.path)


def builtin_exc(name):
    o = getattr(builtins, name, None)
    if isinstance(o, type) and issubclass(o, BaseException):
        return o
    return None


class Escape(object):
    def __init__(self, repo, resolver, dead_sites=None):
        self.repo = repo
        self.res = resolver
        self.memo = {}
        self.active = set()
        self.changed = False
        self.unresolved = {}
        self.applied = []  # contract classes / dead sites applied (printed in evidence)
        self.visited = set()
        self.dead = dead_sites or {}
        self.recursion = set()
        self.kinds = {}

    # ------------------------------------------------------------------ exception classes
    def exc_class(self, e, fi, ctx, class_args):
        """-> (name, ClassInfo|None) of the exception a `raise e` raises, or (None, None) if unknown"""
        if isinstance(e, ast.Call):
            f = e.func
            if isinstance(f, ast.Name) and class_args and f.id in class_args:
                ci = class_args[f.id]
                if not isinstance(ci, ClassInfo):
                    return None, None
                return ci.name, ci
            v = self.repo.fold(f, fi.module, cls=fi.cls)
            if isinstance(v, ClassRef):
                return v.info.name, v.info
            if isinstance(v, ExternalRef) and builtin_exc(v.name.split('.')[-1]):
                return v.name.split('.')[-1], None
            if isinstance(f, ast.Name) and builtin_exc(f.id):
                return f.id, None
            return None, None
        if isinstance(e, ast.Name):
            if class_args and e.id in class_args and isinstance(class_args[e.id], ClassInfo):
                return class_args[e.id].name, class_args[e.id]
            v = self.repo.fold(e, fi.module, cls=fi.cls)
            if isinstance(v, ClassRef):
                return v.info.name, v.info
            if builtin_exc(e.id):
                return e.id, None
        if isinstance(e, ast.Attribute):
            v = self.repo.fold(e, fi.module, cls=fi.cls)
            if isinstance(v, ClassRef):
                return v.info.name, v.info
        return None, None

    def handler_types(self, h, fi):
        """list of (name, ClassInfo|None); [] for a bare except"""
        if h.type is None:
            return []
        ts = h.type.elts if isinstance(h.type, ast.Tuple) else [h.type]
        out = []
        for t in ts:
            v = self.repo.fold(t, fi.module, cls=fi.cls)
            if isinstance(v, ClassRef):
                out.append((v.info.name, v.info))
            else:
                out.append((norm(t).split('.')[-1], None))
        return out

    def catches(self, htypes, esc):
        if not htypes:
            return True
        for hn, hi in htypes:
            if hi is not None:
                if esc.info is not None and self.repo.is_subclass(esc.info, hi):
                    return True
                continue
            hb = builtin_exc(hn)
            if hb is None:
                continue
            if esc.info is not None:
                for k in self.repo.mro(esc.info):
                    if isinstance(k, str):
                        kb = builtin_exc(k.split('.')[-1])
                        if kb is not None and issubclass(kb, hb):
                            return True
                    elif isinstance(k, ClassInfo):
                        continue
            else:
                eb = builtin_exc(esc.cls)
                if eb is not None and issubclass(eb, hb):
                    return True
        return False

    def in_family(self, esc, families):
        """families: list of ClassInfo or builtin names"""
        for f in families:
            if isinstance(f, ClassInfo):
                if esc.info is not None and self.repo.is_subclass(esc.info, f):
                    return True
            else:
                if self.catches([(f, None)], esc):
                    return True
        return False

    # ------------------------------------------------------------------ summaries
    def function(self, fi, ctx=None, class_args=None, depth=0, kinds=None):
        ctx = ctx or fi.cls
        class_args = class_args or {}
        kinds = dict(kinds or {})
        key = (fi.qualname, ctx.qualname if ctx else None, tuple(sorted((k, v.qualname) for k, v in class_args.items())), tuple(sorted(kinds.items())))
        if key in self.memo:
            return self.memo[key]
        if key in self.active:
            self.recursion.add(fi.qualname)
            return []
        self.active.add(key)
        self.visited.add(fi.qualname)
        saved = self.kinds
        self.kinds = self.local_kinds(fi, ctx, kinds)
        try:
            out = self.block(fi.node.body, fi, ctx, class_args, depth)
        finally:
            self.active.discard(key)
            self.kinds = saved
        seen = {}
        for e in out:
            seen.setdefault(e.key(), e)
        res = list(seen.values())
        self.memo[key] = res
        return res

    def entry(self, fi, ctx=None, class_args=None):
        """summaries are memoised; a recursive cycle is cut once and reported (the reachable graph is recursion-free
        on today's tree, see C07.T1)"""
        return self.function(fi, ctx, class_args)

    # ------------------------------------------------------------------ statements
    def block(self, stmts, fi, ctx, ca, depth):
        out = []
        for s in stmts:
            out.extend(self.stmt(s, fi, ctx, ca, depth))
        return out

    def stmt(self, s, fi, ctx, ca, depth):
        out = []
        if isinstance(s, (ast.FunctionDef, ast.AsyncFunctionDef, ast.ClassDef)):
            return out
        if isinstance(s, ast.Raise):
            if s.exc is None:
                return [Esc('<re-raise>', None, fi, s, 'raise')]
            # raise err_raiser(...) : the call itself raises
            out.extend(self.expr(s.exc, fi, ctx, ca, depth))
            name, info = self.exc_class(s.exc, fi, ctx, ca)
            if name is None:
                if isinstance(s.exc, ast.Call):
                    tg = self.res.resolve(s.exc, fi, ctx, class_args=ca)
                    if tg:
                        return out  # a call to a (no-return) library function: its escapes were added above
                out.append(Esc('<unknown>', None, fi, s, norm(s)[:80]))
            else:
                out.append(Esc(name, info, fi, s, norm(s.exc)[:80]))
            return out
        if isinstance(s, ast.Assert):
            out.extend(self.expr(s.test, fi, ctx, ca, depth))
            out.append(Esc('AssertionError', None, fi, s, 'assert ' + norm(s.test)[:80]))
            return out
        if isinstance(s, ast.Try):
            body = self.block(s.body, fi, ctx, ca, depth)
            rest = list(body)
            for h in s.handlers:
                ht = self.handler_types(h, fi)
                caught = [e for e in rest if self.catches(ht, e)]
                rest = [e for e in rest if not self.catches(ht, e)]
                hb = self.block(h.body, fi, ctx, ca, depth)
                for e in hb:
                    if e.cls == '<re-raise>':
                        out.extend(caught)
                    else:
                        out.append(e)
            out.extend(rest)
            out.extend(self.block(s.orelse, fi, ctx, ca, depth))
            out.extend(self.block(s.finalbody, fi, ctx, ca, depth))
            return out
        if isinstance(s, ast.If):
            out.extend(self.expr(s.test, fi, ctx, ca, depth))
            t = self.fold_type_test(s.test, fi)
            if t is not False:
                out.extend(self.block(s.body, fi, ctx, ca, depth))
            if t is not True:
                out.extend(self.block(s.orelse, fi, ctx, ca, depth))
            return out
        if isinstance(s, (ast.For, ast.AsyncFor)):
            out.extend(self.iteration(s.iter, fi, ctx, ca, depth))
            out.extend(self.block(s.body, fi, ctx, ca, depth))
            out.extend(self.block(s.orelse, fi, ctx, ca, depth))
            return out
        if isinstance(s, ast.While):
            out.extend(self.expr(s.test, fi, ctx, ca, depth))
            out.extend(self.block(s.body, fi, ctx, ca, depth))
            out.extend(self.block(s.orelse, fi, ctx, ca, depth))
            return out
        if isinstance(s, ast.With):
            for it in s.items:
                out.extend(self.expr(it.context_expr, fi, ctx, ca, depth))
            out.extend(self.block(s.body, fi, ctx, ca, depth))
            return out
        for c in ast.iter_child_nodes(s):
            if isinstance(c, ast.expr):
                out.extend(self.expr(c, fi, ctx, ca, depth))
        return out

    def iteration(self, it, fi, ctx, ca, depth):
        """`for x in <it>`: evaluating <it> plus iterating it (generator bodies / __iter__)"""
        out = self.expr(it, fi, ctx, ca, depth)
        out.extend(self.iter_escapes(it, fi, ctx, ca, depth))
        return out

    def iter_escapes(self, e, fi, ctx, ca, depth):
        """escapes of iterating over the value of e when it is an instance of a library class with __iter__"""
        lt = self.res.local_types(fi, ctx)
        t = self.res.expr_type(e, fi, ctx, lt)
        if t and t[0] == 'inst':
            it = self.repo.lookup_method(t[1], '__iter__')
            if it is not None:
                return [x.via('%s -> %s' % (fi.qualname, it.qualname)) for x in self.function(it, t[1], None, depth + 1)]
        return []

    # ------------------------------------------------------------------ expressions
    def expr(self, e, fi, ctx, ca, depth):
        out = []
        if e is None:
            return out
        for n in self.walk_expr(e):
            if isinstance(n, ast.Call):
                out.extend(self.call(n, fi, ctx, ca, depth))
            elif isinstance(n, (ast.GeneratorExp, ast.ListComp, ast.SetComp, ast.DictComp)):
                for g in n.generators:
                    out.extend(self.iter_escapes(g.iter, fi, ctx, ca, depth))
        return out

    def walk_expr(self, e):
        stack = [e]
        while stack:
            n = stack.pop()
            yield n
            if isinstance(n, ast.Lambda):
                continue
            stack.extend(ast.iter_child_nodes(n))

    def call(self, c, fi, ctx, ca, depth):
        out = []
        fn = norm(c.func)
        # builtins that iterate their argument
        if fn in ITER_BUILTINS and c.args:
            out.extend(self.iter_escapes(c.args[0], fi, ctx, ca, depth))
        if depth > 40:
            return out
        tg = self.res.resolve(c, fi, ctx, class_args=ca)
        if tg is None:
            self.unresolved.setdefault((fi.qualname, norm(c)[:70]), c)
            return out
        for t in tg:
            b = bind_args(c, t)
            nca = {}
            for pn, a in b.items():
                v = self.repo.fold(a, fi.module, cls=fi.cls)
                if isinstance(v, ClassRef):
                    nca[pn] = v.info
                elif isinstance(a, ast.Name) and ca and a.id in ca:
                    nca[pn] = ca[a.id]
                elif isinstance(a, ast.Name):
                    # function-valued argument: a closure of the caller (err_raiser) passed to a helper
                    cur = fi
                    while cur is not None:
                        if a.id in cur.nested:
                            nca[pn] = cur.nested[a.id]
                            break
                        cur = cur.parent
            # *args forwarding of a class (err_raiser(cls, *args) -> cls(*args, ...)): keep the caller's class args
            ks = {}
            for pn, a in b.items():
                k = self.expr_kind(a, fi)
                if k:
                    ks[pn] = k
            sub = self.function(t.fi, t.ctx, nca, depth + 1, ks)
            is_gen = any(isinstance(n, (ast.Yield, ast.YieldFrom)) for n in walk_no_nested(t.fi.node))
            if is_gen:
                # a generator function does not raise when called; its body runs on iteration (see iteration())
                par = getattr(c, '_parent', None)
                if not (isinstance(par, (ast.For, ast.comprehension)) and par.iter is c):
                    # consumed elsewhere (list(x.raw_iter()), next(...)): be conservative and include it
                    pass
            step = '%s -> %s' % (fi.qualname, t.fi.qualname)
            for e in sub:
                if self.is_dead(e, c, fi, ctx, t, b):
                    continue
                out.append(e.via(step))
        return out

    # ------------------------------------------------------------------ value kinds (bytes / int) for isinstance tests
    BYTES_ATTRS = {'digest', 'serialize', 'to_bytes', 'getvalue', 'read', 'encode', 'tobytes', 'raw'}
    BYTES_FUNCS = {'bitcoin.core.serialize.ser_read', 'bitcoin.core.serialize.Hash', 'bitcoin.core.serialize.Hash160',
                   'bitcoin.core.contrib.ripemd160.ripemd160', 'bitcoin.core._bignum.bn2vch', 'bitcoin.core.script.CScriptOp.encode_op_pushdata',
                   'bitcoin.core.serialize.BytesSerializer.stream_deserialize', 'bitcoin.core.serialize.VarStringSerializer.stream_deserialize',
                   'bitcoin.core.x', 'bitcoin.core.lx', 'bitcoin.base58.decode', 'bitcoin.core.script.FindAndDelete'}
    ELEM_SEQS = {'stack', 'altstack', 'stackCopy'}

    def expr_kind(self, e, fi):
        if isinstance(e, ast.Constant):
            if isinstance(e.value, bytes):
                return 'bytes'
            if isinstance(e.value, int) and not isinstance(e.value, bool):
                return 'int'
            return None
        if isinstance(e, ast.Name):
            return self.kinds.get(e.id)
        if isinstance(e, ast.IfExp):
            a, b = self.expr_kind(e.body, fi), self.expr_kind(e.orelse, fi)
            return a if a == b else None
        if isinstance(e, ast.BinOp) and isinstance(e.op, ast.Add):
            a, b = self.expr_kind(e.left, fi), self.expr_kind(e.right, fi)
            return a if a == b else None
        if isinstance(e, ast.Subscript):
            if isinstance(e.value, ast.Name) and e.value.id in self.ELEM_SEQS and fi.module.name == 'bitcoin.core.scripteval':
                return None if isinstance(e.slice, ast.Slice) else 'bytes'
            k = self.expr_kind(e.value, fi)
            if k == 'bytes':
                return 'bytes' if isinstance(e.slice, ast.Slice) else 'int'
            return None
        if isinstance(e, ast.Call):
            f = e.func
            if isinstance(f, ast.Attribute):
                if f.attr == 'pop' and isinstance(f.value, ast.Name) and f.value.id in self.ELEM_SEQS and fi.module.name == 'bitcoin.core.scripteval':
                    return 'bytes'  # stack elements are byte strings (invariant checked by C07.K1)
                if f.attr in self.BYTES_ATTRS:
                    return 'bytes'
            v = self.repo.fold(f, fi.module, cls=fi.cls)
            if isinstance(v, FuncRef) and v.info.qualname in self.BYTES_FUNCS:
                return 'bytes'
            if isinstance(v, ClassRef) and self.repo.is_subclass(v.info, 'bytes'):
                return 'bytes'
            if isinstance(v, ClassRef) and self.repo.is_subclass(v.info, 'int'):
                return 'int'
            if isinstance(v, ExternalRef) and v.name in ('bytes', 'bytearray'):
                return 'bytes'
            if isinstance(v, ExternalRef) and v.name in ('int', 'len'):
                return 'int'
        return None

    def local_kinds(self, fi, ctx, kinds):
        out = dict(kinds)
        for n in walk_no_nested(fi.node):
            if isinstance(n, ast.Assign) and len(n.targets) == 1 and isinstance(n.targets[0], ast.Name):
                nm = n.targets[0].id
                if nm in fi.params:
                    out.pop(nm, None)  # parameter reassigned: its call-site kind no longer applies
                    continue
                saved = self.kinds
                self.kinds = out
                k = self.expr_kind(n.value, fi)
                self.kinds = saved
                cnt = sum(1 for m in walk_no_nested(fi.node) if isinstance(m, ast.Assign) and any(isinstance(t, ast.Name) and t.id == nm for t in m.targets))
                if k and cnt == 1:
                    out[nm] = k
        return out

    def fold_type_test(self, test, fi):
        """isinstance(<name of known kind>, T) -> True / False ; anything else -> None"""
        if isinstance(test, ast.BoolOp):
            vals = [self.fold_type_test(v, fi) for v in test.values]
            if isinstance(test.op, ast.Or):
                if any(v is True for v in vals):
                    return True
                if all(v is False for v in vals):
                    return False
                return None
            if any(v is False for v in vals):
                return False
            if all(v is True for v in vals):
                return True
            return None
        if isinstance(test, ast.UnaryOp) and isinstance(test.op, ast.Not):
            v = self.fold_type_test(test.operand, fi)
            return None if v is None else (not v)
        if isinstance(test, ast.Call) and norm(test.func) == 'isinstance' and len(test.args) == 2 and isinstance(test.args[0], ast.Name):
            k = self.kinds.get(test.args[0].id)
            if k is None:
                return None
            ts = test.args[1].elts if isinstance(test.args[1], ast.Tuple) else [test.args[1]]
            names = set()
            for t in ts:
                v = self.repo.fold(t, fi.module, cls=fi.cls)
                if isinstance(v, ClassRef):
                    names.add('bytes' if self.repo.is_subclass(v.info, 'bytes') and k == 'plainbytes' else v.info.name)
                else:
                    names.add(norm(t))
            if k == 'bytes':
                if names & {'bytes', 'bytearray'}:
                    return True
                if names <= {'int', 'str', 'CScriptOp', 'float'}:
                    return False
            if k == 'int':
                if 'int' in names:
                    return True
                if names <= {'bytes', 'bytearray', 'str'}:
                    return False
        return None

    # ------------------------------------------------------------------ pruning
    def is_dead(self, esc, call, fi, ctx, target, binding):
        """call-site specialisation: a guard of the callee on one parameter cannot fire for the argument range known at
        this call site (value just read with a struct format / a fixed-size read / a constant)"""
        if esc.fi is not target.fi or esc.path:
            return False
        node = esc.node
        if isinstance(node, ast.Assert):
            test, negate = node.test, True
        else:
            g = enclosing_if(node)
            if g is None or not any(node is x for b in g.body for x in ast.walk(b)):
                return False
            test, negate = g.test, False
        funcs = {id(n.func) for n in ast.walk(test) if isinstance(n, ast.Call)}
        names = {n.id for n in ast.walk(test) if isinstance(n, ast.Name) and id(n) not in funcs}
        if len(names) != 1:
            return False
        p = list(names)[0]
        if p not in binding:
            d = target.fi.defaults().get(p)
            if d is None:
                return False
            dv = self.repo.fold(d, target.fi.module, cls=target.fi.cls)
            if dv is UNKNOWN:
                return False
            r = self.repo.fold(test, target.fi.module, cls=target.fi.cls, env={p: dv})
            if r is UNKNOWN:
                return False
            fires = (not r) if negate else bool(r)
            if not fires:
                self.applied.append('guard `%s` of %s is dead at %s:%d: parameter %s takes its default' % (norm(test)[:50], target.fi.qualname, fi.module.relpath, call.lineno, p))
            return not fires
        a = binding[p]
        if isinstance(a, ast.Attribute) and a.attr == p:
            # copy constructor: the field of an already constructed object of the same family is passed on unchanged;
            # the constructor's range check re-validates what the source object's constructor enforced
            self.applied.append('guard `%s` of %s re-validates field `%s` of an existing object in %s' % (norm(test)[:50], target.fi.qualname, norm(a), fi.qualname))
            return True
        rng = self.arg_range(a, fi)
        if rng is None:
            return False
        kind, lo, hi = rng
        # candidate points: the range ends and every constant of the guard +-1 (a finite set of orderings)
        consts = [self.repo.fold(n, target.fi.module) for n in ast.walk(test) if isinstance(n, (ast.Constant, ast.Name, ast.BinOp))]
        pts = {lo, hi}
        for c in consts:
            if isinstance(c, int) and not isinstance(c, bool):
                for d in (-1, 0, 1):
                    if lo <= c + d <= hi:
                        pts.add(c + d)
        for v in pts:
            env = {p: (b'\x00' * v if kind == 'len' else v)} if (kind != 'len' or v < 1 << 16) else None
            if env is None:
                return False
            r = self.repo.fold(test, target.fi.module, cls=target.fi.cls, env=env)
            if r is UNKNOWN:
                return False
            fires = (not r) if negate else bool(r)
            if fires:
                return False
        self.applied.append('guard `%s` of %s is dead at %s:%d: argument %s has range %s [%s, %s]'
                            % (norm(test)[:50], target.fi.qualname, fi.module.relpath, call.lineno, p, kind, lo, hi))
        return True

    def arg_range(self, a, fi):
        """('int'|'len', lo, hi) of an argument expression of a reader, from how the value was just read"""
        from .layout import fmt_info, fmt_str
        v = self.repo.fold(a, fi.module, cls=fi.cls)
        if isinstance(v, int) and not isinstance(v, bool):
            return ('int', v, v)
        if isinstance(v, bytes):
            return ('len', len(v), len(v))
        if not isinstance(a, ast.Name):
            return None
        defs = [n.value for n in walk_no_nested(fi.node) if isinstance(n, ast.Assign) and len(n.targets) == 1 and norm(n.targets[0]) == a.id]
        if not defs:
            return None
        out = None
        for d in defs:
            r = self.def_range(d, fi)
            if r is None:
                return None
            if out is None:
                out = r
            elif out[0] != r[0]:
                return None
            else:
                out = (out[0], min(out[1], r[1]), max(out[2], r[2]))
        return out

    def def_range(self, d, fi):
        from .layout import fmt_info, fmt_str
        if isinstance(d, ast.Subscript) and isinstance(d.value, ast.Call) and norm(d.value.func) == 'struct.unpack' and self.repo.fold(d.slice, fi.module) == 0:
            fmt = self.repo.fold(d.value.args[0], fi.module)
            if fmt is not UNKNOWN:
                try:
                    w, order, rng = fmt_info(fmt_str(fmt))
                except Exception:
                    return None
                if rng:
                    return ('int', rng[0], rng[1])
        if isinstance(d, ast.Call):
            fv = self.repo.fold(d.func, fi.module, cls=fi.cls)
            if isinstance(fv, FuncRef) and fv.info.qualname == 'bitcoin.core.serialize.ser_read' and len(d.args) == 2:
                n = self.repo.fold(d.args[1], fi.module)
                if isinstance(n, int):
                    return ('len', n, n)
        return None

# ------------------------------------------------------------------------------------------------ contract classes
def enclosing_if(node):
    cur = getattr(node, '_parent', None)
    while cur is not None and not isinstance(cur, (ast.If, ast.FunctionDef, ast.AsyncFunctionDef)):
        cur = getattr(cur, '_parent', None)
    return cur if isinstance(cur, ast.If) else None


_PURE_CALLS = {'len', 'bytes', 'bytearray', 'list', 'tuple', 'isinstance', 'type', 'int', 'bool', 'str', 'repr', 'sum', 'min', 'max', 'sorted', 'any', 'all',
               'enumerate', 'zip', 'range', 'reversed', 'iter', 'hash', 'id', 'ord', 'chr', 'hex', 'set', 'frozenset', 'dict', 'print', 'bord', 'bchr'}
_MUTATORS = {'append', 'pop', 'extend', 'insert', 'clear', 'remove', 'sort', 'reverse', 'update', 'add', 'discard', 'setdefault', 'popitem', 'write', 'read', 'seek'}


def _killed(test, stmts):
    """does one of `stmts` rebind or mutate a plain name the test reads? (assignment, del, mutating method, the name handed
    to a call that is not a known pure builtin)"""
    names = {n.id for n in ast.walk(test) if isinstance(n, ast.Name)}
    if not names:
        return False

    def root(e):
        while isinstance(e, (ast.Attribute, ast.Subscript)):
            e = e.value
        return e.id if isinstance(e, ast.Name) else None
    for s in stmts:
        for n in ast.walk(s):
            if isinstance(n, ast.Name) and n.id in names and isinstance(n.ctx, (ast.Store, ast.Del)):
                return True
            if isinstance(n, (ast.Subscript, ast.Attribute)) and isinstance(n.ctx, (ast.Store, ast.Del)) and root(n) in names:
                return True
            if isinstance(n, ast.Call):
                if isinstance(n.func, ast.Attribute) and root(n.func.value) in names and n.func.attr in _MUTATORS:
                    return True
                if not (isinstance(n.func, ast.Name) and n.func.id in _PURE_CALLS):
                    for a in list(n.args) + [k.value for k in n.keywords]:
                        if isinstance(a, ast.Starred):
                            a = a.value
                        if isinstance(a, ast.Name) and a.id in names:
                            return True
    return False


def path_condition(node):
    """the tests that hold where `node` stands: [(test ast, polarity)] for every enclosing if/elif/else and while"""
    from . import flow as _flow
    out = []
    cur = node
    par = getattr(cur, '_parent', None)
    # loops whose body runs again between a test made outside (or earlier in) the loop and this node: a test that reads a
    # name the loop changes says nothing about later iterations.  A `while` statement itself re-evaluates its test after
    # each run of its body.
    loops = [node] if isinstance(node, ast.While) else []

    def add(test, pol):
        for lp in loops:
            if _killed(test, list(lp.body) + list(lp.orelse)) or (isinstance(lp, ast.For) and _killed(test, [ast.Assign(targets=[lp.target], value=ast.Constant(0))])):
                return
        out.append((test, pol))

    def before(blk, cur):
        k = next((i for i, x in enumerate(blk) if x is cur), None)
        return blk[:k] if k is not None else None

    def earlier_siblings(par, cur):
        # guard clauses: an earlier `if t: <always leaves>` in the same block means `not t` holds from there on - as long as
        # no statement in between rebinds or mutates a local the test reads
        for f in ('body', 'orelse', 'finalbody'):
            blk = getattr(par, f, None)
            if isinstance(blk, list) and any(cur is x for x in blk):
                upto = next(i for i, x in enumerate(blk) if x is cur)
                for k_, sib in enumerate(blk):
                    if sib is cur:
                        break
                    if isinstance(sib, (ast.If, ast.Assert)) and _killed(sib.test, blk[k_ + 1:upto]):
                        continue
                    if isinstance(sib, ast.If):
                        if _flow.always_exits(sib.body, ['err_raiser']) and not sib.orelse:
                            add(sib.test, False)
                        elif sib.orelse and _flow.always_exits(sib.orelse, ['err_raiser']) and not _flow.always_exits(sib.body, ['err_raiser']):
                            add(sib.test, True)
                        elif sib.orelse and _flow.always_exits(sib.body, ['err_raiser']) and not _flow.always_exits(sib.orelse, ['err_raiser']):
                            add(sib.test, False)
                    elif isinstance(sib, ast.Assert):
                        add(sib.test, True)
    while par is not None and not isinstance(par, (ast.Lambda,)):
        if isinstance(cur, ast.stmt):
            earlier_siblings(par, cur)
        if isinstance(par, (ast.FunctionDef, ast.AsyncFunctionDef)):
            break
        if isinstance(par, ast.If):
            # the enclosing test still holds unless a statement of the branch before this one changed what it reads
            if any(cur is x for x in par.body):
                if not _killed(par.test, before(par.body, cur)):
                    add(par.test, True)
            elif any(cur is x for x in par.orelse):
                if not _killed(par.test, before(par.orelse, cur)):
                    add(par.test, False)
        elif isinstance(par, ast.IfExp):
            if cur is par.body:
                add(par.test, True)
            elif cur is par.orelse:
                add(par.test, False)
        elif isinstance(par, ast.BoolOp):
            # a and b: b is evaluated only when a holds; a or b: only when a does not
            k = next((i for i, v in enumerate(par.values) if v is cur), None)
            if k:
                for prev in par.values[:k]:
                    add(prev, isinstance(par.op, ast.And))
        elif isinstance(par, (ast.For, ast.AsyncFor, ast.While)) and isinstance(cur, ast.stmt) and any(cur is x for x in par.body):
            loops.append(par)
        cur, par = par, getattr(par, '_parent', None)
    return out


class _TruthyLen(ast.NodeTransformer):
    """in boolean positions, a bare sequence name means len(name) > 0"""

    def __init__(self, names):
        self.names = names

    def _b(self, e):
        if isinstance(e, ast.Name) and e.id in self.names:
            return ast.Compare(left=ast.Call(func=ast.Name(id='len', ctx=ast.Load()), args=[e], keywords=[]), ops=[ast.Gt()], comparators=[ast.Constant(0)])
        if isinstance(e, ast.UnaryOp) and isinstance(e.op, ast.Not):
            return ast.UnaryOp(op=ast.Not(), operand=self._b(e.operand))
        if isinstance(e, ast.BoolOp):
            return ast.BoolOp(op=e.op, values=[self._b(v) for v in e.values])
        return e


def _single_pure_defs(f):
    """locals of f assigned exactly once, at the top level of the function (not under a branch or loop), to an
    expression without calls other than len(): they can be replaced by their definition in a path condition"""
    counts = {}
    for n in ast.walk(f.node):
        if isinstance(n, ast.Name) and isinstance(n.ctx, (ast.Store, ast.Del)):
            counts[n.id] = counts.get(n.id, 0) + 1
    out = {}
    for s in f.node.body:
        if isinstance(s, ast.Assign) and len(s.targets) == 1 and isinstance(s.targets[0], ast.Name) and counts.get(s.targets[0].id) == 1 \
                and s.targets[0].id not in f.params:
            calls = [c for c in ast.walk(s.value) if isinstance(c, ast.Call)]
            if all(isinstance(c.func, ast.Name) and c.func.id == 'len' for c in calls):
                out[s.targets[0].id] = s.value
    return out


class _SubstNames(ast.NodeTransformer):
    def __init__(self, defs):
        self.defs = defs

    def visit_Name(self, n):
        if isinstance(n.ctx, ast.Load) and n.id in self.defs:
            import copy
            return self.visit(copy.deepcopy(self.defs[n.id]))
        return n


def implied_at(repo, f, node, goal_text, truthy_len=None):
    """True / False / None: does the path condition at `node` imply the goal formula (constants literal)?

    True is a proof (the condition is only ever weakened by what is not modelled).  False claims a counter-example, so
    it is given only when the condition is modelled completely as far as the goal's variables go: once-assigned pure
    locals (`size = len(self)`) are replaced by their definitions, and if any test on the path still mentions another
    local variable, or uses the goal's sequence through anything but len(), a constant index or its truth value (a
    predicate method, say, which may well imply a length), the answer is None."""
    from .rules import equiv, _Folder, _copy
    pcs = path_condition(node)
    defs = _single_pure_defs(f)
    goal_names = {n.id for n in ast.walk(ast.parse(goal_text, mode='eval')) if isinstance(n, ast.Name)} - {'len'}
    locals_ = {n.id for n in ast.walk(f.node) if isinstance(n, ast.Name) and isinstance(n.ctx, (ast.Store, ast.Del))} - set(f.params)
    for a in ast.walk(f.node):
        if isinstance(a, ast.arg):
            locals_.discard(a.arg)
    parts = []
    opaque = False

    class _InlinePredicates(ast.NodeTransformer):
        """x.is_something() with x the goal's sequence: replaced by the body of the predicate when it is a single
        `return <expression over self>` defined once in the repository"""

        def visit_Call(self, n):
            n = self.generic_visit(n)
            if isinstance(n.func, ast.Attribute) and isinstance(n.func.value, ast.Name) and n.func.value.id in goal_names and not n.args and not n.keywords:
                cands = [g for g in repo.functions.values() if g.name == n.func.attr and g.cls is not None]
                if len(cands) == 1:
                    body = [x for x in cands[0].node.body if not (isinstance(x, ast.Expr) and isinstance(x.value, ast.Constant))]
                    if len(body) == 1 and isinstance(body[0], ast.Return) and body[0].value is not None and cands[0].params[:1] == ['self'] and len(cands[0].params) == 1:
                        e = _copy(body[0].value)
                        who = n.func.value.id

                        class R(ast.NodeTransformer):
                            def visit_Name(self, m):
                                return ast.copy_location(ast.Name(id=who, ctx=ast.Load()), m) if m.id == 'self' else m
                        return R().visit(e)
            return n
    def formula(inline):
        nonlocal opaque
        opaque = False
        parts = []
        for t, pol in pcs:
            t = _copy(t)
            if defs:
                t = ast.fix_missing_locations(_SubstNames(defs).visit(t))
            if inline:
                t = ast.fix_missing_locations(_InlinePredicates().visit(t))
            if truthy_len:
                t = ast.fix_missing_locations(_TruthyLen(truthy_len)._b(t))
            for n in ast.walk(t):
                if isinstance(n, ast.Name) and n.id in locals_:
                    opaque = True
                if isinstance(n, ast.Call):
                    fn = n.func
                    if isinstance(fn, ast.Name) and fn.id == 'len':
                        continue
                    inside = {x.id for x in ast.walk(n) if isinstance(x, ast.Name)}
                    if inside & goal_names:
                        opaque = True
                if isinstance(n, ast.Subscript) and isinstance(n.value, ast.Name) and n.value.id in goal_names and not isinstance(n.slice, (ast.Constant, ast.Slice, ast.UnaryOp)):
                    opaque = True
            ft = ast.unparse(_Folder(repo, f.module, f.cls, None).visit(_copy(t)))
            parts.append('(%s)' % ft if pol else 'not (%s)' % ft)
        return ' and '.join(parts) if parts else 'True'
    # a proof needs no more than the plain condition; a counter-example needs the complete one
    pc = formula(False)
    v = equiv('not (%s) or (%s)' % (pc, goal_text), 'True')
    if v is True:
        return True
    was_opaque = opaque
    if v is False and not was_opaque:
        return False
    pc2 = formula(True)
    if pc2 != pc:
        v2 = equiv('not (%s) or (%s)' % (pc2, goal_text), 'True')
        if v2 is True:
            return True
        if v2 is False and not opaque:
            return False
    return None


def contract_class(repo, esc, ctor_ranges=True):
    """structural classification of an escaping raise/assert as a documented precondition. -> reason or None"""
    fi, node = esc.fi, esc.node
    g = enclosing_if(node)
    params = set(fi.params)
    if esc.cls == 'TypeError' and g is not None and 'isinstance(' in norm(g.test):
        return 'argument-type contract (TypeError under `%s`)' % norm(g.test)[:60]
    if esc.cls == 'OpenSSLException' or (esc.info is not None and esc.info.name == 'OpenSSLException'):
        return 'resource failure reported by libcrypto (allocator errcheck hook)'
    if esc.cls == 'NotImplementedError':
        return None
    if ctor_ranges and fi.name in ('__init__', '__new__') and esc.cls in ('ValueError', 'AssertionError'):
        # wire-range preconditions: comparison of a constructor parameter (or its len) with constants
        test = g.test if (g is not None and isinstance(node, ast.Raise)) else (node.test if isinstance(node, ast.Assert) else None)
        if test is not None:
            funcs = {id(n.func) for n in ast.walk(test) if isinstance(n, ast.Call)}
            names = {n.id for n in ast.walk(test) if isinstance(n, ast.Name) and id(n) not in funcs}
            others = [n for n in ast.walk(test) if isinstance(n, (ast.Call,)) and norm(n.func) != 'len']
            if names and names <= params and not others and any(isinstance(n, ast.Compare) for n in ast.walk(test)):
                return 'wire-range precondition of the constructor (`%s`)' % norm(test)[:60]
    if isinstance(node, ast.Assert) and fi.name in ('stream_serialize', 'stream_deserialize'):
        t = norm(node.test)
        import re
        if re.match(r'^len\((self\.)?\w+\) == \d+$', t) or re.match(r'^len\(self\.\w+(\.\w+)*\) <= len\(self\.\w+\)$', t):
            return 'field-shape precondition of the serialiser (`%s`)' % t
    if esc.cls == 'ValueError' and g is not None:
        # beyond-format sizes: final else of a length-threshold chain whose last bound is >= 2**32-1
        par = g
        if node in getattr(par, 'orelse', []) or any(node is x for x in par.orelse):
            c = canon_guard(par.test, repo, fi.module, fi.cls)
            import re
            m = re.match(r'^len\(\w+\) < (\d+)$', c)
            if m and int(m.group(1)) >= (1 << 32):
                return 'beyond-format size (more than 2**32-1 bytes)'
        if 'varint must be non-negative' in esc.text or (isinstance(g.test, ast.Compare) and norm(g.test) in ('i < 0',) and fi.qualname.endswith('VarIntSerializer.stream_serialize')):
            return 'length precondition (a count is never negative)'
    return None


# ------------------------------------------------------------------------------------------------ dead sites
def dead_by_domain(repo, fi, var, domain, pinned=True):
    """statements of fi that no path reaches when `var` ranges over `domain` (guards folded by the TABLE engine)
    -> set of ids of raise/assert nodes reached"""
    reached = set()
    tr = Tracer(repo, fi.module, cls=fi.cls, noreturn=['err_raiser'])
    tr.pinned = {var}
    for v in domain:
        paths = tr.trace(fi.node.body, {var: v})
        for p in paths:
            for s in p.stmts():
                reached.add(id(s))
            if p.endnode is not None:
                reached.add(id(p.endnode))
    return reached


def rule_entry(rule, repo, esc_engine, fi, allowed, label, ctx=None, class_args=None, justified=None, ctor_ranges=True):
    """every escape of entry `fi` lies in the allowed families, is a contract class, or is a justified-dead site"""
    escs = esc_engine.entry(fi, ctx, class_args)
    n_ok = 0
    just = justified or {}
    for e in escs:
        if e.cls in ('<re-raise>',):
            continue
        key = '%s:%s:%s:%s' % (label, e.cls, e.fi.qualname.replace('bitcoin.', ''), e.text[:60])
        if e.cls == '<unknown>':
            rule.undecided(key, e.site(), 'raise of an unresolvable exception expression `%s`' % e.text)
            continue
        if esc_engine.in_family(e, allowed):
            n_ok += 1
            continue
        # for readers the constructor range checks directly behind a read must be proven dead by the call-site ranges
        direct = bool(e.path) and e.path[-1].split(' -> ')[0].rsplit('.', 1)[-1] in ('stream_deserialize', 'msg_deser')
        c = contract_class(repo, e, ctor_ranges or not direct)
        if c is not None:
            rule.note('%s: %s at %s excluded: %s' % (label, e.cls, e.site(), c))
            n_ok += 1
            continue
        j = None
        for (jq, jt), jv in just.items():
            if jq == e.fi.qualname and (e.text.startswith(jt) or jt.startswith(e.text)):
                j = jv
        if j is not None:
            ok, why = j(e) if callable(j) else (True, j)
            if ok:
                rule.note('%s: %s `%s` at %s is dead: %s' % (label, e.cls, e.text, e.site(), why))
                n_ok += 1
                continue
        rule.violated(key, e.site(), '%s can escape from %s: `%s` in %s (allowed: %s)'
                      % (e.cls, label, e.text, e.fi.qualname, ', '.join(x.name if isinstance(x, ClassInfo) else x for x in allowed)), path=list(e.path))
    rule.ok('%s:escapes' % label, fi.site, '%d escaping raise sites analysed, all within the allowed family / contract classes; %d functions visited' % (len(escs), len(esc_engine.visited)))
    return escs


def rule_C01_E2(ctx, repo):
    from .layout import LayoutEngine
    r = ctx.rule('C01.E2', 'from deserialize() of the nine wire classes only the SerializationError family escapes', engine='ESCAPE', floor=9)
    eng = LayoutEngine(repo)
    res = Resolver(repo, eng)
    ee = Escape(repo, res)
    ser_err = repo.get_class('bitcoin.core.serialize.SerializationError')
    des = repo.get_function('bitcoin.core.serialize.Serializable.deserialize')
    just = justified_table(repo)
    for q in ('bitcoin.core.COutPoint', 'bitcoin.core.CTxIn', 'bitcoin.core.CTxOut', 'bitcoin.core.CTxInWitness', 'bitcoin.core.CTxWitness',
              'bitcoin.core.script.CScriptWitness', 'bitcoin.core.CTransaction', 'bitcoin.core.CBlockHeader', 'bitcoin.core.CBlock',
              'bitcoin.core.CMutableOutPoint', 'bitcoin.core.CMutableTxIn', 'bitcoin.core.CMutableTxOut', 'bitcoin.core.CMutableTransaction'):
        ci = repo.get_class(q)
        if ci.name == 'CTxWitness':
            # its reader is an instance method taking the expected count from self
            fi = repo.lookup_method(ci, 'stream_deserialize')
            rule_entry(r, repo, ee, fi, [ser_err], ci.name + '.stream_deserialize', ctx=ci, justified=just, ctor_ranges=False)
            continue
        rule_entry(r, repo, ee, des, [ser_err], ci.name + '.deserialize', ctx=ci, class_args={'cls': ci}, justified=just, ctor_ranges=False)
    for (f, t) in sorted(ee.unresolved)[:12]:
        r.note('unresolved call: %s in %s' % (t, f))
    for a in sorted(set(ee.applied))[:30]:
        r.note(a)


def justified_table(repo):
    """asserts/raises whose infeasibility needs an argument; each entry is validated programmatically where possible"""
    out = {}

    # CBlock.__init__: the Merkle check compares with the computed root only when transactions are given; the reader
    # builds the header through the base constructor with vtx=() (no transactions), so the raise is not reachable from
    # stream_deserialize.  Validated: CBlock.stream_deserialize calls super().stream_deserialize, whose `cls(...)`
    # passes six positional arguments (vtx keeps its empty default).
    def merkle_dead(e):
        blk = repo.get_class('bitcoin.core.CBlock')
        rd = repo.lookup_method(blk, 'stream_deserialize')
        calls = [norm(c) for c in ast.walk(rd.node) if isinstance(c, ast.Call) and norm(c.func).endswith('.stream_deserialize') and 'super(' in norm(c.func)]
        hdr = repo.get_class('bitcoin.core.CBlockHeader')
        hr = repo.lookup_method(hdr, 'stream_deserialize')
        rets = [n.value for n in ast.walk(hr.node) if isinstance(n, ast.Return) and isinstance(n.value, ast.Call) and norm(n.value.func) == 'cls']
        init = repo.lookup_method(blk, '__init__')
        d = init.defaults().get('vtx')
        ok = bool(calls) and len(rets) == 1 and len(rets[0].args) == 6 and not rets[0].keywords and d is not None and repo.fold(d, init.module) == ()
        g = enclosing_if(e.node)
        under_vtx = False
        while g is not None:
            if norm(g.test) == 'vtx' and any(e.node is x for b in g.body for x in ast.walk(b)):
                under_vtx = True
            g = enclosing_if(g)
        ok = ok and under_vtx
        return ok, 'the reader constructs the block with the default vtx=(), and the check sits under `if vtx:`'
    out[('bitcoin.core.CBlock.__init__', "CheckBlockError('CBlock : hashMerkleRoot is not compatible with vtx')")] = merkle_dead
    return out
