"""OWN engine: ownership, immutability, effects (DESIGN.md 3.5)."""
import ast

from .model import UNKNOWN, ClassRef, FuncRef, ClassInfo, norm, walk_no_nested
from .resolve import Resolver, root_name

MUTATORS = {'append', 'extend', 'insert', 'pop', 'remove', 'clear', 'sort', 'reverse', 'update', '__setitem__',
            '__delitem__', 'add', 'discard', 'setdefault', 'popitem'}


def is_chain(e):
    cur = e
    while isinstance(cur, (ast.Attribute, ast.Subscript)):
        cur = cur.value
    return isinstance(cur, ast.Name)


def _blocks(node):
    for n in ast.walk(node):
        for f in ('body', 'orelse', 'finalbody'):
            b = getattr(n, f, None)
            if isinstance(b, list) and b and isinstance(b[0], ast.stmt):
                yield b


class ReadOnly(object):
    """Does a function (or anything it calls) store through one of its parameters?"""

    def __init__(self, repo, resolver):
        self.repo = repo
        self.res = resolver
        self.memo = {}
        self.visited = []
        self.unresolved = []

    def aliases(self, fi, param):
        """names bound to the parameter, its attributes, subscripts or loop elements (flow-insensitive, to a fixpoint)"""
        al = {param}
        changed = True
        while changed:
            changed = False
            for n in walk_no_nested(fi.node):
                tgt = val = None
                if isinstance(n, ast.Assign) and len(n.targets) == 1:
                    tgt, val = n.targets[0], n.value
                elif isinstance(n, ast.For):
                    tgt, val = n.target, n.iter
                elif isinstance(n, ast.comprehension):
                    tgt, val = n.target, n.iter
                if tgt is None:
                    continue
                if isinstance(val, ast.Call) and norm(val.func) in ('enumerate', 'reversed', 'iter', 'zip') and val.args:
                    val = val.args[0]
                if is_chain(val) and root_name(val) in al:
                    if isinstance(tgt, ast.Name):
                        names = [tgt.id]
                    elif isinstance(tgt, (ast.Tuple, ast.List)):
                        names = [x.id for x in tgt.elts if isinstance(x, ast.Name)]
                    else:
                        names = []  # stored into another object: not a write through the parameter
                    for nm in names:
                        if nm not in al:
                            al.add(nm)
                            changed = True
        return al

    def boxes(self, fi, al):
        """(boxes, element aliases): local containers / freshly constructed objects that *hold* objects reachable from the
        parameter - a list the caller's inputs were appended to, a transaction built around such a list - and the names
        bound to their elements.  Editing the box is fine; storing through one of its elements edits the caller's object."""
        boxes, elems = set(), set()

        def held(e):
            """expression evaluates to (or contains) an alias"""
            if isinstance(e, ast.Starred):
                e = e.value
            if is_chain(e):
                r_ = root_name(e)
                return r_ in al or r_ in elems or r_ in boxes
            if isinstance(e, (ast.List, ast.Tuple, ast.Set)):
                return any(held(x) for x in e.elts)
            if isinstance(e, (ast.ListComp, ast.GeneratorExp, ast.SetComp)):
                loc = set()
                for g in e.generators:
                    if held(g.iter) or (isinstance(g.iter, ast.Call) and norm(g.iter.func) in ('enumerate', 'reversed', 'zip', 'iter') and any(held(a) for a in g.iter.args)):
                        for x in ast.walk(g.target):
                            if isinstance(x, ast.Name):
                                loc.add(x.id)
                return is_chain(e.elt) and (root_name(e.elt) in loc or held(e.elt))
            if isinstance(e, ast.IfExp):
                return held(e.body) or held(e.orelse)
            if isinstance(e, ast.Call):
                t = norm(e.func)
                if t in ('list', 'tuple', 'sorted', 'reversed', 'set', 'frozenset') and e.args:
                    return held(e.args[0])
                v = self.repo.fold(e.func, fi.module, cls=fi.cls)
                if isinstance(v, ClassRef):
                    # a constructor keeps what it is given (mutable classes store their arguments as they are)
                    return any(held(a) for a in list(e.args) + [k.value for k in e.keywords])
            return False
        changed = True
        while changed:
            changed = False
            for n in walk_no_nested(fi.node):
                if isinstance(n, ast.Call) and isinstance(n.func, ast.Attribute) and n.func.attr in ('append', 'extend', 'insert', 'add') \
                        and isinstance(n.func.value, ast.Name) and n.func.value.id not in al and n.args and held(n.args[-1]) \
                        and not self._rebound_fresh(fi, n, n.args[-1], held):
                    if n.func.value.id not in boxes:
                        boxes.add(n.func.value.id)
                        changed = True
                tgt = val = None
                loop = False
                if isinstance(n, ast.Assign) and len(n.targets) == 1:
                    tgt, val = n.targets[0], n.value
                elif isinstance(n, ast.For):
                    tgt, val, loop = n.target, n.iter, True
                if tgt is None:
                    continue
                if loop and isinstance(val, ast.Call) and norm(val.func) in ('enumerate', 'reversed', 'iter', 'zip') and val.args:
                    val = val.args[0]
                names = [x.id for x in ([tgt] if isinstance(tgt, ast.Name) else (tgt.elts if isinstance(tgt, (ast.Tuple, ast.List)) else [])) if isinstance(x, ast.Name)]
                if is_chain(val) and root_name(val) in boxes and not isinstance(val, ast.Name):
                    # an element / field of a box
                    through = any(isinstance(x, ast.Subscript) for x in ast.walk(val))
                    if loop or through:
                        for nm in names:
                            if nm not in elems and nm not in al:
                                elems.add(nm)
                                changed = True
                    continue
                if loop and isinstance(val, ast.Name) and val.id in boxes:
                    for nm in names:
                        if nm not in elems and nm not in al:
                            elems.add(nm)
                            changed = True
                    continue
                if not loop and not is_chain(val) and held(val) and isinstance(tgt, ast.Name):
                    if tgt.id not in boxes and tgt.id not in al:
                        boxes.add(tgt.id)
                        changed = True
        return boxes, elems

    def _rebound_fresh(self, fi, call, arg, held):
        """the name handed to append() was unconditionally rebound, earlier in the same block, to something that holds no
        alias (`t = Copy.from_x(t); out.append(t)`): the one flow-sensitive step this analysis takes"""
        if not isinstance(arg, ast.Name):
            return False
        for blk in _blocks(fi.node):
            for k, st in enumerate(blk):
                if isinstance(st, ast.Expr) and st.value is call:
                    for prev in reversed(blk[:k]):
                        if isinstance(prev, ast.Assign) and len(prev.targets) == 1 and isinstance(prev.targets[0], ast.Name) and prev.targets[0].id == arg.id:
                            return not held(prev.value) and not (is_chain(prev.value))
                        if any(isinstance(x, ast.Name) and x.id == arg.id and isinstance(x.ctx, ast.Store) for x in ast.walk(prev)):
                            return False
                    return False
        return False

    def writes(self, fi, param, ctx=None, depth=0, path=(), class_args=None):
        """-> list of (FunctionInfo, node, text, call path)"""
        class_args = class_args or {}
        key = (fi.qualname, param, ctx.qualname if ctx else None, tuple(sorted((k, v.qualname) for k, v in class_args.items())))
        if key in self.memo:
            return self.memo[key]
        self.memo[key] = []  # recursion guard
        out = []
        self.visited.append(fi.qualname)
        al = self.aliases(fi, param)
        boxes, elems = self.boxes(fi, al)
        al = al | elems

        def through_box(sub):
            """a store target rooted in a box that reaches an element before the final accessor"""
            if not (isinstance(sub, (ast.Attribute, ast.Subscript)) and root_name(sub) in boxes):
                return False
            return any(isinstance(x, ast.Subscript) for x in ast.walk(sub.value))
        for n in walk_no_nested(fi.node):
            # direct stores / deletes
            targets = []
            if isinstance(n, ast.Assign):
                targets = n.targets
            elif isinstance(n, (ast.AugAssign, ast.AnnAssign)):
                targets = [n.target]
            elif isinstance(n, ast.Delete):
                targets = n.targets
            for t in targets:
                for sub in ([t] if not isinstance(t, (ast.Tuple, ast.List)) else t.elts):
                    if isinstance(sub, (ast.Attribute, ast.Subscript)) and root_name(sub) in al:
                        out.append((fi, n, 'store through `%s`' % norm(sub), path))
                    elif through_box(sub):
                        out.append((fi, n, 'store through `%s`, an element of `%s`, which holds objects of the caller\'s `%s` (not copies)' % (norm(sub), root_name(sub), param), path))
            if isinstance(n, ast.Call):
                f = n.func
                if isinstance(f, ast.Attribute) and f.attr in MUTATORS and is_chain(f.value) and root_name(f.value) in al:
                    out.append((fi, n, 'mutating call `%s`' % norm(n)[:70], path))
                if norm(f) in ('object.__setattr__', 'setattr', 'object.__delattr__', 'delattr') and n.args and is_chain(n.args[0]) and root_name(n.args[0]) in al:
                    # cache slots of immutable objects are not part of the value
                    slot = n.args[1].value if len(n.args) > 1 and isinstance(n.args[1], ast.Constant) else None
                    if not (isinstance(slot, str) and slot.startswith('_cached')):
                        out.append((fi, n, 'attribute store `%s`' % norm(n)[:70], path))
                # inter-procedural: alias passed on
                if depth < 8:
                    passed = [a for a in list(n.args) + [kw.value for kw in n.keywords] if is_chain(a) and root_name(a) in al]
                    recv_alias = isinstance(f, ast.Attribute) and is_chain(f.value) and root_name(f.value) in al
                    if passed or recv_alias:
                        tg = self.res.resolve(n, fi, ctx, class_args=class_args)
                        if tg is None:
                            self.unresolved.append((fi, n))
                            continue
                        from .resolve import bind_args
                        for t in tg:
                            b = bind_args(n, t)
                            ca = {}
                            for pn, a in b.items():
                                v = self.repo.fold(a, fi.module, cls=fi.cls)
                                if isinstance(v, ClassRef):
                                    ca[pn] = v.info
                                elif isinstance(a, ast.Name) and a.id in class_args:
                                    ca[pn] = class_args[a.id]
                                elif isinstance(a, ast.Name):
                                    cur = fi
                                    while cur is not None:
                                        if a.id in cur.nested:
                                            ca[pn] = cur.nested[a.id]
                                            break
                                        cur = cur.parent
                            step = path + ('%s -> %s' % (fi.qualname, t.fi.qualname),)
                            for pn, a in b.items():
                                if is_chain(a) and root_name(a) in al:
                                    out.extend(self.writes(t.fi, pn, t.ctx, depth + 1, step, ca))
                            if recv_alias and t.bound and t.fi.kind == 'method' and t.fi.params:
                                out.extend(self.writes(t.fi, t.fi.params[0], t.ctx, depth + 1, step, ca))
        self.memo[key] = out
        return out
