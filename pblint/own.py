"""OWN engine: ownership, immutability, effects (DESIGN.md 3.5)."""
import ast

from .model import UNKNOWN, ClassRef, FuncRef, ClassInfo, norm, walk_no_nested
from .resolve import Resolver, root_name

MUTATORS = {'append', 'extend', 'insert', 'pop', 'remove', 'clear', 'sort', 'reverse', 'update', '__setitem__',
            '__delitem__', 'add', 'discard', 'setdefault', 'popitem'}


def is_chain(e):
    cur = e
    while isinstance(cur, (ast.Attribute, ast.Subscript)):
        cur = cur.value
    return isinstance(cur, ast.Name)


class ReadOnly(object):
    """Does a function (or anything it calls) store through one of its parameters?"""

    def __init__(self, repo, resolver):
        self.repo = repo
        self.res = resolver
        self.memo = {}
        self.visited = []
        self.unresolved = []

    def aliases(self, fi, param):
        """names bound to the parameter, its attributes, subscripts or loop elements (flow-insensitive, to a fixpoint)"""
        al = {param}
        changed = True
        while changed:
            changed = False
            for n in walk_no_nested(fi.node):
                tgt = val = None
                if isinstance(n, ast.Assign) and len(n.targets) == 1:
                    tgt, val = n.targets[0], n.value
                elif isinstance(n, ast.For):
                    tgt, val = n.target, n.iter
                elif isinstance(n, ast.comprehension):
                    tgt, val = n.target, n.iter
                if tgt is None:
                    continue
                if isinstance(val, ast.Call) and norm(val.func) in ('enumerate', 'reversed', 'iter', 'zip') and val.args:
                    val = val.args[0]
                if is_chain(val) and root_name(val) in al:
                    if isinstance(tgt, ast.Name):
                        names = [tgt.id]
                    elif isinstance(tgt, (ast.Tuple, ast.List)):
                        names = [x.id for x in tgt.elts if isinstance(x, ast.Name)]
                    else:
                        names = []  # stored into another object: not a write through the parameter
                    for nm in names:
                        if nm not in al:
                            al.add(nm)
                            changed = True
        return al

    def writes(self, fi, param, ctx=None, depth=0, path=(), class_args=None):
        """-> list of (FunctionInfo, node, text, call path)"""
        class_args = class_args or {}
        key = (fi.qualname, param, ctx.qualname if ctx else None, tuple(sorted((k, v.qualname) for k, v in class_args.items())))
        if key in self.memo:
            return self.memo[key]
        self.memo[key] = []  # recursion guard
        out = []
        self.visited.append(fi.qualname)
        al = self.aliases(fi, param)
        for n in walk_no_nested(fi.node):
            # direct stores / deletes
            targets = []
            if isinstance(n, ast.Assign):
                targets = n.targets
            elif isinstance(n, (ast.AugAssign, ast.AnnAssign)):
                targets = [n.target]
            elif isinstance(n, ast.Delete):
                targets = n.targets
            for t in targets:
                for sub in ([t] if not isinstance(t, (ast.Tuple, ast.List)) else t.elts):
                    if isinstance(sub, (ast.Attribute, ast.Subscript)) and root_name(sub) in al:
                        out.append((fi, n, 'store through `%s`' % norm(sub), path))
            if isinstance(n, ast.Call):
                f = n.func
                if isinstance(f, ast.Attribute) and f.attr in MUTATORS and is_chain(f.value) and root_name(f.value) in al:
                    out.append((fi, n, 'mutating call `%s`' % norm(n)[:70], path))
                if norm(f) in ('object.__setattr__', 'setattr', 'object.__delattr__', 'delattr') and n.args and is_chain(n.args[0]) and root_name(n.args[0]) in al:
                    # cache slots of immutable objects are not part of the value
                    slot = n.args[1].value if len(n.args) > 1 and isinstance(n.args[1], ast.Constant) else None
                    if not (isinstance(slot, str) and slot.startswith('_cached')):
                        out.append((fi, n, 'attribute store `%s`' % norm(n)[:70], path))
                # inter-procedural: alias passed on
                if depth < 8:
                    passed = [a for a in list(n.args) + [kw.value for kw in n.keywords] if is_chain(a) and root_name(a) in al]
                    recv_alias = isinstance(f, ast.Attribute) and is_chain(f.value) and root_name(f.value) in al
                    if passed or recv_alias:
                        tg = self.res.resolve(n, fi, ctx, class_args=class_args)
                        if tg is None:
                            self.unresolved.append((fi, n))
                            continue
                        from .resolve import bind_args
                        for t in tg:
                            b = bind_args(n, t)
                            ca = {}
                            for pn, a in b.items():
                                v = self.repo.fold(a, fi.module, cls=fi.cls)
                                if isinstance(v, ClassRef):
                                    ca[pn] = v.info
                                elif isinstance(a, ast.Name) and a.id in class_args:
                                    ca[pn] = class_args[a.id]
                                elif isinstance(a, ast.Name):
                                    cur = fi
                                    while cur is not None:
                                        if a.id in cur.nested:
                                            ca[pn] = cur.nested[a.id]
                                            break
                                        cur = cur.parent
                            step = path + ('%s -> %s' % (fi.qualname, t.fi.qualname),)
                            for pn, a in b.items():
                                if is_chain(a) and root_name(a) in al:
                                    out.extend(self.writes(t.fi, pn, t.ctx, depth + 1, step, ca))
                            if recv_alias and t.bound and t.fi.kind == 'method' and t.fi.params:
                                out.extend(self.writes(t.fi, t.fi.params[0], t.ctx, depth + 1, step, ca))
        self.memo[key] = out
        return out
