#!/usr/bin/env python3
"""pblint: static checks of python-bitcoinlib properties C01..C20.

usage: check.py <ID> [--tier quick|thorough] [--root /repo] [--replay FILE] [--no-evidence] [--verbose]

exit 0  every rule instance HOLDS (known findings printed as KNOWN-FINDING lines)
exit 1  at least one VIOLATED instance that is not a listed known finding (VIOLATION line printed)
exit 2  ANALYSIS-ERROR: the analysis could not decide (parse failure, vanished anchor, unmodelled idiom,
        instance count below its floor, internal error) - never reported as a violation, never as a pass
"""
import argparse
import importlib
import json
import os
import sys
import time
import traceback

HERE = os.path.dirname(os.path.abspath(__file__))
sys.path.insert(0, os.path.dirname(HERE))

from pblint.model import Repo, AnalysisError  # noqa: E402
from pblint import report  # noqa: E402

ALL_IDS = ['C%02d' % i for i in range(1, 21)]


def run_property(prop, root, tier='quick'):
    """Build the model of `root` and run every rule of `prop`. -> Ctx"""
    repo = Repo(root)
    ctx = report.Ctx(prop, repo, tier=tier, root=root)
    mod = importlib.import_module('pblint.props.%s' % prop.lower())
    mod.run(ctx)
    from pblint import hazards
    hazards.rule_effects(ctx, '%s.Z1' % prop, hazards.files_of(prop))
    from pblint import delta
    delta.rule_delta(ctx, '%s.Z2' % prop)
    from pblint import tokenedit
    tokenedit.rule_token(ctx, '%s.Z3' % prop)
    return ctx


def main(argv=None):
    ap = argparse.ArgumentParser()
    ap.add_argument('prop')
    ap.add_argument('--tier', default=os.environ.get('VERIF_TIER', 'quick'), choices=['quick', 'thorough'])
    ap.add_argument('--root', default='/repo')
    ap.add_argument('--replay')
    ap.add_argument('--no-evidence', action='store_true')
    ap.add_argument('--verbose', '-v', action='store_true')
    ap.add_argument('--jobs', type=int, default=16)
    args = ap.parse_args(argv)
    prop = args.prop.upper()
    seed = int(os.environ.get('VERIF_SEED', '0') or 0)
    t0 = time.time()
    try:
        if prop not in ALL_IDS:
            raise AnalysisError('unknown property id %s' % prop)
        ctx = run_property(prop, args.root, args.tier)
        known = report.load_known()
        code, lines, stats = report.summarise(ctx, known)
        selftest = None
        if args.tier == 'thorough' and not args.replay:
            from pblint import selftest as st
            selftest = st.run_selftest(prop, args.root, jobs=args.jobs)
            for l in selftest.pop('lines'):
                lines.append(l)
            if selftest['failed'] and code == 0:
                code = 2
        if args.replay:
            with open(args.replay) as fh:
                rp = json.load(fh)
            hit = [i for r in ctx.rules for i in r.instances if i.rule == rp['rule'] and i.key == rp['key']]
            if not hit:
                print('REPLAY: instance rule=%s key=%s no longer exists' % (rp['rule'], rp['key']))
                return 2
            for i in hit:
                print('REPLAY: rule=%s key=%s status=%s site=%s %s' % (i.rule, i.key, i.status, i.site, i.detail))
            return 1 if any(i.status == report.VIOLATED for i in hit) else 0
        for l in lines:
            print(l)
        if args.verbose:
            for r in ctx.rules:
                c = r.counts()
                print('  rule %-10s %-70s inst=%d holds=%d viol=%d undec=%d' % (r.id, r.title[:70], len(r.instances), c['HOLDS'], c['VIOLATED'], c['UNDECIDED']))
        viol = report.write_violations(ctx, stats) if stats['new_violations'] else []
        for i, p in viol:
            print('VIOLATION property=%s replay=%s' % (prop, p))
            print('  rule=%s key=%s site=%s: %s' % (i.rule, i.key, i.site, i.detail))
            if i.path:
                print('  path: %s' % ' -> '.join(i.path))
        wall = time.time() - t0
        if not args.no_evidence:
            report.write_evidence(ctx, stats, wall, args.tier, seed, selftest=selftest)
        print('%s %s: rules=%d obligations=%d discharged=%d known=%d violations=%d undecided=%d wall=%.2fs -> exit %d'
              % (prop, args.tier, len(ctx.rules), stats['total'], stats['holds'], len(stats['known_hits']),
                 len(stats['new_violations']), len(stats['undecided']), wall, code))
        return code
    except AnalysisError as e:
        print('ANALYSIS-ERROR property=%s reason=%s' % (prop, e))
        return 2
    except Exception:
        print('ANALYSIS-ERROR property=%s reason=internal error' % prop)
        traceback.print_exc()
        return 2


if __name__ == '__main__':
    sys.exit(main())
