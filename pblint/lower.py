"""LOWER: newer-Python spellings read as the statements they abbreviate.

Every rewrite here is an exact equivalence under the stated side conditions (evaluation order and the set of evaluated
sub-expressions are preserved), independent of the inventory.  It is applied only to functions whose statement texts differ
from the confirmed tree, so the confirmed tree itself is always analysed as written.

  (a) assignment expressions   `if (x := e) > t:`          ->  `x = e` ; `if x > t:`          (x := e evaluated first,
                                                                                                unconditionally, once)
      `if A and (x := e): B`   (no else)                   ->  `if A:` `x = e` ; `if x: B`
  (b) chained assignment       `a = b = <immutable const>` ->  `a = <const>` ; `b = <const>`
  (c) tuple assignment         `a, b = x, y`               ->  `a = x` ; `b = y`              (no target read on the right,
                                                                                                later values cannot raise
                                                                                                unless all targets are locals)
  (k) expression spellings     `struct.unpack(F, s)[-1]` (one field) -> `[0]`;  `range(0, n)` -> `range(n)`;
                               `X[a:a+1][-1]` -> `[0]`;  `f.read(-1)` -> `f.read()`;  `A if not T else B` -> `B if T else A`;
                               `enumerate(x, 0)` -> `enumerate(x)`;  `BytesIO(b'')` -> `BytesIO()`;  `s.rfind(x, 0)` -> `s.rfind(x)`
  (d) one-field unpacking      `(a,) = struct.unpack(F, s)`->  `a = struct.unpack(F, s)[0]`   (F a literal one-field format)
  (e) in-memory stream         `with BytesIO() as f: B`    ->  `f = BytesIO()` ; B
  (f) display ending in *name  `(a, b, c) = (x, *rest)`     ->  `a = x` ; `(b, c) = rest`
  (g) local kept unless        `x = x or D`                ->  `if not x: x = D`              (x a local name)
                               `x = D if T else x`         ->  `if T: x = D`
  (i) empty then-branch        `if T: pass / else: B`      ->  `if not T: B`
  (j) suppressed exceptions    `with contextlib.suppress(E): B` -> `try: B / except E: pass`
  (h) extend from a generator  `L.extend(E for i in R)`    ->  `for i in R: L.append(E)`      (list.extend appends element by element)
"""
import ast
import struct


def _clone(n):
    m = ast.parse(ast.unparse(n), mode='eval' if isinstance(n, ast.expr) else 'exec')
    m = m.body if isinstance(n, ast.expr) else m.body[0]
    for x in ast.walk(m):
        ast.copy_location(x, n)
    return m


class _Found(Exception):
    def __init__(self, node, parent, field, index):
        self.node, self.parent, self.field, self.index = node, parent, field, index


class _Blocked(Exception):
    pass


def first_unconditional(expr, kind, pure_names=None):
    """The first sub-expression of type `kind` that is evaluated unconditionally and before anything with an effect.
    Returns (node, parent, field, index) or None.  `pure_names` collects the names read before it."""
    seen = pure_names if pure_names is not None else set()

    def visit(e, parent, field, index, is_func=False):
        if isinstance(e, kind):
            raise _Found(e, parent, field, index)
        if isinstance(e, ast.Constant):
            return
        if isinstance(e, ast.Name):
            seen.add(e.id)
            return
        if isinstance(e, ast.Attribute):
            # a method looked up for the call it heads; the receiver is a plain name or attribute chain
            if is_func:
                cur = e
                while isinstance(cur, ast.Attribute):
                    cur = cur.value
                if isinstance(cur, ast.Name):
                    seen.add(cur.id)
                    return
            visit(e.value, e, 'value', None)
            raise _Blocked()
        if isinstance(e, ast.Call):
            visit(e.func, e, 'func', None, is_func=True)
            for i, a in enumerate(e.args):
                if isinstance(a, ast.Starred):
                    raise _Blocked()
                visit(a, e, 'args', i)
            for i, k in enumerate(e.keywords):
                if k.arg is None:
                    raise _Blocked()
                visit(k.value, k, 'value', None)
            raise _Blocked()
        if isinstance(e, ast.Compare):
            visit(e.left, e, 'left', None)
            visit(e.comparators[0], e, 'comparators', 0)
            raise _Blocked()
        if isinstance(e, ast.BoolOp):
            visit(e.values[0], e, 'values', 0)
            raise _Blocked()
        if isinstance(e, ast.BinOp):
            visit(e.left, e, 'left', None)
            visit(e.right, e, 'right', None)
            raise _Blocked()
        if isinstance(e, ast.UnaryOp):
            visit(e.operand, e, 'operand', None)
            if isinstance(e.op, ast.Not):
                return
            raise _Blocked()
        if isinstance(e, ast.Subscript):
            visit(e.value, e, 'value', None)
            if isinstance(e.slice, ast.Slice):
                for f in ('lower', 'upper', 'step'):
                    if getattr(e.slice, f) is not None:
                        visit(getattr(e.slice, f), e.slice, f, None)
            else:
                visit(e.slice, e, 'slice', None)
            raise _Blocked()
        if isinstance(e, (ast.Tuple, ast.List)):
            for i, a in enumerate(e.elts):
                if isinstance(a, ast.Starred):
                    raise _Blocked()
                visit(a, e, 'elts', i)
            return
        if isinstance(e, ast.IfExp):
            visit(e.test, e, 'test', None)
            raise _Blocked()
        if isinstance(e, ast.NamedExpr):
            visit(e.value, e, 'value', None)
            raise _Blocked()
        raise _Blocked()
    try:
        visit(expr, None, None, None)
    except _Found as f:
        return f.node, f.parent, f.field, f.index
    except _Blocked:
        return None
    return None


def _put(parent, field, index, new):
    if index is None:
        setattr(parent, field, new)
    else:
        getattr(parent, field)[index] = new


_IMMUTABLE_CONST = (ast.Constant,)


def _immutable_const(e):
    if isinstance(e, ast.Constant):
        return True
    if isinstance(e, ast.BinOp):
        return _immutable_const(e.left) and _immutable_const(e.right)
    if isinstance(e, ast.UnaryOp):
        return _immutable_const(e.operand)
    if isinstance(e, ast.Tuple):
        return all(_immutable_const(x) for x in e.elts)
    return False


def _atom(e):
    return isinstance(e, (ast.Name, ast.Constant)) or (isinstance(e, (ast.List, ast.Tuple)) and all(_atom(x) for x in e.elts))


def _cannot_raise(e):
    """atoms and slices of a local name with constant bounds (slicing bytes/str/list/tuple never raises)"""
    if _atom(e):
        return True
    if isinstance(e, ast.Subscript) and isinstance(e.value, ast.Name) and isinstance(e.slice, ast.Slice):
        return all(x is None or isinstance(x, ast.Constant) or isinstance(x, ast.Name) for x in (e.slice.lower, e.slice.upper, e.slice.step))
    return False


def _one_field_format(e):
    if isinstance(e, ast.Constant) and isinstance(e.value, (str, bytes)):
        try:
            n = struct.calcsize(e.value)
            return len(struct.unpack(e.value, bytes(n))) == 1
        except struct.error:
            return False
    return False


def _is_unpack_call(e):
    return (isinstance(e, ast.Call) and isinstance(e.func, ast.Attribute) and e.func.attr in ('unpack', 'unpack_from')
            and isinstance(e.func.value, ast.Name) and e.func.value.id == 'struct' and e.args and _one_field_format(e.args[0]))


def _minus_one(e):
    return isinstance(e, ast.UnaryOp) and isinstance(e.op, ast.USub) and isinstance(e.operand, ast.Constant) and type(e.operand.value) is int and e.operand.value == 1


def _one_long(sl):
    lo = 0 if sl.lower is None else (sl.lower.value if isinstance(sl.lower, ast.Constant) and type(sl.lower.value) is int else None)
    up = sl.upper.value if isinstance(sl.upper, ast.Constant) and type(sl.upper.value) is int else None
    return lo is not None and up is not None and lo >= 0 and up - lo == 1


def _own_nodes(s):
    """the expressions of a statement itself: not the statements nested in it, not nested functions"""
    stack = []
    for f, v in ast.iter_fields(s):
        if f in ('body', 'orelse', 'finalbody', 'handlers'):
            continue
        for x in (v if isinstance(v, list) else [v]):
            if isinstance(x, ast.AST):
                stack.append(x)
    while stack:
        n = stack.pop()
        if isinstance(n, (ast.FunctionDef, ast.AsyncFunctionDef, ast.ClassDef, ast.Lambda)):
            continue
        yield n
        stack.extend(ast.iter_child_nodes(n))


def _is_bytesio(e):
    if not (isinstance(e, ast.Call) and not e.args and not e.keywords):
        return False
    f = e.func
    return (isinstance(f, ast.Name) and f.id.lstrip('_') == 'BytesIO') or (isinstance(f, ast.Attribute) and f.attr == 'BytesIO')


_VALUE_FIELDS = {ast.If: 'test', ast.Assign: 'value', ast.AugAssign: 'value', ast.AnnAssign: 'value', ast.Return: 'value',
                 ast.Expr: 'value', ast.Assert: 'test', ast.Raise: 'exc'}


class Lower(object):
    def __init__(self, log=None, confirmed=None):
        self.log = log or (lambda n, t: None)
        self.count = 0
        self.confirmed = confirmed or (lambda s: False)  # is this statement, as written, one of the confirmed function?

    def run(self, fnode):
        for _ in range(12):
            if not self.once(fnode):
                break
        return self.count

    def blocks(self, fnode):
        stack = [fnode]
        while stack:
            n = stack.pop()
            for f in ('body', 'orelse', 'finalbody'):
                b = getattr(n, f, None)
                if isinstance(b, list) and b and isinstance(b[0], ast.stmt):
                    yield n, f, b
                    for s in b:
                        if not isinstance(s, (ast.FunctionDef, ast.AsyncFunctionDef, ast.ClassDef)):
                            stack.append(s)
            if isinstance(n, ast.Try):
                for h in n.handlers:
                    yield h, 'body', h.body
                    stack.extend(h.body)

    def once(self, fnode):
        for owner, field, blk in self.blocks(fnode):
            in_try = isinstance(owner, ast.Try) and field == 'body'
            for i, s in enumerate(blk):
                new = self.stmt(s, in_try)
                if new is not None:
                    blk[i:i + 1] = new
                    self.count += 1
                    return True
        return False

    def stmt(self, s, in_try):
        # (e) in-memory stream as a context manager
        if isinstance(s, ast.With) and len(s.items) == 1 and _is_bytesio(s.items[0].context_expr) and isinstance(s.items[0].optional_vars, ast.Name):
            a = ast.Assign(targets=[s.items[0].optional_vars], value=s.items[0].context_expr)
            ast.copy_location(a, s)
            a.targets[0].ctx = ast.Store()
            self.log(s, '`with %s as %s:` read as an assignment followed by the block' % (ast.unparse(s.items[0].context_expr), s.items[0].optional_vars.id))
            return [a] + list(s.body)
        # (b) chained assignment of an immutable constant
        if isinstance(s, ast.Assign) and len(s.targets) > 1 and _immutable_const(s.value) and all(isinstance(t, (ast.Name, ast.Attribute)) for t in s.targets):
            out = []
            for t in s.targets:
                a = ast.Assign(targets=[t], value=_clone(s.value))
                ast.copy_location(a, s)
                out.append(a)
            self.log(s, 'chained assignment of a constant read as %d assignments' % len(out))
            return out
        # (c) tuple assignment
        if (isinstance(s, ast.Assign) and len(s.targets) == 1 and isinstance(s.targets[0], (ast.Tuple, ast.List))
                and isinstance(s.value, (ast.Tuple, ast.List)) and len(s.targets[0].elts) == len(s.value.elts) >= 2
                and not any(isinstance(v, ast.Starred) for v in s.value.elts)):
            tg = s.targets[0].elts
            if all(isinstance(t, ast.Name) for t in tg):
                tn = [t.id for t in tg]
                reads = {n.id for n in ast.walk(s.value) if isinstance(n, ast.Name)}
                ok = len(set(tn)) == len(tn) and not (set(tn) & reads) and (not in_try or all(_cannot_raise(v) for v in s.value.elts[1:]))
            elif all(isinstance(t, ast.Attribute) and isinstance(t.value, ast.Name) for t in tg):
                ok = all(_atom(v) for v in s.value.elts) and len({ast.unparse(t) for t in tg}) == len(tg)
            else:
                ok = False
            if ok:
                out = []
                for t, v in zip(tg, s.value.elts):
                    a = ast.Assign(targets=[t], value=v)
                    ast.copy_location(a, s)
                    out.append(a)
                self.log(s, 'tuple assignment read as %d assignments' % len(out))
                return out
        # (f) a display ending in one starred name: the leading targets take the leading values, the rest unpack the name
        if (isinstance(s, ast.Assign) and len(s.targets) == 1 and isinstance(s.targets[0], (ast.Tuple, ast.List))
                and isinstance(s.value, (ast.Tuple, ast.List)) and len(s.value.elts) >= 2 and isinstance(s.value.elts[-1], ast.Starred)
                and isinstance(s.value.elts[-1].value, ast.Name) and all(_atom(v) for v in s.value.elts[:-1])
                and not any(isinstance(t, ast.Starred) for t in s.targets[0].elts) and len(s.targets[0].elts) > len(s.value.elts) - 1
                and all(isinstance(t, ast.Name) or (isinstance(t, ast.Attribute) and isinstance(t.value, ast.Name)) for t in s.targets[0].elts)):
            k = len(s.value.elts) - 1
            tg = s.targets[0].elts
            rest_name = s.value.elts[-1].value.id
            if rest_name not in {t.id for t in tg if isinstance(t, ast.Name)}:
                out = []
                for t, v in zip(tg[:k], s.value.elts[:k]):
                    a = ast.Assign(targets=[t], value=v)
                    ast.copy_location(a, s)
                    out.append(a)
                rest = ast.Tuple(elts=list(tg[k:]), ctx=ast.Store())
                ast.copy_location(rest, s)
                a = ast.Assign(targets=[rest], value=s.value.elts[-1].value)
                ast.copy_location(a, s)
                out.append(a)
                self.log(s, 'display ending in `*%s` read as %d assignments and one unpacking of `%s`' % (rest_name, k, rest_name))
                return out
        # (g) a local kept unless a test says otherwise: `x = x or D`, `x = D if T else x`, `x = x if T else D`
        if isinstance(s, ast.Assign) and len(s.targets) == 1 and isinstance(s.targets[0], ast.Name):
            x = s.targets[0].id
            v = s.value
            test = new_v = None
            if isinstance(v, ast.BoolOp) and isinstance(v.op, ast.Or) and len(v.values) == 2 and isinstance(v.values[0], ast.Name) and v.values[0].id == x:
                test, new_v = ast.UnaryOp(op=ast.Not(), operand=v.values[0]), v.values[1]
            elif isinstance(v, ast.IfExp) and isinstance(v.orelse, ast.Name) and v.orelse.id == x and not (isinstance(v.body, ast.Name) and v.body.id == x):
                test, new_v = v.test, v.body
            elif isinstance(v, ast.IfExp) and isinstance(v.body, ast.Name) and v.body.id == x:
                test, new_v = ast.UnaryOp(op=ast.Not(), operand=v.test), v.orelse
            if test is not None:
                a = ast.Assign(targets=[s.targets[0]], value=new_v)
                ast.copy_location(a, s)
                n = ast.If(test=test, body=[a], orelse=[])
                ast.copy_location(n, s)
                for y in ast.walk(test):
                    if not hasattr(y, 'lineno'):
                        ast.copy_location(y, s)
                self.log(s, '`%s` read as a conditional re-assignment of the local `%s`' % (ast.unparse(s)[:50], x))
                return [n]
        # (i) an empty then-branch: the else-branch runs when the test fails
        if isinstance(s, ast.If) and s.orelse and all(isinstance(x, ast.Pass) for x in s.body):
            t = s.test
            neg = t.operand if isinstance(t, ast.UnaryOp) and isinstance(t.op, ast.Not) else ast.UnaryOp(op=ast.Not(), operand=t)
            ast.copy_location(neg, t)
            s.test = neg
            s.body, s.orelse = s.orelse, []
            self.log(s, '`if ...: pass / else:` read as the negated test')
            return [s]
        # (j) exceptions suppressed by a context manager: `with contextlib.suppress(E): B` is `try: B / except E: pass`
        if isinstance(s, ast.With) and len(s.items) == 1 and s.items[0].optional_vars is None and isinstance(s.items[0].context_expr, ast.Call) \
                and ast.unparse(s.items[0].context_expr.func) in ('contextlib.suppress', 'suppress') and s.items[0].context_expr.args and not s.items[0].context_expr.keywords:
            a = s.items[0].context_expr.args
            typ = a[0] if len(a) == 1 else ast.Tuple(elts=list(a), ctx=ast.Load())
            h = ast.ExceptHandler(type=typ, name=None, body=[ast.Pass()])
            t = ast.Try(body=list(s.body), handlers=[h], orelse=[], finalbody=[])
            for x in ast.walk(t):
                if not hasattr(x, 'lineno'):
                    ast.copy_location(x, s)
            ast.copy_location(t, s)
            self.log(s, '`with contextlib.suppress(...)` read as try/except/pass')
            return [t]
        # (h) a list extended from a generator expression appends element by element, as the loop does
        if (isinstance(s, ast.Expr) and isinstance(s.value, ast.Call) and isinstance(s.value.func, ast.Attribute) and s.value.func.attr == 'extend'
                and isinstance(s.value.func.value, ast.Name) and len(s.value.args) == 1 and not s.value.keywords
                and isinstance(s.value.args[0], ast.GeneratorExp) and len(s.value.args[0].generators) == 1 and not s.value.args[0].generators[0].is_async):
            g = s.value.args[0]
            c = g.generators[0]
            app = ast.Expr(value=ast.Call(func=ast.Attribute(value=ast.Name(id=s.value.func.value.id, ctx=ast.Load()), attr='append', ctx=ast.Load()), args=[g.elt], keywords=[]))
            inner = app
            for t in reversed(c.ifs):
                inner = ast.If(test=t, body=[inner], orelse=[])
            loop = ast.For(target=c.target, iter=c.iter, body=[inner], orelse=[])
            for x in ast.walk(loop):
                if not hasattr(x, 'lineno'):
                    ast.copy_location(x, s)
            ast.copy_location(loop, s)
            for x in ast.walk(loop.target):
                if hasattr(x, 'ctx'):
                    x.ctx = ast.Store()
            self.log(s, '`%s.extend(<generator>)` read as the loop that appends' % s.value.func.value.id)
            return [loop]
        # (k) spellings inside expressions: the last item of a one-field unpack is its first; range(0, n) is range(n)
        hit = []
        for x in (_own_nodes(s) if not self.confirmed(s) else ()):
            if isinstance(x, ast.Subscript) and _is_unpack_call(x.value) and isinstance(x.slice, ast.UnaryOp) and isinstance(x.slice.op, ast.USub) \
                    and isinstance(x.slice.operand, ast.Constant) and x.slice.operand.value == 1 and type(x.slice.operand.value) is int:
                x.slice = ast.copy_location(ast.Constant(value=0), x.slice)
                hit.append('`[-1]` of a one-field struct read as `[0]`')
            elif isinstance(x, ast.Call) and isinstance(x.func, ast.Name) and x.func.id == 'range' and len(x.args) == 2 and not x.keywords \
                    and isinstance(x.args[0], ast.Constant) and x.args[0].value == 0 and type(x.args[0].value) is int:
                x.args = [x.args[1]]
                hit.append('`range(0, n)` read as `range(n)`')
            elif isinstance(x, ast.Subscript) and _minus_one(x.slice) and isinstance(x.value, ast.Subscript) and isinstance(x.value.slice, ast.Slice) \
                    and x.value.slice.step is None and _one_long(x.value.slice):
                # X[a:a+1] has no or one element: its last is its first (and the same IndexError when it is empty)
                x.slice = ast.copy_location(ast.Constant(value=0), x.slice)
                hit.append('`[-1]` of a one-element slice read as `[0]`')
            elif isinstance(x, ast.Call) and isinstance(x.func, ast.Name) and x.func.id == 'enumerate' and len(x.args) == 2 and not x.keywords \
                    and isinstance(x.args[1], ast.Constant) and type(x.args[1].value) is int and x.args[1].value == 0:
                x.args = [x.args[0]]
                hit.append('`enumerate(x, 0)` read as `enumerate(x)`')
            elif isinstance(x, ast.Call) and len(x.args) == 1 and not x.keywords and isinstance(x.args[0], ast.Constant) and x.args[0].value == b'' \
                    and _is_bytesio(ast.Call(func=x.func, args=[], keywords=[])):
                x.args = []
                hit.append('`BytesIO(b\'\')` read as `BytesIO()`')
            elif isinstance(x, ast.Call) and isinstance(x.func, ast.Attribute) and x.func.attr in ('find', 'rfind', 'index', 'rindex', 'count', 'startswith') and len(x.args) == 2 \
                    and not x.keywords and isinstance(x.args[1], ast.Constant) and type(x.args[1].value) is int and x.args[1].value == 0:
                x.args = [x.args[0]]
                hit.append('`.%s(x, 0)` read as `.%s(x)` (the search starts at 0 anyway)' % (x.func.attr, x.func.attr))
            elif isinstance(x, ast.Call) and isinstance(x.func, ast.Attribute) and x.func.attr == 'read' and len(x.args) == 1 and not x.keywords and _minus_one(x.args[0]):
                x.args = []
                hit.append('`.read(-1)` read as `.read()` (to the end of the stream)')
            elif isinstance(x, ast.IfExp) and isinstance(x.test, ast.UnaryOp) and isinstance(x.test.op, ast.Not):
                # `A if not T else B` evaluates T's truth once and picks the other arm: `B if T else A`
                x.test, x.body, x.orelse = x.test.operand, x.orelse, x.body
                hit.append('conditional expression with a negated test read with its arms exchanged')
        if hit:
            for h_ in hit:
                self.log(s, h_)
            return [s]
        # (d) one-field struct unpacking by a one-element target
        if (isinstance(s, ast.Assign) and len(s.targets) == 1 and isinstance(s.targets[0], (ast.Tuple, ast.List)) and len(s.targets[0].elts) == 1
                and not isinstance(s.targets[0].elts[0], ast.Starred) and _is_unpack_call(s.value)):
            sub = ast.Subscript(value=s.value, slice=ast.Constant(value=0), ctx=ast.Load())
            a = ast.Assign(targets=[s.targets[0].elts[0]], value=sub)
            ast.copy_location(a, s)
            for x in ast.walk(sub):
                ast.copy_location(x, s)
            self.log(s, 'one-element unpacking of a one-field struct read as `[0]`')
            return [a]
        # (a) assignment expressions
        f = _VALUE_FIELDS.get(type(s))
        e = getattr(s, f, None) if f else None
        if e is not None and any(isinstance(x, ast.NamedExpr) for x in ast.walk(e)):
            names = set()
            hit = first_unconditional(e, ast.NamedExpr, names)
            if hit is not None:
                w, parent, field, index = hit
                inner = any(isinstance(x, ast.NamedExpr) for x in ast.walk(w.value))
                if not inner and w.target.id not in names:
                    a = ast.Assign(targets=[ast.Name(id=w.target.id, ctx=ast.Store())], value=w.value)
                    ast.copy_location(a, s)
                    ast.copy_location(a.targets[0], s)
                    load = ast.Name(id=w.target.id, ctx=ast.Load())
                    ast.copy_location(load, w)
                    if parent is None:
                        setattr(s, f, load)
                    else:
                        _put(parent, field, index, load)
                    self.log(s, 'assignment expression `%s := ...` read as an assignment in front of the statement' % w.target.id)
                    return [a, s]
            # `if A and (x := e) ...:` without else: nested ifs, then the inner one is hoisted on the next round
            if isinstance(s, ast.If) and not s.orelse and isinstance(e, ast.BoolOp) and isinstance(e.op, ast.And) \
                    and not any(isinstance(x, ast.NamedExpr) for x in ast.walk(e.values[0])) \
                    and first_unconditional(e.values[1], ast.NamedExpr) is not None:
                rest = e.values[1] if len(e.values) == 2 else ast.BoolOp(op=ast.And(), values=e.values[1:])
                ast.copy_location(rest, e)
                inner_if = ast.If(test=rest, body=s.body, orelse=[])
                ast.copy_location(inner_if, s)
                s.test = e.values[0]
                s.body = [inner_if]
                self.log(s, 'conjunction with an assignment expression read as nested ifs')
                return [s]
        return None
