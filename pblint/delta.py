"""DELTA: statements of the confirmed tree that are gone.

Every other rule asks "is what the property needs still there, in a shape I can read"; a rule that reads a guard does not
necessarily read the statement under it, and a rule that reads a call does not necessarily read the `return` behind it.
DELTA closes that gap for the one edit that needs no understanding to be suspicious: a statement of a function the
property is anchored in (inventory['anchored'], resolved from properties.jsonl on the confirmed tree) has DISAPPEARED and
nothing took its place - the function's remaining statements are a sub-multiset of the confirmed ones (after LOWER /
DESUGAR / RESTORE, so that a respelling is not a deletion).  Such an edit is either the removal of dead code or a change
of behaviour.  Dead code is decided on the confirmed function itself (stored in the inventory): a statement behind an
unconditional exit of its block, or a store to a local that is overwritten on every path before it is read.  Anything
else is reported UNDECIDED - the property's own rules did not notice the statement, so they cannot vouch for the tree
without it - unless the deletion is of a kind whose effect is certain (see `certain`).
"""
import ast
import json
from collections import Counter

from .desugar import INVENTORY, statement_texts, statement_text_of
from .restore import _always_exits
from . import common

SKIP_NAMES = ('__repr__', '__str__', '__del__')
_inv_cache = {}


def inventory():
    if 'inv' not in _inv_cache:
        with open(INVENTORY) as fh:
            _inv_cache['inv'] = json.load(fh)
    return _inv_cache['inv']


def _parents(tree):
    for n in ast.walk(tree):
        for c in ast.iter_child_nodes(n):
            c._dp = n


def _block_of(node):
    p = getattr(node, '_dp', None)
    if p is None:
        return None, None
    for f in ('body', 'orelse', 'finalbody'):
        b = getattr(p, f, None)
        if isinstance(b, list) and any(x is node for x in b):
            return p, b
    if isinstance(p, ast.ExceptHandler) and any(x is node for x in p.body):
        return p, p.body
    return p, None


def _reads(node, name):
    return any(isinstance(x, ast.Name) and x.id == name and isinstance(x.ctx, ast.Load) for x in ast.walk(node))


def _stores(node, name):
    return any(isinstance(x, ast.Name) and x.id == name and isinstance(x.ctx, (ast.Store, ast.Del)) for x in ast.walk(node))


def _overwritten_before_read(stmts, name):
    """True: on every path through `stmts` the local is assigned again (or the block is left) before it is read.
    False: it may be read, or the end of the block may be reached with the value still live."""
    for s in stmts:
        if isinstance(s, ast.Assign) and all(isinstance(t, ast.Name) for t in s.targets) and any(t.id == name for t in s.targets) and not _reads(s.value, name):
            return True
        if isinstance(s, ast.If):
            if _reads(s.test, name):
                return False
            a = _overwritten_before_read(s.body, name)
            b = _overwritten_before_read(s.orelse, name) if s.orelse else False
            if a and b:
                return True
            if any(_reads(x, name) for x in s.body + s.orelse):
                return False
            continue
        if isinstance(s, (ast.Return, ast.Raise)):
            return not _reads(s, name)
        if _reads(s, name):
            return False
        if isinstance(s, (ast.For, ast.While, ast.Try, ast.With)):
            continue
    return False


def dead(fnode, node):
    """is `node` dead code of the confirmed function?  -> reason or None"""
    owner, blk = _block_of(node)
    if blk is not None:
        k = [i for i, x in enumerate(blk) if x is node][0]
        if any(_always_exits([x]) for x in blk[:k]):
            return 'unreachable: behind an unconditional exit of its block'
    if isinstance(node, (ast.Global, ast.Nonlocal)):
        if not any(_stores(x, nm) for nm in node.names for x in ast.walk(fnode)):
            return 'a %s declaration of names the function only reads' % type(node).__name__.lower()
        return None
    if isinstance(node, ast.Assign) and all(isinstance(t, ast.Name) for t in node.targets) and blk is not None:
        names = [t.id for t in node.targets]
        if any(isinstance(x, (ast.Global, ast.Nonlocal)) for x in ast.walk(fnode)):
            return None
        ok = True
        for nm in names:
            rest = blk[k + 1:]
            cur_owner = owner
            fine = _overwritten_before_read(rest, nm)
            # at the end of the function's own top-level block a local that was never read simply dies
            if not fine and cur_owner is fnode and not any(_reads(x, nm) for x in rest):
                fine = True
            if not fine:
                ok = False
        if ok:
            return 'dead store: %s overwritten (or the function left) on every path before it is read' % ', '.join(names)
    return None


# Functions that ARE the rule sets / failure conditions a property states: every refusal in them is part of the property,
# so a refusal that is gone while its test is still made is a violation, not merely an unexplained edit.
REFUSALS = {
    'C16': ('bitcoin.core.CheckTransaction', 'bitcoin.core.CheckBlock', 'bitcoin.core.CheckBlockHeader', 'bitcoin.core.CheckProofOfWork'),
    'C06': ('bitcoin.core.scripteval._EvalScript', 'bitcoin.core.scripteval._CheckMultiSig', 'bitcoin.core.scripteval.VerifyScript', 'bitcoin.core.scripteval._UnaryOp',
            'bitcoin.core.scripteval._BinOp', 'bitcoin.core.scripteval._CastToBigNum'),
    'C07': ('bitcoin.core.scripteval._EvalScript', 'bitcoin.core.scripteval._CheckMultiSig', 'bitcoin.core.scripteval.VerifyScript', 'bitcoin.core.scripteval._UnaryOp',
            'bitcoin.core.scripteval._BinOp', 'bitcoin.core.scripteval._CastToBigNum', 'bitcoin.core.scripteval.EvalScript'),
    'C17': ('bitcoin.core.CheckProofOfWork',),
    'C08': ('bitcoin.core.script.CScript.raw_iter', 'bitcoin.core.script.CScriptOp.encode_op_n', 'bitcoin.core.script.CScriptOp.decode_op_n', 'bitcoin.core.script.CScriptOp.encode_op_pushdata'),
    'C05': ('bitcoin.core.scripteval._CheckMultiSig', 'bitcoin.core.scripteval.VerifyScript', 'bitcoin.core.scripteval.VerifySignature'),
    'C12': ('bitcoin.wallet.CBitcoinAddress.__new__', 'bitcoin.wallet.CBech32BitcoinAddress.from_bytes', 'bitcoin.wallet.CBase58BitcoinAddress.from_bytes',
            'bitcoin.wallet.P2SHBitcoinAddress.from_scriptPubKey', 'bitcoin.wallet.P2PKHBitcoinAddress.from_scriptPubKey', 'bitcoin.wallet.P2WSHBitcoinAddress.from_scriptPubKey',
            'bitcoin.wallet.P2WPKHBitcoinAddress.from_scriptPubKey', 'bitcoin.wallet.CBitcoinAddress.from_scriptPubKey'),
    'C19': ('bitcoin.rpc.Proxy.getblock', 'bitcoin.rpc.Proxy.getblockheader', 'bitcoin.rpc.BaseProxy._call'),
    'C18': ('bitcoin.messages.MsgSerializable.stream_deserialize',),
    'C01': ('bitcoin.core.serialize.ser_read', 'bitcoin.core.serialize.Serializable.deserialize'),
    'C10': ('bitcoin.base58.decode', 'bitcoin.base58.CBase58Data.__new__', 'bitcoin.base58.CBase58Data.from_bytes'),
    'C11': ('bitcoin.bech32.CBech32Data.__new__', 'bitcoin.bech32.CBech32Data.from_bytes'),
}


def certain(prop, q, old_fn, node, new_fn):
    """deletions whose effect on the property is certain -> text or None: a `raise` (or a call of the interpreter's
    err_raiser) directly under a test, in a function of the property's rule set, where the test is still made"""
    if q not in REFUSALS.get(prop, ()):
        return None
    if isinstance(node, ast.If) and not node.orelse and len(node.body) == 1:
        # the whole guard clause `if T: raise ...` is gone
        inner = node.body[0]
        ref = isinstance(inner, ast.Raise) or (isinstance(inner, ast.Expr) and isinstance(inner.value, ast.Call) and isinstance(inner.value.func, ast.Name) and inner.value.func.id == 'err_raiser')
        if ref and not (isinstance(inner, ast.Raise) and inner.exc is not None and 'AssertionError' in ast.unparse(inner.exc)) and 'len(commit_script)' not in ast.unparse(node.test):
            return 'the guard clause `if %s: %s` of the confirmed %s is gone: what it turned away now goes through' % (ast.unparse(node.test)[:60], ast.unparse(inner)[:50], q.rsplit('.', 1)[-1])
        return None
    is_refusal = isinstance(node, ast.Raise) or (isinstance(node, ast.Expr) and isinstance(node.value, ast.Call) and isinstance(node.value.func, ast.Name) and node.value.func.id == 'err_raiser')
    if not is_refusal:
        return None
    if isinstance(node, ast.Raise) and node.exc is not None and 'AssertionError' in ast.unparse(node.exc):
        return None  # an internal invariant, not a refusal of input
    owner, blk = _block_of(node)
    if isinstance(owner, ast.If) and 'len(commit_script)' in ast.unparse(owner.test):
        return None  # stricter than the property states (any commitment output of 38 bytes or more carries the commitment)
    if isinstance(owner, ast.ExceptHandler) and prop != 'C19':
        return None  # what the handler reported may be refused again further down (another message, the same error family)
    if isinstance(owner, ast.ExceptHandler) and blk is not None and len([x for x in blk if not isinstance(x, ast.Pass)]) == 1:
        ty = ast.unparse(owner.type) if owner.type is not None else ''
        if any(isinstance(n, ast.ExceptHandler) and (ast.unparse(n.type) if n.type is not None else '') == ty and all(isinstance(x, ast.Pass) for x in n.body) for n in ast.walk(new_fn)):
            return 'the handler `except %s` no longer raises (`%s` is gone): the failure it reported is swallowed and %s carries on' % (ty, ast.unparse(node)[:50], q.rsplit('.', 1)[-1])
        return None
    if not isinstance(owner, ast.If) or blk is None or len([x for x in blk if not isinstance(x, ast.Pass)]) != 1:
        return None
    t = ast.unparse(owner.test)
    still = any(isinstance(n, ast.If) and ast.unparse(n.test) in (t, 'not %s' % t, 'not (%s)' % t) for n in ast.walk(new_fn))
    if not still:
        return None
    return 'the refusal `%s` under `%s` is gone while the test is still made: what the confirmed %s turns away now goes through' % (ast.unparse(node)[:60], t[:60], q.rsplit('.', 1)[-1])


def scope(prop):
    """the functions DELTA and TOKEN look at for a property: the anchored ones and the other methods of the classes they
    belong to (a class is read and written through its sibling methods: constructor, copy helpers, public wrappers)"""
    inv = inventory()
    anchored = list(inv.get('anchored', {}).get(prop, []))
    out = list(anchored)
    for mname, m in inv['modules'].items():
        for cn in m['classes']:
            full = '%s.%s.' % (mname, cn)
            if any(q.startswith(full) for q in anchored):
                for q in m['functions']:
                    if q.startswith(full) and '<locals>' not in q and q not in out:
                        out.append(q)
    # ... and what they call by name: module-level helpers of the same module, and methods of library classes named
    # directly (Serializer classes, helpers such as _ROTL32), two levels deep
    by_class = {}
    by_func = {}
    for mname, m in inv['modules'].items():
        for q in m['functions']:
            parts = q[len(mname) + 1:].split('.')
            if len(parts) == 1:
                by_func.setdefault((mname, parts[0]), q)
                by_func.setdefault((None, parts[0]), q)
            elif len(parts) == 2:
                by_class.setdefault((parts[0], parts[1]), []).append(q)
    frontier = list(out)
    for _ in range(2):
        new = []
        for q in frontier:
            src = None
            mod = None
            for mname, m in inv['modules'].items():
                if q in m['functions']:
                    src, mod = m['functions'][q].get('source'), mname
            if not src:
                continue
            try:
                tree = ast.parse(src)
            except SyntaxError:
                continue
            for c in ast.walk(tree):
                if not isinstance(c, ast.Call):
                    continue
                f = c.func
                cand = None
                if isinstance(f, ast.Name):
                    cand = by_func.get((mod, f.id))
                elif isinstance(f, ast.Attribute) and isinstance(f.value, (ast.Name, ast.Attribute)):
                    cname = f.value.id if isinstance(f.value, ast.Name) else f.value.attr
                    if cname[:1].isupper() or cname[:1] == '_' or cname.startswith('uint'):
                        qs = by_class.get((cname, f.attr), [])
                        cand = qs[0] if len(qs) == 1 else None
                if cand and cand not in out and cand not in new:
                    new.append(cand)
        out.extend(new)
        frontier = new
    return [q for q in out if q.rsplit('.', 1)[-1] not in SKIP_NAMES]


def _hdr(t):
    """compound-statement headers are compared without their polarity: emptying one branch of an if (which LOWER then
    reads as the negated test) removes the branch's statements, not the test"""
    if t.startswith('if not '):
        x = t[7:]
        if x.startswith('(') and x.endswith(')'):
            try:
                ast.parse(x[1:-1], mode='eval')
                x = x[1:-1]
            except SyntaxError:
                pass
        return 'if ' + x
    return t


def rule_delta(ctx, rid):
    inv = inventory()
    anchored = scope(ctx.prop)
    r = ctx.rule(rid, 'no live statement of a function the property is anchored in has disappeared without replacement', engine='DELTA', floor=max(1, len(anchored) // 2))
    for q in anchored:
        mod = q
        known = None
        for mname, m in inv['modules'].items():
            if q in m['functions']:
                known = m['functions'][q]
        fi = ctx.repo.functions.get(q)
        key = q.replace('bitcoin.', '')
        if known is None or not known.get('source'):
            continue
        if fi is None and '<locals>' in q:
            continue
        if fi is None:
            r.undecided('gone:%s' % key, '', 'the function %s of the confirmed tree no longer exists (and was not inlined away)' % q)
            continue
        a = Counter(_hdr(t) for t in known.get('stmts', []))
        b = Counter(_hdr(t) for t in statement_texts(fi.node))
        removed = a - b
        added = b - a
        if not removed:
            r.ok(key, fi.site, 'every statement of the confirmed function is present')
            continue
        if added:
            r.ok(key, fi.site, 'edited (statements replaced, not only removed): left to the property\'s own rules and the structural-distance policy')
            continue
        old = ast.parse(known['source']).body[0]
        _parents(old)
        todo = Counter(removed)
        gone = []
        for n in ast.walk(old):
            if n is old:
                continue
            t = statement_text_of(n)
            t = _hdr(t) if t is not None else None
            if t is not None and todo.get(t, 0) > 0:
                todo[t] -= 1
                gone.append((n, t))
        live = []
        for n, t in gone:
            # a statement inside a compound statement that is gone as a whole is accounted for by that statement
            p = getattr(n, '_dp', None)
            inside_gone = False
            while p is not None and p is not old:
                if any(p is g for g, _ in gone):
                    inside_gone = True
                p = getattr(p, '_dp', None)
            if inside_gone:
                continue
            why = dead(old, n)
            if why is None:
                live.append((n, t))
            else:
                r.note('%s: `%s` removed, %s' % (key, t[:60], why))
        if not live:
            r.ok(key, fi.site, 'only dead statements were removed')
            continue
        for n, t in live:
            sure_text = certain(ctx.prop, q, old, n, fi.node)
            if sure_text:
                r.violated('gone:%s:%s' % (key, t[:50]), fi.site, sure_text, sure=True)
                continue
            r.undecided('gone:%s:%s' % (key, t[:50]), fi.site, 'the statement `%s` of the confirmed %s is gone and nothing replaces it; it is not dead code there, '
                        'and no rule of this property reads it' % (t[:80], fi.name))
