"""Program model of python-bitcoinlib, rebuilt from source on every run (DESIGN.md section 2).

Nothing in here imports or executes the library: everything is derived from `ast`.
"""
import ast
import os
import binascii

EXCLUDE_DIRS = {'tests', '__pycache__'}


class _Unknown(object):
    __slots__ = ()

    def __repr__(self):
        return 'UNKNOWN'

    def __bool__(self):
        raise TypeError('UNKNOWN has no truth value')


UNKNOWN = _Unknown()


class AnalysisError(Exception):
    """The analysis cannot be carried out (vanished anchor, unparsable file, ...): exit 2."""


class OpInt(int):
    """An int produced by calling an int subclass of the library (CScriptOp(n))."""
    cls = None

    def __new__(cls, v, klass=None):
        self = int.__new__(cls, v)
        self.cls = klass
        return self

    def __repr__(self):
        return 'Op(0x%x)' % int(self)


class ClassRef(object):
    def __init__(self, info):
        self.info = info

    def __repr__(self):
        return '<class %s>' % self.info.qualname

    def __eq__(self, o):
        return isinstance(o, ClassRef) and o.info is self.info

    def __hash__(self):
        return hash(id(self.info))


class FuncRef(object):
    def __init__(self, info):
        self.info = info

    def __repr__(self):
        return '<function %s>' % self.info.qualname

    def __eq__(self, o):
        return isinstance(o, FuncRef) and o.info is self.info

    def __hash__(self):
        return hash(id(self.info))


class ModuleRef(object):
    def __init__(self, info):
        self.info = info

    def __repr__(self):
        return '<module %s>' % self.info.name


class Instance(object):
    """Result of calling a library class with folded arguments."""

    def __init__(self, cls, args=(), kwargs=None):
        self.cls = cls
        self.args = args
        self.kwargs = kwargs or {}

    def __repr__(self):
        return '<instance of %s>' % self.cls.qualname


class StructVal(object):
    def __init__(self, fmt):
        self.fmt = fmt

    def __repr__(self):
        return 'Struct(%r)' % (self.fmt,)


class Token(object):
    """object() sentinels (SCRIPT_VERIFY_* flags)."""

    def __init__(self, name):
        self.name = name

    def __repr__(self):
        return '<token %s>' % self.name


class ExternalRef(object):
    """A name that resolves outside the library (stdlib module, builtin)."""

    def __init__(self, name):
        self.name = name

    def __repr__(self):
        return '<external %s>' % self.name

    def __eq__(self, o):
        return isinstance(o, ExternalRef) and o.name == self.name

    def __hash__(self):
        return hash(self.name)


class FunctionInfo(object):
    def __init__(self, module, cls, node, qualname, parent=None):
        self.module = module
        self.cls = cls
        self.node = node
        self.name = node.name
        self.qualname = qualname
        self.parent = parent  # enclosing FunctionInfo for closures
        self.nested = {}
        self.kind = 'function'  # function | method | classmethod | staticmethod | property
        self.decorators = []
        for d in node.decorator_list:
            self.decorators.append(d)
            if isinstance(d, ast.Name):
                if d.id == 'classmethod':
                    self.kind = 'classmethod'
                elif d.id == 'staticmethod':
                    self.kind = 'staticmethod'
                elif d.id == 'property':
                    self.kind = 'property'
        if cls is not None and self.kind == 'function' and parent is None:
            self.kind = 'method'

    @property
    def params(self):
        a = self.node.args
        return [x.arg for x in a.posonlyargs + a.args]

    @property
    def site(self):
        return '%s:%d' % (self.module.relpath, self.node.lineno)

    def defaults(self):
        """name -> default expr"""
        a = self.node.args
        names = [x.arg for x in a.posonlyargs + a.args]
        out = {}
        for n, d in zip(names[len(names) - len(a.defaults):], a.defaults):
            out[n] = d
        for n, d in zip(a.kwonlyargs, a.kw_defaults):
            if d is not None:
                out[n.arg] = d
        return out

    def __repr__(self):
        return '<FunctionInfo %s>' % self.qualname


class ClassInfo(object):
    def __init__(self, module, node, qualname):
        self.module = module
        self.node = node
        self.name = node.name
        self.qualname = qualname
        self.methods = {}
        self.attrs = {}  # name -> list of (expr, lineno) in class body order
        self.base_exprs = node.bases
        self.bases = []  # ClassInfo or str (external)
        self._mro = None
        self.decorators = node.decorator_list
        self.slots = None

    @property
    def site(self):
        return '%s:%d' % (self.module.relpath, self.node.lineno)

    def mangle(self, name):
        if name.startswith('__') and not name.endswith('__'):
            return '_%s%s' % (self.name.lstrip('_'), name)
        return name

    def __repr__(self):
        return '<ClassInfo %s>' % self.qualname


class ModuleInfo(object):
    def __init__(self, name, path, relpath, is_pkg):
        self.name = name
        self.path = path
        self.relpath = relpath
        self.is_pkg = is_pkg
        with open(path, 'rb') as fh:
            self.src = fh.read().decode('utf8')
        try:
            self.tree = ast.parse(self.src, filename=path)
        except SyntaxError as e:
            raise AnalysisError('cannot parse %s: %s' % (relpath, e))
        self.lines = self.src.splitlines()
        self.bindings = {}  # name -> list of binding tuples in order
        self.star_imports = []  # module names
        self.functions = {}
        self.classes = {}
        self.all_names = None

    def __repr__(self):
        return '<ModuleInfo %s>' % self.name

    def segment(self, node):
        return ast.get_source_segment(self.src, node)


def _add_parents(tree):
    for node in ast.walk(tree):
        for child in ast.iter_child_nodes(node):
            child._parent = node


class Repo(object):
    def __init__(self, root, package='bitcoin', include_examples=False, desugar=True):
        self.root = root
        self.desugar_log = []
        self.known_functions = None
        self.package = package
        self.modules = {}
        self.functions = {}
        self.classes = {}
        self._fold_memo = {}
        self._folding = set()
        pkgdir = os.path.join(root, package)
        if not os.path.isdir(pkgdir):
            raise AnalysisError('package directory %s not found' % pkgdir)
        for dirpath, dirnames, filenames in os.walk(pkgdir):
            dirnames[:] = sorted(d for d in dirnames if d not in EXCLUDE_DIRS)
            for fn in sorted(filenames):
                if not fn.endswith('.py'):
                    continue
                path = os.path.join(dirpath, fn)
                rel = os.path.relpath(path, root)
                parts = rel[:-3].split(os.sep)
                is_pkg = parts[-1] == '__init__'
                if is_pkg:
                    parts = parts[:-1]
                name = '.'.join(parts)
                self.modules[name] = ModuleInfo(name, path, rel, is_pkg)
        self._index_all()
        if desugar:
            from pblint import desugar as _ds
            if os.path.exists(_ds.INVENTORY):
                try:
                    d_ = _ds.Desugar(self)
                    self.known_functions = {q for mv in d_.inv.values() for q in mv['functions']}
                    self.desugar_log = d_.run()
                except RecursionError:
                    raise AnalysisError('desugaring pre-pass did not terminate')
                if self.desugar_log:
                    for m in self.modules.values():
                        ast.fix_missing_locations(m.tree)
                    self._index_all()

    def _index_all(self):
        self.functions = {}
        self.classes = {}
        self._fold_memo = {}
        self._folding = set()
        for m in self.modules.values():
            m.bindings = {}
            m.star_imports = []
            m.functions = {}
            m.classes = {}
            m.all_names = None
            _add_parents(m.tree)
            self._index_module(m)
        for c in list(self.classes.values()):
            self._resolve_bases(c)

    # ------------------------------------------------------------------ indexing
    def _index_module(self, m):
        for stmt in m.tree.body:
            self._index_stmt(m, stmt)

    def _bind(self, m, name, binding):
        m.bindings.setdefault(name, []).append(binding)

    def _index_stmt(self, m, stmt):
        if isinstance(stmt, ast.Import):
            for a in stmt.names:
                if a.asname:
                    self._bind(m, a.asname, ('module', a.name))
                else:
                    self._bind(m, a.name.split('.')[0], ('module', a.name.split('.')[0]))
        elif isinstance(stmt, ast.ImportFrom):
            base = self._abs_module(m, stmt.module, stmt.level)
            for a in stmt.names:
                if a.name == '*':
                    m.star_imports.append(base)
                else:
                    self._bind(m, a.asname or a.name, ('from', base, a.name))
        elif isinstance(stmt, (ast.FunctionDef, ast.AsyncFunctionDef)):
            fi = self._index_function(m, None, stmt, m.name + '.' + stmt.name, None)
            m.functions[stmt.name] = fi
            self._bind(m, stmt.name, ('def', fi))
        elif isinstance(stmt, ast.ClassDef):
            ci = self._index_class(m, stmt)
            self._bind(m, stmt.name, ('class', ci))
        elif isinstance(stmt, ast.Assign):
            for t in stmt.targets:
                self._bind_target(m, t, stmt.value, stmt)
            if (len(stmt.targets) == 1 and isinstance(stmt.targets[0], ast.Name)
                    and stmt.targets[0].id == '__all__'):
                v = stmt.value
                if isinstance(v, (ast.Tuple, ast.List)):
                    names = []
                    for e in v.elts:
                        if isinstance(e, ast.Constant) and isinstance(e.value, str):
                            names.append(e.value)
                    m.all_names = names
        elif isinstance(stmt, ast.AugAssign):
            if isinstance(stmt.target, ast.Name):
                self._bind(m, stmt.target.id, ('augassign', stmt.op, stmt.value, stmt))
        elif isinstance(stmt, ast.Expr):
            v = stmt.value
            # NAME.update({...})
            if (isinstance(v, ast.Call) and isinstance(v.func, ast.Attribute)
                    and isinstance(v.func.value, ast.Name) and v.func.attr in ('update', 'append', 'add')):
                self._bind(m, v.func.value.id, ('mutate', v.func.attr, v.args, stmt))
        elif isinstance(stmt, (ast.If, ast.Try)):
            # conditional module-level definitions: index bodies conservatively
            for sub in getattr(stmt, 'body', []) + getattr(stmt, 'orelse', []):
                self._index_stmt(m, sub)
        elif isinstance(stmt, ast.For):
            # module-level loops: record as opaque mutation of the names stored into
            for sub in ast.walk(stmt):
                if isinstance(sub, ast.Subscript) and isinstance(sub.ctx, ast.Store) and isinstance(sub.value, ast.Name):
                    self._bind(m, sub.value.id, ('loopstore', stmt))

    def _bind_target(self, m, t, value, stmt):
        if isinstance(t, ast.Name):
            self._bind(m, t.id, ('assign', value, stmt))
        elif isinstance(t, (ast.Tuple, ast.List)):
            for i, e in enumerate(t.elts):
                if isinstance(e, ast.Name):
                    self._bind(m, e.id, ('unpack', value, i, stmt))
        elif isinstance(t, ast.Attribute):
            # a.b.c = value at module level (bitcoin.core.coreparams = X) - not a binding of this module
            pass

    def _abs_module(self, m, modname, level):
        if level == 0:
            return modname
        parts = m.name.split('.')
        if not m.is_pkg:
            parts = parts[:-1]
        if level > 1:
            parts = parts[:-(level - 1)]
        if modname:
            parts = parts + modname.split('.')
        return '.'.join(parts)

    def _index_function(self, m, cls, node, qualname, parent):
        fi = FunctionInfo(m, cls, node, qualname, parent)
        self.functions[qualname] = fi
        for sub in self._direct_defs(node.body):
            if isinstance(sub, (ast.FunctionDef, ast.AsyncFunctionDef)):
                n = self._index_function(m, cls, sub, qualname + '.<locals>.' + sub.name, fi)
                fi.nested[sub.name] = n
        return fi

    def _direct_defs(self, body):
        """function/class definitions nested anywhere in body but not inside another def"""
        out = []
        stack = list(body)
        while stack:
            s = stack.pop(0)
            if isinstance(s, (ast.FunctionDef, ast.AsyncFunctionDef, ast.ClassDef)):
                out.append(s)
                continue
            for f in ('body', 'orelse', 'finalbody', 'handlers'):
                for c in getattr(s, f, []) or []:
                    if isinstance(c, ast.ExceptHandler):
                        stack.extend(c.body)
                    elif isinstance(c, ast.stmt):
                        stack.append(c)
        return out

    def _index_class(self, m, node):
        ci = ClassInfo(m, node, m.name + '.' + node.name)
        self.classes[ci.qualname] = ci
        m.classes[node.name] = ci
        for stmt in node.body:
            if isinstance(stmt, (ast.FunctionDef, ast.AsyncFunctionDef)):
                fi = self._index_function(m, ci, stmt, ci.qualname + '.' + stmt.name, None)
                ci.methods[stmt.name] = fi
            elif isinstance(stmt, ast.Assign):
                for t in stmt.targets:
                    if isinstance(t, ast.Name):
                        ci.attrs.setdefault(ci.mangle(t.id), []).append((stmt.value, stmt))
                        if t.id == '__slots__' and isinstance(stmt.value, (ast.List, ast.Tuple)):
                            ci.slots = [e.value for e in stmt.value.elts if isinstance(e, ast.Constant)]
        return ci

    def _resolve_bases(self, c):
        c.bases = []
        for b in c.base_exprs:
            v = self.fold(b, c.module)
            if isinstance(v, ClassRef):
                c.bases.append(v.info)
            else:
                c.bases.append(ast.unparse(b))

    # ------------------------------------------------------------------ classes
    def mro(self, c):
        if c._mro is not None:
            return c._mro
        seqs = []
        for b in c.bases:
            if isinstance(b, ClassInfo):
                seqs.append(list(self.mro(b)))
            else:
                seqs.append([b])
        seqs.append(list(c.bases))
        def same(a, b):
            return a is b or (isinstance(a, str) and isinstance(b, str) and a == b)

        res = [c]
        seqs = [list(s) for s in seqs if s]
        while seqs:
            cand = None
            for s in seqs:
                h = s[0]
                if not any(same(h, x) for t in seqs for x in t[1:]):
                    cand = h
                    break
            if cand is None:
                raise AnalysisError('inconsistent MRO for %s' % c.qualname)
            res.append(cand)
            for s in seqs:
                if same(s[0], cand):
                    del s[0]
            seqs = [s for s in seqs if s]
        c._mro = res
        return res

    def is_subclass(self, c, other):
        """other: ClassInfo or external name string"""
        for k in self.mro(c):
            if k is other or k == other:
                return True
            if isinstance(other, str) and isinstance(k, ClassInfo) and k.name == other:
                return True
        return False

    def lookup_method(self, c, name, after=None):
        """Resolve method `name` on class c through the MRO (after class `after` if given)."""
        mro = self.mro(c)
        if after is not None:
            idx = None
            for i, k in enumerate(mro):
                if k is after:
                    idx = i
            if idx is None:
                return None
            mro = mro[idx + 1:]
        for k in mro:
            if isinstance(k, ClassInfo) and name in k.methods:
                return k.methods[name]
        return None

    def lookup_class_attr(self, c, name):
        """-> (owner ClassInfo, expr, stmt) of the last assignment in the first class of the MRO defining it"""
        for k in self.mro(c):
            if isinstance(k, ClassInfo):
                for nm in (name, k.mangle(name)):
                    if nm in k.attrs:
                        e, s = k.attrs[nm][-1]
                        return k, e, s
        return None

    def class_attr_value(self, c, name):
        r = self.lookup_class_attr(c, name)
        if r is None:
            m = self.lookup_method(c, name)
            if m is not None:
                return FuncRef(m)
            return UNKNOWN
        owner, e, _ = r
        return self.fold(e, owner.module, cls=owner)

    def subclasses(self, c):
        return [k for k in self.classes.values() if k is not c and self.is_subclass(k, c)]

    def get_class(self, qualname):
        c = self.classes.get(qualname)
        if c is None:
            raise AnalysisError('anchor class %s not found' % qualname)
        return c

    def get_function(self, qualname):
        f = self.functions.get(qualname)
        if f is None:
            raise AnalysisError('anchor function %s not found' % qualname)
        return f

    def get_module(self, name):
        m = self.modules.get(name)
        if m is None:
            raise AnalysisError('anchor module %s not found' % name)
        return m

    def find_method(self, class_qualname, name):
        c = self.get_class(class_qualname)
        f = self.lookup_method(c, name)
        if f is None:
            raise AnalysisError('anchor method %s.%s not found' % (class_qualname, name))
        return f

    # ------------------------------------------------------------------ name resolution
    def module_value(self, m, name, _depth=0):
        """Folded value of module-level name (after all module-level statements)."""
        key = ('mv', m.name, name)
        if key in self._fold_memo:
            return self._fold_memo[key]
        if key in self._folding:
            return UNKNOWN
        self._folding.add(key)
        try:
            v = self._module_value(m, name)
        finally:
            self._folding.discard(key)
        self._fold_memo[key] = v
        return v

    def _module_value(self, m, name):
        bl = m.bindings.get(name)
        if bl:
            val = UNKNOWN
            for b in bl:
                kind = b[0]
                if kind == 'module':
                    mod = self.modules.get(b[1])
                    val = ModuleRef(mod) if mod else ExternalRef(b[1])
                elif kind == 'from':
                    base, attr = b[1], b[2]
                    sub = self.modules.get(base + '.' + attr)
                    mod = self.modules.get(base)
                    if mod is not None:
                        v = self.module_value(mod, attr)
                        if v is UNKNOWN and sub is not None:
                            v = ModuleRef(sub)
                        val = v
                    elif sub is not None:
                        val = ModuleRef(sub)
                    else:
                        val = ExternalRef(base + '.' + attr)
                elif kind == 'def':
                    val = FuncRef(b[1])
                elif kind == 'class':
                    val = ClassRef(b[1])
                elif kind == 'assign':
                    val = self.fold(b[1], m)
                elif kind == 'unpack':
                    v = self.fold(b[1], m)
                    val = v[b[2]] if isinstance(v, (tuple, list)) and len(v) > b[2] else UNKNOWN
                elif kind == 'augassign':
                    rhs = self.fold(b[2], m)
                    val = self._binop(b[1], val, rhs)
                elif kind == 'mutate':
                    meth, args = b[1], b[2]
                    if meth == 'update' and isinstance(val, dict) and len(args) == 1:
                        a = self.fold(args[0], m)
                        if isinstance(a, dict):
                            val = dict(val)
                            val.update(a)
                        else:
                            val = UNKNOWN
                    elif meth == 'append' and isinstance(val, list) and len(args) == 1:
                        val = val + [self.fold(args[0], m)]
                    elif meth == 'add' and isinstance(val, (set, frozenset)) and len(args) == 1:
                        val = set(val) | {self.fold(args[0], m)}
                    else:
                        val = UNKNOWN
                elif kind == 'loopstore':
                    val = UNKNOWN
            return val
        # submodule of a package
        sub = self.modules.get(m.name + '.' + name)
        if sub is not None and m.is_pkg:
            return ModuleRef(sub)
        for sm in m.star_imports:
            mod = self.modules.get(sm)
            if mod is None:
                continue
            if mod.all_names is not None and name not in mod.all_names:
                continue
            if mod.all_names is None and name.startswith('_'):
                continue
            v = self.module_value(mod, name)
            if v is not UNKNOWN:
                return v
            if name in mod.bindings:
                return v
        return UNKNOWN

    def defining_module(self, m, name, _seen=None):
        """Which module's own binding does `name` (looked up in m) come from? -> (ModuleInfo, name) or None"""
        _seen = _seen or set()
        if (m.name, name) in _seen:
            return None
        _seen.add((m.name, name))
        bl = m.bindings.get(name)
        if bl:
            b = bl[-1]
            if b[0] == 'from':
                mod = self.modules.get(b[1])
                if mod is not None:
                    return self.defining_module(mod, b[2], _seen)
                return None
            return (m, name)
        for sm in m.star_imports:
            mod = self.modules.get(sm)
            if mod is None:
                continue
            if mod.all_names is not None and name not in mod.all_names:
                continue
            r = self.defining_module(mod, name, _seen)
            if r is not None:
                return r
        return None

    # ------------------------------------------------------------------ constant folding
    BUILTIN_NAMES = {'True': True, 'False': False, 'None': None}

    def fold(self, expr, module, cls=None, env=None):
        """Fold an expression to a Python value (or a *Ref), UNKNOWN if not constant."""
        try:
            return self._fold(expr, module, cls, env or {})
        except (TypeError, ValueError, OverflowError, ZeroDivisionError, IndexError, KeyError, AttributeError):
            return UNKNOWN

    def _fold(self, e, m, cls, env):
        f = lambda x: self._fold(x, m, cls, env)
        if isinstance(e, ast.Constant):
            return e.value
        if '$x' in env and isinstance(e, (ast.Call, ast.Attribute, ast.Subscript)):
            # expression-text overrides supplied by a decision-table enumeration (e.g. len(txTo.vout) -> 2)
            t = ast.unparse(e)
            if t in env['$x']:
                return env['$x'][t]
        if isinstance(e, ast.Name):
            if e.id in env:
                return env[e.id]
            if e.id in self.BUILTIN_NAMES:
                return self.BUILTIN_NAMES[e.id]
            v = self.module_value(m, e.id)
            if v is UNKNOWN and e.id in ('int', 'bytes', 'object', 'str', 'bytearray', 'Exception', 'tuple', 'list',
                                        'dict', 'set', 'frozenset', 'len', 'min', 'max', 'range', 'struct', 'hash',
                                        'isinstance', 'bool', 'float', 'EnvironmentError', 'ValueError'):
                return ExternalRef(e.id)
            return v
        if isinstance(e, ast.Attribute):
            if cls is not None and isinstance(e.value, ast.Name) and e.value.id in ('self', 'cls') and e.value.id not in env:
                # class-level constant read through the instance (self.MAX_HASH_FUNCS)
                r_ = self.lookup_class_attr(cls, e.attr)
                if r_ is not None:
                    return self.fold(r_[1], r_[0].module, cls=r_[0])
                return UNKNOWN
            base = f(e.value)
            return self.attr_value(base, e.attr, cls)
        if isinstance(e, ast.Tuple):
            vals = [f(x) for x in e.elts]
            return tuple(vals)
        if isinstance(e, ast.List):
            return [f(x) for x in e.elts]
        if isinstance(e, ast.Set):
            vals = [f(x) for x in e.elts]
            if any(v is UNKNOWN for v in vals):
                return UNKNOWN
            return set(vals)
        if isinstance(e, ast.Dict):
            d = {}
            for k, v in zip(e.keys, e.values):
                if k is None:
                    return UNKNOWN
                kk = f(k)
                if kk is UNKNOWN:
                    return UNKNOWN
                d[kk] = f(v)
            return d
        if isinstance(e, ast.UnaryOp):
            v = f(e.operand)
            if v is UNKNOWN:
                return UNKNOWN
            if isinstance(e.op, ast.USub):
                return -v
            if isinstance(e.op, ast.UAdd):
                return +v
            if isinstance(e.op, ast.Invert):
                return ~v
            if isinstance(e.op, ast.Not):
                return not v
        if isinstance(e, ast.BinOp):
            return self._binop(e.op, f(e.left), f(e.right))
        if isinstance(e, ast.BoolOp):
            vals = [f(x) for x in e.values]
            if any(v is UNKNOWN for v in vals):
                return UNKNOWN
            if isinstance(e.op, ast.And):
                r = True
                for v in vals:
                    r = v
                    if not v:
                        break
                return r
            r = False
            for v in vals:
                r = v
                if v:
                    break
            return r
        if isinstance(e, ast.Compare):
            left = f(e.left)
            for op, right in zip(e.ops, e.comparators):
                r = f(right)
                if left is UNKNOWN or r is UNKNOWN:
                    return UNKNOWN
                ok = self._cmp(op, left, r)
                if ok is UNKNOWN:
                    return UNKNOWN
                if not ok:
                    return False
                left = r
            return True
        if isinstance(e, ast.Subscript):
            base = f(e.value)
            if base is UNKNOWN:
                return UNKNOWN
            if isinstance(e.slice, ast.Slice):
                lo = f(e.slice.lower) if e.slice.lower else None
                hi = f(e.slice.upper) if e.slice.upper else None
                st = f(e.slice.step) if e.slice.step else None
                if UNKNOWN in (lo, hi, st):
                    return UNKNOWN
                return base[lo:hi:st]
            idx = f(e.slice)
            if idx is UNKNOWN:
                return UNKNOWN
            return base[idx]
        if isinstance(e, ast.Call):
            return self._fold_call(e, m, cls, env)
        if isinstance(e, ast.IfExp):
            t = f(e.test)
            if t is UNKNOWN:
                return UNKNOWN
            return f(e.body) if t else f(e.orelse)
        return UNKNOWN

    def _binop(self, op, a, b):
        if a is UNKNOWN or b is UNKNOWN:
            return UNKNOWN
        try:
            if isinstance(op, ast.Add):
                return a + b
            if isinstance(op, ast.Sub):
                return a - b
            if isinstance(op, ast.Mult):
                if isinstance(a, (bytes, str, list, tuple)) and isinstance(b, int) and b > 1 << 20:
                    return UNKNOWN
                return a * b
            if isinstance(op, ast.Div):
                return a / b
            if isinstance(op, ast.FloorDiv):
                return a // b
            if isinstance(op, ast.Mod):
                if isinstance(a, (str, bytes)):
                    return UNKNOWN
                return a % b
            if isinstance(op, ast.Pow):
                if isinstance(b, int) and abs(b) > 4096:
                    return UNKNOWN
                return a ** b
            if isinstance(op, ast.LShift):
                if b > 4096:
                    return UNKNOWN
                return a << b
            if isinstance(op, ast.RShift):
                return a >> b
            if isinstance(op, ast.BitOr):
                return a | b
            if isinstance(op, ast.BitAnd):
                return a & b
            if isinstance(op, ast.BitXor):
                return a ^ b
        except Exception:
            return UNKNOWN
        return UNKNOWN

    def _cmp(self, op, a, b):
        try:
            if isinstance(op, ast.Eq):
                return a == b
            if isinstance(op, ast.NotEq):
                return a != b
            if isinstance(op, ast.Lt):
                return a < b
            if isinstance(op, ast.LtE):
                return a <= b
            if isinstance(op, ast.Gt):
                return a > b
            if isinstance(op, ast.GtE):
                return a >= b
            if isinstance(op, ast.In):
                return a in b
            if isinstance(op, ast.NotIn):
                return a not in b
            if isinstance(op, ast.Is):
                return a is b or (a == b and isinstance(a, (ClassRef, FuncRef)))
            if isinstance(op, ast.IsNot):
                return not (a is b or (a == b and isinstance(a, (ClassRef, FuncRef))))
        except Exception:
            return UNKNOWN
        return UNKNOWN

    def attr_value(self, base, attr, cls=None):
        if base is UNKNOWN:
            return UNKNOWN
        if isinstance(base, ModuleRef):
            return self.module_value(base.info, attr)
        if isinstance(base, ClassRef):
            return self.class_attr_value(base.info, attr)
        if isinstance(base, Instance):
            return self.class_attr_value(base.cls, attr)
        if isinstance(base, ExternalRef):
            return ExternalRef(base.name + '.' + attr)
        if isinstance(base, StructVal) and attr == 'size':
            import struct as _s
            return _s.calcsize(base.fmt)
        return UNKNOWN

    def _fold_call(self, e, m, cls, env):
        f = lambda x: self._fold(x, m, cls, env)
        if isinstance(e.func, ast.Attribute) and e.func.attr in ('to_bytes', 'from_bytes') and not any(isinstance(a, ast.Starred) for a in e.args):
            # <int constant>.to_bytes(n, order[, signed=])  /  int.from_bytes(<bytes constant>, order[, signed=])
            base = f(e.func.value)
            a_ = [f(a) for a in e.args]
            kw_ = {k.arg: f(k.value) for k in e.keywords if k.arg is not None}
            if len(kw_) == len(e.keywords) and not any(v is UNKNOWN for v in a_ + list(kw_.values())) and set(kw_) <= {'signed', 'byteorder', 'length'}:
                if e.func.attr == 'to_bytes' and isinstance(base, int) and not isinstance(base, bool) and not isinstance(base, OpInt) \
                        and a_ and isinstance(a_[0], int) and 0 <= a_[0] <= 4096:
                    return int(base).to_bytes(*a_, **kw_)
                if e.func.attr == 'from_bytes' and isinstance(base, ExternalRef) and base.name == 'int' and a_ and isinstance(a_[0], bytes):
                    return int.from_bytes(*a_, **kw_)
        fn = f(e.func)
        if any(isinstance(a, ast.Starred) for a in e.args):
            return UNKNOWN
        args = [f(a) for a in e.args]
        kwargs = {}
        for k in e.keywords:
            if k.arg is None:
                return UNKNOWN
            kwargs[k.arg] = f(k.value)
        if isinstance(fn, ClassRef):
            ci = fn.info
            if self.is_subclass(ci, 'int') and len(args) == 1 and isinstance(args[0], int):
                return OpInt(args[0], ci)
            return Instance(ci, tuple(args), kwargs)
        if isinstance(fn, FuncRef):
            # tiny pure helpers of the library itself: x(), lx()
            q = fn.info.qualname
            if q == 'bitcoin.core.x' and len(args) == 1 and isinstance(args[0], str):
                return binascii.unhexlify(args[0].encode('utf8'))
            if q == 'bitcoin.core.lx' and len(args) == 1 and isinstance(args[0], str):
                return binascii.unhexlify(args[0].encode('utf8'))[::-1]
            return UNKNOWN
        if isinstance(fn, ExternalRef):
            n = fn.name
            if any(a is UNKNOWN for a in args):
                return UNKNOWN
            if n == 'bytes':
                if not args:
                    return b''
                if isinstance(args[0], (list, tuple)):
                    return bytes(int(x) for x in args[0])
                if isinstance(args[0], (bytes, bytearray)):
                    return bytes(args[0])
                if isinstance(args[0], int) and not isinstance(args[0], bool) and 0 <= args[0] <= 1 << 16 and len(args) == 1:
                    return bytes(args[0])
                return UNKNOWN
            if n == 'bytearray' and len(args) == 1 and isinstance(args[0], (list, tuple, bytes)):
                return bytes(int(x) for x in args[0])
            if n == 'frozenset':
                return frozenset(args[0]) if args else frozenset()
            if n == 'set':
                return set(args[0]) if args else set()
            if n == 'tuple':
                return tuple(args[0]) if args else ()
            if n == 'list':
                return list(args[0]) if args else []
            if n == 'dict' and not args:
                return dict(kwargs)
            if n == 'int' and len(args) == 1 and isinstance(args[0], (int, float)):
                return int(args[0])
            if n == 'float' and len(args) == 1 and isinstance(args[0], (int, float)):
                return float(args[0])
            if n == 'len' and len(args) == 1:
                return len(args[0])
            if n == 'range' and 1 <= len(args) <= 3 and all(isinstance(a, int) for a in args):
                return range(*args)
            if n == 'min':
                return min(*args)
            if n == 'max':
                return max(*args)
            if n == 'object' and not args:
                return Token('object@%s:%d' % (m.relpath, e.lineno))
            if n == 'bytes.fromhex' and len(args) == 1 and isinstance(args[0], str):
                return bytes.fromhex(args[0])
            if n == 'struct.Struct' and len(args) == 1:
                return StructVal(args[0])
            if n == 'struct.calcsize' and len(args) == 1:
                import struct as _s
                return _s.calcsize(args[0])
            return UNKNOWN
        return UNKNOWN

    # ------------------------------------------------------------------ helpers for rules
    def iter_functions(self):
        return list(self.functions.values())

    def enclosing_function(self, m, node):
        """FunctionInfo whose body contains node (innermost)."""
        cur = getattr(node, '_parent', None)
        while cur is not None:
            if isinstance(cur, (ast.FunctionDef, ast.AsyncFunctionDef)):
                for fi in self.functions.values():
                    if fi.node is cur:
                        return fi
            cur = getattr(cur, '_parent', None)
        return None

    def site(self, m, node):
        return '%s:%d' % (m.relpath, getattr(node, 'lineno', 0))


def norm(node):
    """Normalised text of an AST node (no positions, canonical spacing)."""
    if node is None:
        return ''
    if isinstance(node, list):
        return '; '.join(norm(n) for n in node)
    return ast.unparse(node)


def walk_no_nested(node):
    """ast.walk that does not descend into nested function/class definitions (but yields them)."""
    stack = [node]
    first = True
    while stack:
        n = stack.pop()
        yield n
        if not first and isinstance(n, (ast.FunctionDef, ast.AsyncFunctionDef, ast.ClassDef, ast.Lambda)):
            continue
        first = False
        stack.extend(reversed(list(ast.iter_child_nodes(n))))
