"""Analyses of the script interpreter (scripteval.py): dispatch decision table over 256 opcodes x fExec, and the
DEPTH abstract interpretation of stack accesses (DESIGN.md 3.2 / 3.4).  Guards are folded by the TABLE engine.
"""
import ast
import re

from .model import UNKNOWN, ClassRef, FuncRef, OpInt, AnalysisError, norm, walk_no_nested
from .table import Tracer, Path

SEQS = ('stack', 'altstack', 'vfExec')


class Interp(object):
    def __init__(self, repo):
        self.repo = repo
        self.mod = repo.get_module('bitcoin.core.scripteval')
        self.fi = repo.get_function('bitcoin.core.scripteval._EvalScript')
        self.loop = None
        for s in self.fi.node.body:
            if isinstance(s, ast.For) and isinstance(s.iter, ast.Call) and isinstance(s.iter.func, ast.Attribute) and s.iter.func.attr == 'raw_iter':
                self.loop = s
        if self.loop is None:
            raise AnalysisError('the interpreter loop `for ... in <script>.raw_iter()` was not found in _EvalScript')
        t = self.loop.target
        if not (isinstance(t, ast.Tuple) and len(t.elts) == 3 and all(isinstance(e, ast.Name) for e in t.elts)):
            raise AnalysisError('interpreter loop target is not (opcode, data, pc)')
        self.v_op, self.v_data, self.v_pc = [e.id for e in t.elts]
        self.script_var = norm(self.loop.iter.func.value)
        # fExec variable: `fExec = _CheckExec(vfExec)`
        self.v_exec = None
        for s in self.loop.body:
            if isinstance(s, ast.Assign) and isinstance(s.value, ast.Call) and norm(s.value.func) == '_CheckExec':
                self.v_exec = s.targets[0].id
        if self.v_exec is None:
            raise AnalysisError('no `fExec = _CheckExec(vfExec)` in the interpreter loop')
        self.nested = {n.name: n for n in self.loop.body if isinstance(n, ast.FunctionDef)}
        self.noreturn = ['err_raiser'] if 'err_raiser' in self.nested else []
        self._rows = None
        self.names = repo.module_value(repo.get_module('bitcoin.core.script'), 'OPCODE_NAMES')

    def opname(self, v):
        if isinstance(self.names, dict) and v in self.names:
            return self.names[v]
        return '0x%02x' % v

    def tracer(self, module=None):
        return Tracer(self.repo, module or self.mod, noreturn=self.noreturn)

    def rows(self):
        """(opcode, fExec) -> list of Path through one loop iteration"""
        if self._rows is not None:
            return self._rows
        tr = self.tracer()
        body = [s for s in self.loop.body if not isinstance(s, ast.FunctionDef)
                and not (isinstance(s, ast.Assign) and isinstance(s.targets[0], ast.Name) and s.targets[0].id == self.v_exec)]
        rows = {}
        for v in range(256):
            for ex in (True, False):
                env = {self.v_op: v, self.v_exec: ex}
                rows[(v, ex)] = tr.trace(body, env)
        self._rows = rows
        return rows

    # ---------------------------------------------------------------------------------------- path facts
    def path_info(self, p):
        """classify one path of one iteration"""
        info = {'counted': False, 'end': p.end, 'raise': None, 'arm': None, 'limit_checked': False, 'stmts': p.stmts()}
        for ev in p.events:
            if ev[0] == 'stmt':
                s = ev[1]
                t = norm(s)
                if isinstance(s, ast.AugAssign) and t.startswith('nOpCount[0] += 1'):
                    info['counted'] = True
            elif ev[0] == 'if':
                node, taken = ev[1], ev[2]
                tt = norm(node.test)
                if 'MAX_STACK_ITEMS' in tt:
                    info['limit_checked'] = True
                if taken:
                    info['arm'] = (tt, node.lineno)
                else:
                    if not node.orelse:
                        pass
        if p.end == 'raise':
            s = p.endnode
            info['raise'] = self.raise_info(s)
        return info

    def raise_info(self, s):
        """(error class name, message text) of a raising statement"""
        call = None
        if isinstance(s, ast.Expr):
            call = s.value
        elif isinstance(s, ast.Raise):
            call = s.exc
        if isinstance(call, ast.Call) and norm(call.func) == 'err_raiser' and call.args:
            cls = norm(call.args[0])
            msg = norm(call.args[1]) if len(call.args) > 1 else ''
            return (cls, msg)
        if isinstance(call, ast.Call):
            return (norm(call.func), norm(call.args[0]) if call.args else '')
        return ('?', norm(s))


# ------------------------------------------------------------------------------------------------ DEPTH
class Depth(object):
    """Abstract interpretation of one path over the three sequences: guaranteed depth, net delta, required depth."""

    def __init__(self, repo, module, helpers=None, check_args=None, seq_alias=None):
        self.repo = repo
        self.module = module
        self.helpers = helpers or {}
        self.check_args = check_args  # name of the nested guard helper -> sequence it guards
        self.alias = seq_alias or {}

    def seqname(self, e):
        t = norm(e)
        t = self.alias.get(t, t)
        return t if t in SEQS else None

    def run(self, path, init_guard=None):
        """-> dict seq -> {'required': n, 'delta': d, 'problems': [...]}"""
        st = {s: {'g': (init_guard or {}).get(s, 0), 'delta': 0, 'required': 0, 'problems': [], 'dyn': None, 'accesses': 0} for s in SEQS}
        self.st = st
        self.path = path
        for ev in path.events:
            if ev[0] == 'if':
                node, taken = ev[1], ev[2]
                self.test_accesses(node.test)
                self.guard(node.test, taken)
            elif ev[0] == 'stmt':
                self.stmt(ev[1])
        return st

    def test_accesses(self, test):
        """accesses made while evaluating a condition; `a and b`: b is evaluated only when a held"""
        if isinstance(test, ast.BoolOp) and isinstance(test.op, ast.And):
            saved = {s: self.st[s]['g'] for s in SEQS}
            for v in test.values:
                self.test_accesses(v)
                self.guard(v, True)
            for s in SEQS:
                self.st[s]['g'] = saved[s]
            return
        if isinstance(test, ast.BoolOp) and isinstance(test.op, ast.Or):
            saved = {s: self.st[s]['g'] for s in SEQS}
            for v in test.values:
                self.test_accesses(v)
                self.guard(v, False)
            for s in SEQS:
                self.st[s]['g'] = saved[s]
            return
        self.expr(test)

    # guards: a condition known to be False/True on this path
    def guard(self, test, taken):
        if isinstance(test, ast.BoolOp):
            if isinstance(test.op, ast.Or) and not taken:
                for v in test.values:
                    self.guard(v, False)
            elif isinstance(test.op, ast.And) and taken:
                for v in test.values:
                    self.guard(v, True)
            return
        if isinstance(test, ast.UnaryOp) and isinstance(test.op, ast.Not):
            self.guard(test.operand, not taken)
            return
        if isinstance(test, ast.Call) and norm(test.func) == 'len' and len(test.args) == 1:
            s = self.seqname(test.args[0])
            if s and taken:
                self.raise_g(s, 1)
            return
        if isinstance(test, ast.Name) or isinstance(test, ast.Attribute):
            return
        if not (isinstance(test, ast.Compare) and len(test.ops) == 1):
            return
        l, op, r = test.left, test.ops[0], test.comparators[0]
        # len(S) <op> N
        for a, b, flip in ((l, r, False), (r, l, True)):
            if isinstance(a, ast.Call) and norm(a.func) == 'len' and len(a.args) == 1:
                s = self.seqname(a.args[0])
                if not s:
                    continue
                n = self.repo.fold(b, self.module, env=self.path.env)
                o = type(op).__name__
                if flip:
                    o = {'Lt': 'Gt', 'Gt': 'Lt', 'LtE': 'GtE', 'GtE': 'LtE'}.get(o, o)
                if isinstance(n, int):
                    if o == 'Lt' and not taken:
                        self.raise_g(s, n)
                    elif o == 'LtE' and not taken:
                        self.raise_g(s, n + 1)
                    elif o == 'GtE' and taken:
                        self.raise_g(s, n)
                    elif o == 'Gt' and taken:
                        self.raise_g(s, n + 1)
                    elif o == 'Eq' and taken:
                        self.raise_g(s, n)
                    elif o == 'Eq' and not taken and n == 0:
                        self.raise_g(s, 1)
                    elif o == 'NotEq' and taken and n == 0:
                        self.raise_g(s, 1)
                    elif o == 'NotEq' and not taken:
                        self.raise_g(s, n)
                else:
                    # dynamic bound:  n >= len(S) is False  =>  n < len(S)
                    bt = norm(b)
                    if (o == 'LtE' and not taken) or (o == 'Gt' and taken):
                        self.st[s]['dyn_hi'] = bt  # bt < len(S)
                        self.st[s]['dyn_at'] = self.st[s]['delta']
                    if (o == 'Lt' and not taken) or (o == 'GtE' and taken):
                        self.st[s]['dyn_hi_le'] = bt  # bt <= len(S)
                        self.st[s]['dyn_le_at'] = self.st[s]['delta']
                return
        # n < 0 False  => n >= 0
        if isinstance(l, ast.Name) and isinstance(op, ast.Lt) and self.repo.fold(r, self.module) == 0 and not taken:
            for s in SEQS:
                self.st[s].setdefault('nonneg', set()).add(l.id)

    def raise_g(self, s, n):
        st = self.st[s]
        # guard establishes len(S) >= n *now*; express as initial depth bound
        st['g'] = max(st['g'], n - st['delta'])

    def need(self, s, k, node, what):
        st = self.st[s]
        st['accesses'] += 1
        need0 = k - st['delta']  # initial depth needed
        st['required'] = max(st['required'], need0)
        if st['g'] < need0:
            st['problems'].append((node, '%s needs %d item(s) on `%s` but only %d guaranteed at this point' % (what, k, s, st['g'] + st['delta'])))

    def stmt(self, s):
        if isinstance(s, (ast.For, ast.While, ast.Try)):
            # loops over the sequences are analysed by the dedicated multisig typestate; record accesses conservatively
            for n in ast.walk(s):
                if isinstance(n, ast.Call) and isinstance(n.func, ast.Attribute) and self.seqname(n.func.value) and n.func.attr in ('pop', 'append', 'insert'):
                    self.st[self.seqname(n.func.value)]['problems'].append((n, 'stack mutation inside a loop is not modelled'))
            return
        # evaluation order: value first, then target
        if isinstance(s, ast.Assign):
            self.expr(s.value)
            for t in s.targets:
                self.target(t)
            return
        if isinstance(s, ast.AugAssign):
            self.expr(s.value)
            self.target(s.target, load=True)
            return
        if isinstance(s, ast.Delete):
            for t in s.targets:
                if isinstance(t, ast.Subscript) and self.seqname(t.value):
                    sq = self.seqname(t.value)
                    k = self.index_need(sq, t.slice, t)
                    if k is not None:
                        self.need(sq, k, t, 'del %s' % norm(t))
                    self.st[sq]['delta'] -= 1
                    self.st[sq]['dyn'] = None
            return
        if isinstance(s, ast.Expr):
            self.expr(s.value)
            return
        if isinstance(s, (ast.Raise, ast.Return)):
            v = s.exc if isinstance(s, ast.Raise) else s.value
            if v is not None:
                self.expr(v)
            return

    def target(self, t, load=False):
        if isinstance(t, ast.Subscript) and self.seqname(t.value):
            sq = self.seqname(t.value)
            k = self.index_need(sq, t.slice, t)
            if k is not None:
                self.need(sq, k, t, 'store %s' % norm(t))
        elif isinstance(t, (ast.Tuple, ast.List)):
            for e in t.elts:
                self.target(e)

    def index_need(self, sq, idx, node):
        """how many items must exist for S[idx] ; None if decided separately (dynamic index)"""
        v = self.repo.fold(idx, self.module, env=self.path.env)
        if isinstance(v, int):
            return -v if v < 0 else v + 1
        t = norm(idx)
        m = re.match(r'^-(\w+) - 1$', t)
        st = self.st[sq]
        if m:
            n = m.group(1)
            # valid iff 0 <= n < len(S) established and S unchanged since
            ok = st.get('dyn_hi') == n and st.get('dyn_at') == st['delta'] and n in st.get('nonneg', ())
            st['accesses'] += 1
            if ok:
                # 0 <= n < len(S): at least one item
                st['required'] = max(st['required'], 1 - st['delta'])
            if not ok:
                st['problems'].append((node, 'dynamic index `%s` on `%s` is not covered by a live guard `0 <= %s < len(%s)`' % (t, sq, n, sq)))
            return None
        m = re.match(r'^-(\w+)$', t)
        if m:
            n = m.group(1)
            ok = st.get('dyn_hi_le') == n and st.get('dyn_le_at') == st['delta']
            st['accesses'] += 1
            if not ok:
                st['problems'].append((node, 'dynamic index `%s` on `%s` is not covered by a live guard `len(%s) >= %s`' % (t, sq, sq, n)))
            return None
        st['accesses'] += 1
        st['problems'].append((node, 'index `%s` on `%s` is not modelled' % (t, sq)))
        return None

    def expr(self, e):
        """walk an expression in evaluation order, applying the effects of pops/appends and checking subscripts"""
        if e is None:
            return
        if isinstance(e, ast.Call):
            f = e.func
            if isinstance(f, ast.Attribute) and self.seqname(f.value):
                sq = self.seqname(f.value)
                for a in e.args:
                    self.expr(a)
                if f.attr == 'pop':
                    if e.args:
                        self.st[sq]['problems'].append((e, 'pop(index) is not modelled'))
                    self.need(sq, 1, e, 'pop')
                    self.st[sq]['delta'] -= 1
                elif f.attr == 'append':
                    self.st[sq]['delta'] += 1
                elif f.attr == 'insert':
                    # insert(len(S) - k, x): needs k items
                    k = None
                    m = re.match(r'^len\(%s\) - (\d+)$' % re.escape(norm(f.value)), norm(e.args[0])) if e.args else None
                    if m:
                        k = int(m.group(1))
                    elif e.args and re.match(r'^-(\d+)$', norm(e.args[0])):
                        # insert(-k, x): the same position, k below the top, wherever the list has k items
                        k = int(norm(e.args[0])[1:])
                    if k is None:
                        self.st[sq]['problems'].append((e, 'insert position `%s` is not modelled' % (norm(e.args[0]) if e.args else '?')))
                    else:
                        self.need(sq, k, e, 'insert')
                    self.st[sq]['delta'] += 1
                elif f.attr in ('extend', 'clear', 'remove', 'sort', 'reverse'):
                    self.st[sq]['problems'].append((e, '%s() on `%s` is not modelled' % (f.attr, sq)))
                return
            name = norm(f)
            if self.check_args and name == self.check_args[0]:
                n = self.repo.fold(e.args[0], self.module, env=self.path.env) if e.args else None
                if isinstance(n, int):
                    self.raise_g(self.check_args[1], n)
                return
            if name in self.helpers:
                self.helpers[name](self, e)
                return
            if isinstance(f, ast.Attribute):
                self.expr(f.value)
            for a in e.args:
                self.expr(a)
            for k in e.keywords:
                self.expr(k.value)
            return
        if isinstance(e, ast.Subscript):
            if self.seqname(e.value):
                sq = self.seqname(e.value)
                if isinstance(e.slice, ast.Slice):
                    return
                k = self.index_need(sq, e.slice, e)
                if k is not None:
                    self.need(sq, k, e, norm(e))
                return
            self.expr(e.value)
            self.expr(e.slice)
            return
        for c in ast.iter_child_nodes(e):
            if isinstance(c, ast.expr):
                self.expr(c)
