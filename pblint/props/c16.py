"""C16 Context-free transaction and block checks accept exactly rule-conforming objects."""
import ast
import re

from ..model import UNKNOWN, ClassRef, FuncRef, ClassInfo, norm, walk_no_nested
from ..layout import LayoutEngine
from ..resolve import Resolver
from ..escape import Escape, rule_entry, justified_table, enclosing_if
from ..rules import canon_guard, raising_guards, canon_text, equiv, equiv_folded
from ..interp import Interp
from .. import common, spec, flow
from . import c08

CORE = 'bitcoin.core.'


def run(ctx):
    repo = ctx.repo
    eng = LayoutEngine(repo)
    rule_tx(ctx, repo)
    rule_block(ctx, repo)
    rule_header(ctx, repo)
    rule_helpers(ctx, repo)
    rule_guards(ctx, repo)
    rule_escape(ctx, repo, eng)
    r = ctx.rule('C16.P1', 'money and work limits are read from the selected chain at call time', engine='OWN', floor=1)
    common.rule_call_time_params(r, repo, files={'bitcoin/core/__init__.py'})
    c08.rule_sigops(ctx, repo, eng)
    ctx.rules[-1].id = 'C16.S1'
    for i in ctx.rules[-1].instances:
        i.rule = 'C16.S1'
    # the commitment rule of CheckBlock runs whenever the stored witness tree is non-empty: how that tree (and the
    # "has witness data" decision) is built is part of the block-acceptance rule set
    from . import c15
    c15.rule_trees(ctx, repo)
    ctx.rules[-1].id = 'C16.W1'
    for i in ctx.rules[-1].instances:
        i.rule = 'C16.W1'
    from . import c17
    common.retag(ctx, 'C16.P2', c17.rule_pow, repo, eng, title='CheckBlockHeader relies on CheckProofOfWork')
    ctx.not_decided += ['the values of sizes and hashes (serialisation: C01; merkle arithmetic: C15)']
    ctx.assume('serialisation layouts as decided by C01; proof-of-work rules as decided by C17')


def guards_with_class(fi, repo, noreturn=()):
    """[(canonical guard, error class name, node)] for every raising guard of fi"""
    _REPO[0] = repo
    out = []
    for g, n in raising_guards(fi.node, repo, fi.module, fi.cls, None, noreturn):
        body = n.body if flow.always_raises(n.body, noreturn) else n.orelse
        cls = None
        for s in body:
            if isinstance(s, ast.Raise) and isinstance(s.exc, ast.Call):
                cls = norm(s.exc.func)
        out.append((g, cls, n))
    return out


def has(texts, t):
    return canon_text(t) in texts


_REPO = [None]


def expect(r, key, fi, guards, accepted, errcls, what, measure=None, domain=None):
    accepted = [canon_text(a) for a in accepted]
    for g, cls, n in guards:
        if g in accepted:
            if cls == errcls:
                r.ok(key, common.site_of(fi, n), '%s: `%s` -> %s' % (what, g, cls))
            else:
                r.violated(key, common.site_of(fi, n), '%s is signalled by %s, not %s' % (what, cls, errcls))
            return n
    # the test is made and its branch holds nothing but `pass`: the refusal was taken out
    for n in ast.walk(fi.node):
        if isinstance(n, ast.If) and n.body and all(isinstance(x, ast.Pass) for x in n.body) and not n.orelse:
            try:
                g0 = canon_guard(n.test, fi.repo if hasattr(fi, 'repo') else _REPO[0], fi.module)
            except Exception:
                continue
            if g0 in accepted:
                r.violated(key, common.site_of(fi, n), '%s: `%s` is tested and nothing is refused (the branch holds only `pass`)' % (what, g0), sure=True)
                return None
    mention = measure
    if isinstance(measure, tuple):
        measure, mention = measure
    near = [(g, n) for g, cls, n in guards if measure and measure in g]
    if len(near) > 1:
        # one rule written as several guard clauses: their disjunction is the rule
        from ..rules import equiv as _eq0
        for take in (near, near[:2], near[-2:]):
            if _eq0(' or '.join('(%s)' % g for g, n in take), accepted[0]) is True and all(c_ == errcls for g_, c_, n_ in guards if any(n_ is x[1] for x in take)):
                r.ok(key, common.site_of(fi, take[0][1]), '%s: `%s`' % (what, ' or '.join(g for g, n in take)))
                return take[0][1]
    if near:
        from ..rules import equiv as _eq
        v_ = _eq(near[0][0], accepted[0])
        if v_ is not True and domain and _eq(near[0][0], accepted[0], domain=domain) is True:
            # the same refusals over the values the measured term can take
            v_ = True
            r.ctx.explain(fi, near[0][1], '%s: `%s` refuses the same values as `%s` where %s' % (key, near[0][0], accepted[0],
                          ', '.join('%s >= %s' % (t_, lo_) for t_, (lo_, hi_) in sorted(domain.items()))))
        if v_ is True:
            r.ok(key, common.site_of(fi, near[0][1]), '%s: `%s`' % (what, near[0][0]))
            return near[0][1]
        r.violated(key, common.site_of(fi, near[0][1]), '%s: the guard is `%s`, the rule is `%s`' % (what, near[0][0], accepted[0]))
    elif mention and mention in ast.unparse(fi.node):
        # the measured quantity is still used, in a construct that is not a plain raising guard: cannot tell
        r.undecided(key, fi.site, '%s: `%s` is not tested by a raising guard of a recognised form (reference rule `%s`)' % (what, measure, accepted[0]))
    else:
        r.violated(key, fi.site, '%s: no raising guard `%s` in %s' % (what, accepted[0], fi.name))
    return None


def loop_over(fi, node):
    """the innermost for loop containing node -> (iter text, loop node)"""
    cur = getattr(node, '_parent', None)
    while cur is not None and not isinstance(cur, (ast.FunctionDef,)):
        if isinstance(cur, ast.For):
            return norm(cur.iter), cur
        cur = getattr(cur, '_parent', None)
    return None, None


def rule_tx(ctx, repo):
    r = ctx.rule('C16.T1', 'CheckTransaction: the nine reference rules, each over all inputs/outputs, each signalled by CheckTransactionError', engine='RULES', floor=12)
    fi = repo.get_function(CORE + 'CheckTransaction')
    tx = fi.params[0]
    E = 'CheckTransactionError'
    gs = guards_with_class(fi, repo)
    expect(r, 'vin-non-empty', fi, gs, ['not %s.vin' % tx, 'len(%s.vin) == 0' % tx, 'len(%s.vin) < 1' % tx], E, 'a transaction without inputs is refused', '%s.vin' % tx)
    expect(r, 'vout-non-empty', fi, gs, ['not %s.vout' % tx, 'len(%s.vout) == 0' % tx, 'len(%s.vout) < 1' % tx], E, 'a transaction without outputs is refused', '%s.vout' % tx)
    n = expect(r, 'stripped-size', fi, gs, ['len(base_tx.serialize()) > 1000000'], E, 'stripped size above 1,000,000 bytes is refused', 'serialize()')
    base = [norm(s.value) for s in walk_no_nested(fi.node) if isinstance(s, ast.Assign) and norm(s.targets[0]) == 'base_tx']
    r.check(base == ['CTransaction(%s.vin, %s.vout, %s.nLockTime, %s.nVersion)' % (tx, tx, tx, tx)], 'stripped-size:witness-free', fi.site, 'size measured on the witness-free reconstruction',
            'the size limit is applied to `%s`, not to the witness-stripped transaction' % base)
    n1 = expect(r, 'value-negative', fi, gs, ['txout.nValue < 0'], E, 'a negative output value is refused', 'nValue')
    n2 = expect(r, 'value-too-high', fi, gs, ['txout.nValue > coreparams.MAX_MONEY'], E, 'an output above MAX_MONEY of the selected chain is refused', 'nValue')
    n3 = expect(r, 'total-range', fi, gs, ['not MoneyRange(nValueOut)'], E, 'every running total must be in the money range', 'nValueOut')
    for key, node in (('value-negative', n1), ('value-too-high', n2), ('total-range', n3)):
        if node is not None:
            it, lp = loop_over(fi, node)
            r.check(it == '%s.vout' % tx, key + ':all-outputs', common.site_of(fi, node), 'applied to every output', 'the %s rule ranges over `%s`, not over every output' % (key, it))
    if n3 is not None:
        it, lp = loop_over(fi, n3)
        acc = [norm(s) for s in (lp.body if lp else [])]
        r.check('nValueOut += txout.nValue' in acc and acc.index('nValueOut += txout.nValue') < [i for i, s in enumerate(lp.body) if s is n3][0] if lp and n3 in lp.body else False,
                'total-range:running', common.site_of(fi, n3), 'the total is updated before each range test', 'the running total is not accumulated before the range test inside the loop')
    init = [norm(s.value) for s in walk_no_nested(fi.node) if isinstance(s, ast.Assign) and norm(s.targets[0]) == 'nValueOut']
    r.check(init == ['0'], 'total-range:starts-at-zero', fi.site, 'total starts at 0', 'nValueOut is initialised as %s' % init)
    n4 = expect(r, 'duplicate-inputs', fi, gs, ['txin.prevout in vin_outpoints'], E, 'an outpoint spent twice is refused', ('prevout in', 'len(vin_outpoints)'))
    if n4 is not None:
        it, lp = loop_over(fi, n4)
        adds = [norm(s) for s in lp.body] if lp else []
        r.check(it == '%s.vin' % tx and 'vin_outpoints.add(txin.prevout)' in adds, 'duplicate-inputs:all-inputs', common.site_of(fi, n4), 'every input is recorded and tested',
                'duplicate detection ranges over `%s` / records %s' % (it, adds))
    # coinbase branch
    cb = [n for n in walk_no_nested(fi.node) if isinstance(n, ast.If) and norm(n.test) in ('%s.is_coinbase()' % tx, 'not %s.is_coinbase()' % tx)]
    if len(cb) != 1:
        r.violated('coinbase-branch', fi.site, 'no `if tx.is_coinbase(): ... else: ...` split')
    else:
        c = cb[0]
        if norm(c.test).startswith('not '):
            # the same split with the arms written the other way round
            c = ast.If(test=c.test.operand, body=c.orelse, orelse=c.body)
            ast.copy_location(c, cb[0])
        g1 = [(canon_guard(n.test, repo, fi.module), n) for n in ast.walk(ast.Module(body=c.body, type_ignores=[])) if isinstance(n, ast.If)]
        from ..rules import equiv as _eq
        ldefs = common.local_defs(fi)

        def unlocal(g):
            # a length held in a local (n = len(tx.vin[0].scriptSig)) speaks about the same quantity
            for k_, v_ in ldefs.items():
                if isinstance(v_, ast.Call) and norm(v_.func) == 'len':
                    g = re.sub(r'\b%s\b' % re.escape(k_), norm(v_), g)
            return g
        ok = [g for g, n in g1 if _eq(unlocal(g), 'len(%s.vin[0].scriptSig) < 2 or len(%s.vin[0].scriptSig) > 100' % (tx, tx)) is True]
        if ok:
            r.ok('coinbase-script-size', common.site_of(fi, c), 'coinbase script must be 2..100 bytes')
        else:
            r.violated('coinbase-script-size', common.site_of(fi, c), 'coinbase script length rule is %s; reference: refuse unless 2 <= len <= 100' % [g for g, n in g1])
        g2 = [(canon_guard(n.test, repo, fi.module), n) for n in ast.walk(ast.Module(body=c.orelse, type_ignores=[])) if isinstance(n, ast.If)]
        ok2 = [n for g, n in g2 if g == 'txin.prevout.is_null()']
        q2 = [n for g, n in g2 if g == 'any((x.prevout.is_null() for x in %s.vin))' % tx]
        if ok2:
            it, lp = loop_over(fi, ok2[0])
            r.check(it == '%s.vin' % tx, 'null-prevout', common.site_of(fi, ok2[0]), 'no input of a non-coinbase may be null (all inputs)', 'the null-prevout rule ranges over `%s`' % it)
        elif q2:
            r.ok('null-prevout', common.site_of(fi, q2[0]), 'no input of a non-coinbase may be null (all inputs, quantified)')
        elif 'is_null' in ast.unparse(ast.Module(body=c.orelse, type_ignores=[])):
            r.undecided('null-prevout', common.site_of(fi, c), 'the null-prevout test of non-coinbase transactions is written in a form that is not recognised: %s' % [g for g, n in g2])
        else:
            r.violated('null-prevout', common.site_of(fi, c), 'non-coinbase transactions are not checked for null prevouts')
    classes_ = {cls for g, cls, n in gs}
    r.check(classes_ <= {E}, 'error-class', fi.site, 'every rejection is CheckTransactionError', 'CheckTransaction rejects with %s' % sorted(str(c) for c in classes_ - {E}))
    # MoneyRange
    mr = repo.get_function(CORE + 'MoneyRange')
    rets = [canon_guard(n.value, repo, mr.module) for n in walk_no_nested(mr.node) if isinstance(n, ast.Return)]
    r.check(rets == [canon_text('nValue > -1 and nValue <= params.MAX_MONEY')], 'MoneyRange', mr.site, '0 <= v <= MAX_MONEY', 'MoneyRange returns %s' % rets)
    dflt = [norm(n) for n in walk_no_nested(mr.node) if isinstance(n, ast.If)]
    r.check(any('params = coreparams' in d for d in dflt) and mr.defaults().get('params') is not None and norm(mr.defaults()['params']) == 'None', 'MoneyRange:call-time', mr.site,
            'defaults to the selected chain at call time', 'MoneyRange does not take the selected chain at call time')
    for name, ch in sorted(spec.CHAINS.items()):
        c = repo.classes.get('bitcoin.core.' + ch['core'])
        v = repo.class_attr_value(c, 'MAX_MONEY') if c else UNKNOWN
        r.check(v == ch['max_money'], 'MAX_MONEY:%s' % name, c.site if c else '', '21e6 * 1e8', 'MAX_MONEY of %s is %r' % (name, v))


def rule_block(ctx, repo):
    r = ctx.rule('C16.B1', 'CheckBlock: reference rules in order, per-transaction checks over every transaction including the coinbase', engine='RULES', floor=14)
    fi = repo.get_function(CORE + 'CheckBlock')
    blk = fi.params[0]
    E = 'CheckBlockError'
    gs = guards_with_class(fi, repo)
    # header first
    first = [s for s in fi.node.body if not (isinstance(s, ast.Expr) and isinstance(s.value, ast.Constant))][0]
    r.check(norm(first) == 'CheckBlockHeader(%s.get_header(), fCheckPoW=fCheckPoW, cur_time=cur_time)' % blk, 'header-first', common.site_of(fi, first),
            'header check (PoW flag and time forwarded) comes first', 'CheckBlock starts with `%s`' % norm(first)[:80])
    expect(r, 'non-empty', fi, gs, ['not %s.vtx' % blk, 'len(%s.vtx) == 0' % blk], E, 'an empty block is refused', '%s.vtx' % blk)
    expect(r, 'stripped-size', fi, gs, ["len(%s.serialize(dict(include_witness=False))) > 1000000" % blk], E, 'stripped size above 1,000,000 is refused', 'serialize(')
    expect(r, 'weight', fi, gs, ['%s.GetWeight() > 4000000' % blk], E, 'weight above 4,000,000 is refused', 'GetWeight')
    expect(r, 'first-is-coinbase', fi, gs, ['not %s.vtx[0].is_coinbase()' % blk], E, 'the first transaction must be a coinbase', 'vtx[0]')
    # the per-transaction loop
    loops = [n for n in fi.node.body if isinstance(n, ast.For)]
    lp = None
    for l in loops:
        if any(isinstance(c, ast.Call) and norm(c.func) == 'CheckTransaction' for c in ast.walk(l)):
            lp = l
    if lp is None:
        r.violated('per-tx-loop', fi.site, 'no loop calling CheckTransaction')
        return
    it = norm(lp.iter)
    tv = norm(lp.target.elts[-1]) if isinstance(lp.target, ast.Tuple) else norm(lp.target)
    iv = norm(lp.target.elts[0]) if isinstance(lp.target, ast.Tuple) else None
    r.check(it in ('%s.vtx' % blk, 'enumerate(%s.vtx)' % blk), 'per-tx-loop:all-transactions', common.site_of(fi, lp), 'ranges over every transaction',
            'the per-transaction loop ranges over `%s`: CheckTransaction, the duplicate-txid test and the sigop count skip part of the block (the coinbase must be checked too)' % it)
    lg_all = [(canon_guard(n.test, repo, fi.module), n) for n in ast.walk(lp) if isinstance(n, ast.If)]
    raising_ids = {id(n) for g, cls, n in gs}
    # only a test whose branch always raises refuses anything
    lg = [(g, n) for g, n in lg_all if id(n) in raising_ids]
    for g, n in lg_all:
        if id(n) not in raising_ids and not any(isinstance(x, ast.If) for b_ in n.body for x in ast.walk(b_)) and not any(isinstance(x, (ast.Assign, ast.AugAssign, ast.Call)) for b_ in n.body + n.orelse for x in ast.walk(b_)):
            r.violated('refuses:%s' % g[:40], common.site_of(fi, n), 'CheckBlock tests `%s` in the per-transaction loop and then refuses nothing (the branch does not raise)' % g, sure=True)
    from ..rules import equiv as _eq
    second_cb = [g for g, n in lg if iv is not None and _eq(g, '%s > 0 and %s.is_coinbase()' % (iv, tv), domain={iv: (0, None)}) is True]
    r.check(bool(second_cb) and it.startswith('enumerate'), 'no-other-coinbase', common.site_of(fi, lp), 'any later coinbase is refused',
            'the "more than one coinbase" test is %s for a loop over %s' % (second_cb or [g for g, n in lg], it))
    calls = [norm(s) for s in lp.body]
    r.check('CheckTransaction(%s)' % tv in calls, 'check-transaction', common.site_of(fi, lp), 'CheckTransaction on every transaction', 'CheckTransaction is not called unconditionally in the loop')
    tid = [norm(s.value) for s in lp.body if isinstance(s, ast.Assign) and norm(s.targets[0]) == 'txid']
    r.check(tid == ['%s.GetTxid()' % tv], 'duplicate-txid:uses-txid', common.site_of(fi, lp), 'duplicates judged by txid', 'duplicate detection keys on `%s`, not on the txid' % tid)
    dup = [g for g, n in lg if g == 'txid in unique_txids']
    adds = 'unique_txids.add(txid)' in calls
    r.check(bool(dup) and adds, 'duplicate-txid', common.site_of(fi, lp), 'repeated txid refused', 'no `txid in unique_txids` test with recording')
    acc = [norm(s) for s in lp.body if isinstance(s, ast.AugAssign)]
    r.check(acc == ['nSigOps += GetLegacySigOpCount(%s)' % tv], 'sigops:accumulated', common.site_of(fi, lp), 'legacy sigops of every transaction are summed', 'sigop accumulation is %s' % acc)
    lim = [g for g, n in lg if g.startswith('nSigOps >')]
    r.check(lim == ['nSigOps > 20000'], 'sigops:limit', common.site_of(fi, lp), 'more than 20,000 refused', 'sigop limit guard is %s; reference: nSigOps > 20000' % lim)
    # merkle + witness commitment
    mk = [n for n in fi.node.body if isinstance(n, ast.If) and norm(n.test) == 'fCheckMerkleRoot']
    if len(mk) != 1:
        r.violated('merkle-section', fi.site, 'no `if fCheckMerkleRoot:` section')
        return
    mg_all = [(canon_guard(n.test, repo, fi.module), n) for n in ast.walk(mk[0]) if isinstance(n, ast.If) and n is not mk[0]]
    for g, n in mg_all:
        if id(n) not in raising_ids and 'len(commit_script)' not in g and not any(isinstance(x, ast.If) for b_ in n.body for x in ast.walk(b_)) and not any(isinstance(x, (ast.Assign, ast.AugAssign, ast.Call)) for b_ in n.body + n.orelse for x in ast.walk(b_)):
            r.violated('refuses:%s' % g[:40], common.site_of(fi, n), 'CheckBlock tests `%s` in the merkle section and then refuses nothing (the branch does not raise)' % g, sure=True)
    # section guards (which contain further tests) and raising guards
    mg = [(g, n) for g, n in mg_all if id(n) in raising_ids or any(isinstance(x, ast.If) for b_ in n.body for x in ast.walk(b_))]
    texts = [g for g, n in mg]
    r.check(has(texts, '%s.hashMerkleRoot != %s.calc_merkle_root()' % (blk, blk)), 'merkle-root', common.site_of(fi, mk[0]), 'declared root must equal the computed root', 'merkle comparison missing: %s' % texts)
    r.check(has(texts, 'len(%s.vWitnessMerkleTree)' % blk), 'witness-section', common.site_of(fi, mk[0]), 'commitment checked whenever any witness data is present', 'no `if len(block.vWitnessMerkleTree):` section')
    lens = [(g, n) for g, n in mg if 'len(commit_script)' in g]
    from ..rules import equiv as _eq3
    if len(lens) == 1 and id(lens[0][1]) in raising_ids:
        v_ = _eq3(lens[0][0], 'len(commit_script) < 38 or len(commit_script) > 39', domain={'len(commit_script)': (38, None)})
        refuses_valid = None
        try:
            code_ = compile(ast.parse(lens[0][0].replace('len(commit_script)', 'L_'), mode='eval'), '<guard>', 'eval')
            refuses_valid = any(bool(eval(code_, {'__builtins__': {}}, {'L_': k_})) for k_ in (38, 39))
        except Exception:
            refuses_valid = None
        if v_ is True:
            r.ok('witness-commitment:length', common.site_of(fi, lens[0][1]), 'commitment output of 38 or 39 bytes')
        elif v_ is False and not refuses_valid:
            r.undecided('witness-commitment:length', common.site_of(fi, lens[0][1]), 'the commitment output is refused when `%s`: longer outputs than the confirmed rule (38 or 39 bytes) are let through' % lens[0][0])
        elif v_ is False:
            r.violated('witness-commitment:length', common.site_of(fi, lens[0][1]), 'the commitment output is refused when `%s`; the confirmed rule refuses lengths other than 38 and 39 bytes' % lens[0][0], sure=True)
        else:
            r.undecided('witness-commitment:length', common.site_of(fi, lens[0][1]), 'length rule `%s` not compared' % lens[0][0])
    else:
        r.undecided('witness-commitment:length', common.site_of(fi, mk[0]), 'no single raising test on len(commit_script)')
    # a commitment that cannot be located is a rejection: the ValueError of get_witness_commitment_index becomes CheckBlockError
    for t_ in [n for n in ast.walk(mk[0]) if isinstance(n, ast.Try)]:
        if any('get_witness_commitment_index' in norm(x) for x in t_.body):
            hs = [h for h in t_.handlers if h.type is not None and norm(h.type) in ('ValueError', 'Exception')]
            ok_h = bool(hs) and all(flow.always_raises(h.body, ()) and any(isinstance(x, ast.Raise) and isinstance(x.exc, ast.Call) and norm(x.exc.func) == E for x in ast.walk(h)) for h in hs)
            r.check(ok_h, 'witness-commitment:missing-is-refused', common.site_of(fi, t_), 'a missing commitment raises CheckBlockError',
                    'the handler around get_witness_commitment_index() does not raise CheckBlockError: a witness block without a commitment output is not refused', sure=bool(hs))
    want_w = ['commit != Hash(root + nonce)']
    r.check(all(has(texts, w) for w in want_w), 'witness-commitment', common.site_of(fi, mk[0]), 'commitment == SHA256d(witness root || nonce)', 'commitment comparison is missing: %s' % texts)
    nonce_rules = [g for g in texts if 'coinbase_wit' in g or 'nonce' in g]
    ok = any('len(coinbase_wit) < 1' in g and 'stack) != 1' in g for g in nonce_rules) and has(texts, 'len(nonce) != 32')
    r.check(ok, 'witness-nonce', common.site_of(fi, mk[0]), 'coinbase witness is exactly one 32-byte item', 'coinbase witness nonce rules are %s' % nonce_rules)
    root = [norm(s.value) for s in ast.walk(mk[0]) if isinstance(s, ast.Assign) and norm(s.targets[0]) == 'root']
    commit = [norm(s.value) for s in ast.walk(mk[0]) if isinstance(s, ast.Assign) and norm(s.targets[0]) == 'commit']
    from ..rules import canon_arith as _ca
    r.check(root == ['%s.vWitnessMerkleTree[-1]' % blk] and [_ca(c_) for c_ in commit] == [_ca('commit_script[6:6 + 32]')], 'witness-commitment:operands', common.site_of(fi, mk[0]),
            'witness root and bytes 6..38 of the commitment output', 'root=%s commit=%s' % (root, commit))
    classes_ = {cls for g, cls, n in gs}
    r.check(classes_ <= {E}, 'error-class', fi.site, 'every rejection is CheckBlockError', 'CheckBlock rejects with %s' % sorted(str(c) for c in classes_ - {E}))
    common.rule_defaults(r, repo, [(CORE + 'CheckBlock', 'fCheckPoW', True, 'CheckBlock(block) accepts a block without proof of work'),
                                   (CORE + 'CheckBlock', 'fCheckMerkleRoot', True, 'CheckBlock(block) accepts a block whose transactions do not match the header'),
                                   (CORE + 'CheckBlock', 'cur_time', None, 'the timestamp rule is judged against a fixed time')])
    # the sigop total starts at zero
    inits = [n for n in fi.node.body if isinstance(n, ast.Assign) and norm(n.targets[0]) == 'nSigOps']
    if len(inits) == 1:
        iv = repo.fold(inits[0].value, fi.module)
        r.check(iv == 0 and not isinstance(iv, bool), 'sigops:starts-at-zero', common.site_of(fi, inits[0]), 'nSigOps = 0', 'the sigop total of CheckBlock starts at %r: the 20,000 limit is reached early (or late)' % (iv,), sure=isinstance(iv, int))
    else:
        r.undecided('sigops:starts-at-zero', fi.site, 'initialisation of nSigOps not found')
    for n_, v in (('MAX_BLOCK_SIZE', 1000000), ('MAX_BLOCK_WEIGHT', 4000000), ('MAX_BLOCK_SIGOPS', 20000)):
        got = repo.module_value(fi.module, n_)
        r.check(got == v, 'const:%s' % n_, fi.module.relpath + ':0', str(v), '%s is %r' % (n_, got))


def rule_header(ctx, repo):
    r = ctx.rule('C16.H1', 'CheckBlockHeader: proof of work when requested, timestamp at most two hours ahead', engine='RULES', floor=3)
    fi = repo.get_function(CORE + 'CheckBlockHeader')
    h = fi.params[0]
    gs = guards_with_class(fi, repo)
    expect(r, 'timestamp', fi, gs, ['%s.nTime > cur_time + 7200' % h], 'CheckBlockHeaderError', 'a timestamp more than 2 h in the future is refused', 'nTime')
    pw = [n for n in walk_no_nested(fi.node) if isinstance(n, ast.If) and norm(n.test) == 'fCheckPoW']
    ok = len(pw) == 1 and [norm(s) for s in pw[0].body] == ['CheckProofOfWork(%s.GetHash(), %s.nBits)' % (h, h)]
    r.check(ok, 'pow', fi.site, 'CheckProofOfWork(hash, nBits) when requested', 'proof-of-work step is %s' % ([norm(s) for s in pw[0].body] if pw else None))
    d = fi.defaults().get('fCheckPoW')
    r.check(d is not None and repo.fold(d, fi.module) is True, 'pow:default-on', fi.site, 'PoW checked by default', 'fCheckPoW does not default to True')
    ct = [canon_guard(n.test, repo, fi.module) for n in walk_no_nested(fi.node) if isinstance(n, ast.If)]
    r.check('cur_time is None' in ct, 'time:default-now', fi.site, 'defaults to time.time()', 'cur_time default handling: %s' % ct)


def rule_helpers(ctx, repo):
    r = ctx.rule('C16.D1', 'definitions used by the rules: coinbase, null outpoint, legacy sigops, commitment index', engine='RULES', floor=5)
    tx = repo.get_class(CORE + 'CTransaction')
    ic = repo.lookup_method(tx, 'is_coinbase')
    rets = [canon_guard(n.value, repo, ic.module) for n in walk_no_nested(ic.node) if isinstance(n, ast.Return)]
    r.check(rets == ['len(self.vin) == 1 and self.vin[0].prevout.is_null()'], 'is_coinbase', ic.site, 'exactly one input with a null prevout', 'is_coinbase is %s' % rets)
    op = repo.get_class(CORE + 'COutPoint')
    nl = repo.lookup_method(op, 'is_null')
    rets = [canon_guard(n.value, repo, nl.module) for n in walk_no_nested(nl.node) if isinstance(n, ast.Return)]
    want = "self.hash == %r and self.n == 4294967295" % (b'\x00' * 32,)
    r.check(rets == [want], 'is_null', nl.site, 'hash all zero and n = 0xffffffff', 'COutPoint.is_null is %s' % rets)
    ls = repo.get_function(CORE + 'GetLegacySigOpCount')
    def _falsy(t_):
        return re.sub(r'GetSigOpCount\((0|None|0x0|fAccurate=False)\)', 'GetSigOpCount(False)', t_)
    accs = sorted(_falsy(norm(n)) for n in ast.walk(ls.node) if isinstance(n, ast.AugAssign))
    loops = sorted(norm(n.iter) for n in ast.walk(ls.node) if isinstance(n, ast.For))
    # the summed terms as (sequence, element term with the bound variable written x), for loops and sum(<generator>) alike
    terms = set()
    for n in ast.walk(ls.node):
        if isinstance(n, ast.For) and isinstance(n.target, ast.Name):
            for a_ in ast.walk(n):
                if isinstance(a_, ast.AugAssign) and isinstance(a_.op, ast.Add):
                    terms.add((norm(n.iter), _falsy(re.sub(r'\b%s\b' % re.escape(n.target.id), 'x', norm(a_.value)))))
        if isinstance(n, ast.Call) and norm(n.func) == 'sum' and len(n.args) == 1 and isinstance(n.args[0], (ast.GeneratorExp, ast.ListComp)):
            g_ = n.args[0]
            if len(g_.generators) == 1 and not g_.generators[0].ifs and isinstance(g_.generators[0].target, ast.Name):
                terms.add((norm(g_.generators[0].iter), re.sub(r'\b%s\b' % re.escape(g_.generators[0].target.id), 'x', norm(g_.elt))))
    if terms == {('tx.vin', 'x.scriptSig.GetSigOpCount(False)'), ('tx.vout', 'x.scriptPubKey.GetSigOpCount(False)')}:
        accs, loops = ['nSigOps += txin.scriptSig.GetSigOpCount(False)', 'nSigOps += txout.scriptPubKey.GetSigOpCount(False)'], ['tx.vin', 'tx.vout']
    r.check(accs == ['nSigOps += txin.scriptSig.GetSigOpCount(False)', 'nSigOps += txout.scriptPubKey.GetSigOpCount(False)'] and loops == ['tx.vin', 'tx.vout'], 'legacy-sigops', ls.site,
            'inaccurate count over every scriptSig and scriptPubKey', 'GetLegacySigOpCount sums %s over %s' % (accs, loops))
    ls_init = [n for n in ls.node.body if isinstance(n, ast.Assign) and len(n.targets) == 1 and isinstance(n.targets[0], ast.Name)]
    for n in ls_init:
        if any(isinstance(a_, ast.AugAssign) and norm(a_.target) == n.targets[0].id for a_ in ast.walk(ls.node)):
            iv = repo.fold(n.value, ls.module)
            if not isinstance(n.value, ast.Constant):
                continue  # the first term of the sum written in place: read by the `legacy-sigops` terms above
            r.check(iv == 0 and not isinstance(iv, bool), 'legacy-sigops:starts-at-zero', common.site_of(ls, n), 'count starts at 0', 'GetLegacySigOpCount starts counting at %r' % (iv,), sure=isinstance(iv, int))
    blk = repo.get_class(CORE + 'CBlock')
    gi = repo.lookup_method(blk, 'get_witness_commitment_index')
    # nothing matched -> ValueError (CheckBlock turns it into a rejection); the position starts out as "none"
    gi_raises = [n for n in ast.walk(gi.node) if isinstance(n, ast.Raise) and isinstance(n.exc, ast.Call) and norm(n.exc.func) == 'ValueError']
    gi_none = [n for n in gi.node.body if isinstance(n, ast.If) and flow.always_raises(n.body, ()) and re.match(r'^\w+ is None$', norm(n.test))]
    if gi_none:
        var_ = norm(gi_none[0].test).split(' ')[0]
        init_ = [n for n in gi.node.body if isinstance(n, ast.Assign) and norm(n.targets[0]) == var_]
        r.check(bool(init_) and isinstance(init_[0].value, ast.Constant) and init_[0].value.value is None, 'commitment-index:none-found', common.site_of(gi, gi_none[0]),
                'no match -> ValueError', 'the position `%s` is not initialised to None before the search: a coinbase without a commitment output raises UnboundLocalError instead of ValueError' % var_, sure=True)
    elif any(isinstance(n, ast.If) and re.match(r'^\w+ is None$', norm(n.test)) and all(isinstance(x, ast.Pass) for x in n.body) for n in gi.node.body):
        r.violated('commitment-index:none-found', gi.site, 'the "no commitment found" test of get_witness_commitment_index no longer raises: None is handed to CheckBlock as an index', sure=True)
    elif not any(isinstance(n, (ast.ListComp, ast.GeneratorExp)) for n in ast.walk(gi.node)):
        r.undecided('commitment-index:none-found', gi.site, 'how a coinbase without a commitment output is answered was not recognised')
    gs = [canon_guard(n.test, repo, gi.module) for n in ast.walk(gi.node) if isinstance(n, ast.If)]
    magic = repo.module_value(gi.module, 'WITNESS_COINBASE_SCRIPTPUBKEY_MAGIC')
    r.check(magic == bytes([0x6a, 0x24, 0xaa, 0x21, 0xa9, 0xed]), 'commitment-magic', gi.site, '6a24aa21a9ed', 'commitment magic is %r' % (magic,))
    want_g = 'len(script) > 37 and script[:6] == %r' % (bytes([0x6a, 0x24, 0xaa, 0x21, 0xa9, 0xed]),)
    from ..rules import equiv as _eq2
    src_gi = ast.unparse(gi.node)
    conds = list(gs)
    for n in ast.walk(gi.node):
        if isinstance(n, ast.comprehension):
            conds.extend(canon_guard(i_, repo, gi.module) for i_ in n.ifs)
    hit = [g for g in conds if _eq2(re.sub(r'\b[\w.]+\[:6\]', 'script[:6]', re.sub(r'len\([\w.]+\)', 'len(script)', g)), want_g) is True]
    if hit:
        r.ok('commitment-index', gi.site, 'last output of at least 38 bytes starting with the magic')
    elif any('[:6]' in g or 'len(' in g for g in conds) and ('aa!' in src_gi or 'MAGIC' in src_gi or '6]' in src_gi) and any('37' in g or '38' in g or '[:6]' in g for g in conds):
        r.violated('commitment-index', gi.site, 'commitment search tests %s; reference: at least 38 bytes and the first six equal to the magic' % conds)
    else:
        r.undecided('commitment-index', gi.site, 'commitment search tests %s' % conds)
    # which match wins: BIP141 takes the LAST output that matches.  A forward scan that returns from inside the loop hands
    # back the first one (a stale commitment earlier in the coinbase then decides); scanning backwards may return at once.
    for lp_ in [n for n in ast.walk(gi.node) if isinstance(n, ast.For)]:
        it_ = norm(lp_.iter)
        known_fwd = it_ in ('enumerate(self.vtx[0].vout)', 'self.vtx[0].vout', 'range(len(self.vtx[0].vout))', 'range(0, len(self.vtx[0].vout))')
        backward = 'reversed(' in it_ or '::-1' in it_ or (isinstance(lp_.iter, ast.Call) and norm(lp_.iter.func) == 'range' and len(lp_.iter.args) == 3)
        if not known_fwd and not backward:
            if 'vout' in it_:
                r.undecided('commitment-index:last-match', common.site_of(gi, lp_), 'scan order of `%s` is not decided' % it_)
            continue
        fwd = known_fwd
        inner_ret = [x for x in ast.walk(lp_) if isinstance(x, ast.Return) and x.value is not None]
        if fwd and inner_ret:
            r.violated('commitment-index:last-match', common.site_of(gi, inner_ret[0]), 'the forward scan over the coinbase outputs returns at the first output that matches (`%s`); '
                       'BIP141: if several outputs match, the one with the highest index is the commitment' % norm(inner_ret[0]), sure=True)
        elif fwd:
            asg = [x for x in ast.walk(lp_) if isinstance(x, ast.Assign)]
            r.check(bool(asg), 'commitment-index:last-match', common.site_of(gi, lp_), 'every match overwrites the position: the last one wins', 'no position is recorded in the scan')
        else:
            r.undecided('commitment-index:last-match', common.site_of(gi, lp_), 'backward scan: `%s`' % norm(lp_.iter))
    # the matches collected first (`[i for i, out in enumerate(...vout) if <match>]`): which of them is handed back
    for n in ast.walk(gi.node):
        if isinstance(n, ast.ListComp) and len(n.generators) == 1 and n.generators[0].ifs and 'vout' in norm(n.generators[0].iter):
            holder = None
            par = getattr(n, '_parent', None)
            if isinstance(par, ast.Assign) and len(par.targets) == 1 and isinstance(par.targets[0], ast.Name):
                holder = par.targets[0].id
            picks = [x for x in ast.walk(gi.node) if isinstance(x, ast.Subscript) and not isinstance(x.slice, ast.Slice)
                     and ((holder and norm(x.value) == holder) or x.value is n)]
            fwd_iter = norm(n.generators[0].iter) in ('enumerate(self.vtx[0].vout)', 'range(len(self.vtx[0].vout))', 'range(0, len(self.vtx[0].vout))')
            for x in picks:
                k_ = repo.fold(x.slice, gi.module)
                if fwd_iter and k_ == -1:
                    r.ok('commitment-index:last-match', common.site_of(gi, x), 'the last collected match is returned')
                elif fwd_iter and k_ == 0:
                    r.violated('commitment-index:last-match', common.site_of(gi, x), 'of the collected matches the first one is handed back (`%s`); BIP141: if several outputs match, '
                               'the one with the highest index is the commitment' % norm(x), sure=True)
                else:
                    r.undecided('commitment-index:last-match', common.site_of(gi, x), 'which collected match `%s` selects is not decided' % norm(x))
            if not picks:
                r.undecided('commitment-index:last-match', common.site_of(gi, n), 'the collected matches are not indexed')
    loops = [norm(n.iter) for n in ast.walk(gi.node) if isinstance(n, (ast.For, ast.comprehension))]
    if any(l_ == 'enumerate(self.vtx[0].vout)' for l_ in loops):
        r.ok('commitment-index:coinbase-outputs', gi.site, 'searched in the coinbase outputs, last match wins')
    elif any('vout' in l_ for l_ in loops):
        r.undecided('commitment-index:coinbase-outputs', gi.site, 'commitment searched in %s' % loops)
    else:
        r.violated('commitment-index:coinbase-outputs', gi.site, 'commitment searched in %s' % loops)


def rule_guards(ctx, repo):
    r = ctx.rule('C16.G1', 'constant-index subscripts on block data are dominated by length guards (no check-after-use)', engine='GUARD', floor=4)
    fi = repo.get_function(CORE + 'CheckBlock')
    blk = fi.params[0]
    # facts: non-empty sequences established by raising guards / enclosing conditions
    def cond(test):
        t = canon_guard(test, repo, fi.module)
        f_t, f_f = set(), set()
        for part in re.split(r' or ', t):
            m = re.match(r'^not (\S+)$', part) or re.match(r'^len\((.+)\) == 0$', part) or re.match(r'^len\((.+)\) < 1$', part)
            if m:
                f_f.add('nonempty:' + m.group(1))
            m = re.match(r'^len\((.+)\) != 1$', part)
            if m:
                f_f.add('nonempty:' + m.group(1))
        m = re.match(r'^len\((.+)\)$', t)
        if m:
            f_t.add('nonempty:' + m.group(1))
        if ' or ' in t and flow is not None:
            pass
        return frozenset(f_t), frozenset(f_f)
    mf = flow.run_must(fi.node, cond=cond)
    n = 0
    for st in ast.walk(fi.node):
        if not isinstance(st, ast.stmt) or isinstance(st, (ast.FunctionDef, ast.For, ast.While, ast.Try)):
            continue
        exprs = [st.test] if isinstance(st, ast.If) else [c for c in ast.iter_child_nodes(st) if isinstance(c, ast.expr)]
        facts = mf.at.get(id(st))
        if facts is None:
            continue

        def scan(e, facts):
            """(subscript, facts holding when it is evaluated): `A or B` evaluates B only when A was false"""
            if isinstance(e, ast.BoolOp):
                cur = set(facts)
                for v in e.values:
                    for x in scan(v, frozenset(cur)):
                        yield x
                    ft, ff = cond(v)
                    cur |= (ff if isinstance(e.op, ast.Or) else ft)
                return
            for sub in ast.walk(e):
                if isinstance(sub, ast.Subscript):
                    yield sub, facts
        for e in exprs:
            for sub, fs in scan(e, facts):
                if isinstance(sub.slice, ast.Constant) and isinstance(sub.slice.value, int) and not isinstance(sub.ctx, ast.Store):
                    base = norm(sub.value)
                    if not (base.startswith(blk + '.') or base.startswith('coinbase_wit') or base.startswith('nonce_script')):
                        continue
                    n += 1
                    key = 'index:%s' % norm(sub)
                    need = 'nonempty:' + base
                    ok = need in fs
                    if not ok and base.endswith('.stack') and any(f.startswith('nonempty:') and f.endswith('.stack') for f in fs):
                        ok = True
                    if not ok and base == '%s.vtx[0].vout' % blk:
                        ok = True  # index returned by get_witness_commitment_index (raises when absent)
                    if not ok:
                        # any spelling of the guard: the conditions that hold where the subscript is evaluated (enclosing
                        # tests, earlier guard clauses, short-circuit operands to its left) must imply len(base) > 0
                        from ..escape import implied_at
                        lb = base
                        for k_, v_ in common.local_defs(fi).items():
                            if base == k_ or base.startswith(k_ + '[') or base.startswith(k_ + '.'):
                                pass
                        if implied_at(repo, fi, sub, 'len(%s) > 0' % base) is True:
                            ok = True
                    r.check(ok, key, common.site_of(fi, sub), 'guarded', '`%s` is indexed before any test that it is non-empty: a crafted block raises IndexError instead of a validation error' % norm(sub))
    if n == 0:
        r.undecided('subscripts', fi.site, 'no constant-index subscripts found')


def rule_escape(ctx, repo, eng):
    r = ctx.rule('C16.X1', 'every rejection is signalled by the validation-error family: nothing else escapes the four checks', engine='ESCAPE', floor=4)
    res = Resolver(repo, eng)
    ee = Escape(repo, res)
    val = repo.get_class(CORE + 'ValidationError')
    from .c07 import script_justified
    just = script_justified(repo, Interp(repo))

    def merkle_nonempty(e):
        cb = repo.get_function(CORE + 'CheckBlock')
        blk = cb.params[0]

        def cond(test):
            t = canon_guard(test, repo, cb.module)
            if t in ('not %s.vtx' % blk, 'len(%s.vtx) == 0' % blk):
                return frozenset(), frozenset(['nonempty'])
            return frozenset(), frozenset()
        mf = flow.run_must(cb.node, cond=cond)
        calls = [st for st in ast.walk(cb.node) if isinstance(st, ast.stmt) and not isinstance(st, (ast.For, ast.Try, ast.FunctionDef))
                 and any(isinstance(c, ast.Call) and norm(c.func) == '%s.calc_merkle_root' % blk for c in ast.walk(st.test if isinstance(st, ast.If) else st))]
        ok = bool(calls) and all('nonempty' in (mf.at.get(id(st)) or ()) for st in calls)
        g = enclosing_if(e.node)
        ok = ok and g is not None and canon_guard(g.test, repo, e.fi.module) in (canon_text('not len(self.vtx)'), 'not self.vtx')
        return ok, 'every call from CheckBlock is dominated by the raising guard `not block.vtx`'
    just[('bitcoin.core.CBlock.calc_merkle_root', "ValueError('Block contains no transactions')")] = merkle_nonempty
    for n in ('CheckTransaction', 'CheckBlock', 'CheckBlockHeader', 'CheckProofOfWork'):
        fi = repo.get_function(CORE + n)
        rule_entry(r, repo, ee, fi, [val], n, justified=just)
    for a in sorted(set(ee.applied))[:20]:
        r.note(a)
    for (f, t) in sorted(ee.unresolved)[:12]:
        r.note('unresolved call: %s in %s' % (t, f))
