"""C13 Keys: the clauses visible in the wrapper code (low-S discipline, verify result handling, WIF frame, constants).

Public-key derivation, the ECDSA equation and strict DER of libcrypto's output are delegated to libcrypto and are NOT
decided by this family."""
import ast
import re

from ..model import UNKNOWN, ClassRef, FuncRef, norm, walk_no_nested
from ..rules import canon_guard, canon_text, equiv, equiv_folded
from .. import common, spec, flow, shape

K = 'bitcoin.core.key.'
W = 'bitcoin.wallet.'


def run(ctx):
    repo = ctx.repo
    rule_low_s(ctx, repo)
    rule_constants(ctx, repo)
    rule_verify(ctx, repo)
    rule_pubkey(ctx, repo)
    rule_wif(ctx, repo)
    rule_no_self_mutation(ctx, repo)
    rd = ctx.rule('C13.F1', 'a key built without the flag is compressed (the documented default of CKey / from_secret_bytes)', engine='CONST', floor=2)
    common.rule_defaults(rd, repo, [
        ('bitcoin.wallet.CKey.__init__', 'compressed', True, 'CKey(secret) derives the uncompressed public key: another key encoding and another address than documented'),
        ('bitcoin.wallet.CBitcoinSecret.from_secret_bytes', 'compressed', True, 'from_secret_bytes(secret) yields the uncompressed WIF and public key'),
    ])
    r = ctx.rule('C13.I2', 'constant indices into key / signature byte strings are guarded by a length test on every path', engine='GUARD', floor=1)
    fs = [f for q, f in sorted(repo.functions.items()) if q.startswith(('bitcoin.wallet.CBitcoinSecret.', 'bitcoin.wallet.CKey.', 'bitcoin.core.key.CPubKey.', 'bitcoin.core.key.CECKey.'))]
    common.const_index_instances(r, repo, fs, what='a shorter byte string raises IndexError')
    r = ctx.rule('C13.P1', 'the secret-key version byte is read from the selected chain at call time', engine='OWN', floor=1)
    common.rule_call_time_params(r, repo, files={'bitcoin/wallet.py', 'bitcoin/core/key.py'})
    ctx.not_decided += ['k*G, the ECDSA verification equation, strict DER of libcrypto output: delegated to libcrypto, not applicable to this family',
                        'the arithmetic of CompareBigEndian / signature_to_low_s (BN calls)']
    ctx.assume('libcrypto (ECDSA_sign/verify, o2i_ECPublicKey, d2i/i2d_ECDSA_SIG) is correct')


def rule_low_s(ctx, repo):
    r = ctx.rule('C13.D1', 'every signature returned by sign / sign_compact passed the low-S test or the low-S normalisation (or comes from libsecp256k1)', engine='DOM', floor=2)
    for name in ('sign', 'sign_compact'):
        fi = repo.get_function(K + 'CECKey.' + name)

        def cond(test):
            if isinstance(test, ast.UnaryOp) and isinstance(test.op, ast.Not):
                a, b = cond(test.operand)
                return b, a
            t = norm(test)
            if t.startswith('bitcoin.core.script.IsLowDERSignature(') or t.startswith('IsLowDERSignature('):
                return frozenset(['low']), frozenset(['high'])
            if t == '_libsecp256k1_enable_signing':
                return frozenset(['secp']), frozenset()
            return frozenset(), frozenset()

        def gen(stmt, facts):
            # x = self.signature_to_low_s(x): from here on the value is normalised
            if isinstance(stmt, ast.Assign) and isinstance(stmt.value, ast.Call) and norm(stmt.value.func).endswith('signature_to_low_s'):
                return (facts - {'high'}) | {'low'}
            return facts
        mf = flow.run_must(fi.node, cond=cond, gen=gen)
        if name == 'sign':
            bad = []
            n = 0
            for k, node, f in mf.exits:
                if k != 'return' or node.value is None:
                    continue
                n += 1
                v = norm(node.value)
                if v.startswith('self._sign_with_libsecp256k1('):
                    if 'secp' not in f:
                        bad.append((node, 'libsecp path without the enabling flag'))
                    continue
                if v.startswith('self.signature_to_low_s('):
                    continue
                if 'low' in f:
                    continue
                bad.append((node, 'returns `%s` without the low-S test or normalisation' % v[:50]))
            if bad:
                for node, why in bad:
                    r.violated('sign:%s' % why[:30], common.site_of(fi, node), 'CECKey.sign %s: a high-S signature can be handed out' % why)
            else:
                r.check(n >= 2, 'sign', fi.site, '%d returns, each low-S tested, normalised or from libsecp256k1' % n, 'no returns found')
            arg = [norm(c.args[0]) for c in common.iter_calls(fi.node) if norm(c.func).endswith('IsLowDERSignature')]
            rets = [norm(n_.value) for k, n_, f in mf.exits if k == 'return' and 'low' in f]
            r.check(all(a in rets for a in arg) and arg, 'sign:tested-value-returned', fi.site, 'the tested signature is the returned one', 'tested %s but returned %s' % (arg, rets))
        else:
            # sign_compact: on every path to a return the DER signature passed the low-S test or was normalised
            rets_ = [(k, n_, f) for k, n_, f in mf.exits if k == 'return']
            tested = [norm(c.args[0]) for c in common.iter_calls(fi.node) if norm(c.func).endswith('IsLowDERSignature') and c.args]
            ok = bool(rets_) and all('low' in f for k, n_, f in rets_) and len(tested) == 1
            r.check(ok, 'sign_compact', fi.site, 'low-S tested, otherwise normalised', 'sign_compact does not put its signature through the low-S test / normalisation on every path')
    tl = repo.get_function(K + 'CECKey.signature_to_low_s')
    gs = [norm(n.test) for n in walk_no_nested(tl.node) if isinstance(n, ast.If)]
    subs = [norm(c) for c in common.iter_calls(tl.node) if norm(c.func) == '_ssl.BN_sub']
    r.check(any(equiv(g_, '_ssl.BN_cmp(der_sig.s, halforder) > 0') is True for g_ in gs) and subs == ['_ssl.BN_sub(der_sig.s, order, der_sig.s)'], 'normalisation', tl.site, 's > n/2 -> s = n - s', 'normalisation is %s / %s' % (gs, subs))
    ck = repo.get_function(W + 'CKey.sign')
    common.verdict3(r, 'CKey.sign', ck.site, repo, ck, common.returned_value(ck), 'self._cec_key.sign(%s)' % ck.params[1], 'CKey.sign returns')


def rule_constants(ctx, repo):
    r = ctx.rule('C13.C1', 'curve constants: secp256k1 NID, half group order table of the low-S test, low-S comparison bounds', engine='CONST', floor=4)
    km = repo.get_module('bitcoin.core.key')
    nid = repo.module_value(km, '_NID_secp256k1')
    r.check(nid == spec.SECP256K1_NID, 'NID', km.relpath + ':0', '714', 'curve NID is %r' % (nid,))
    uses = [norm(c) for f in repo.functions.values() if f.module is km for c in common.iter_calls(f.node) if norm(c.func) == '_ssl.EC_KEY_new_by_curve_name']
    r.check(uses and all(u == '_ssl.EC_KEY_new_by_curve_name(_NID_secp256k1)' for u in uses), 'NID:used', km.relpath + ':0', 'keys created on that curve', 'key creation calls: %s' % uses)
    fi = repo.get_function('bitcoin.core.script.IsLowDERSignature')
    tbl = None
    for n in walk_no_nested(fi.node):
        if isinstance(n, ast.Assign) and norm(n.targets[0]) == 'max_mod_half_order':
            tbl = repo.fold(n.value, fi.module)
    if tbl is None:
        # the table may be spelled inline (or come from a module constant that the pre-pass folded in): it is the second
        # operand of the upper-bound comparison
        for c in common.iter_calls(fi.node):
            if norm(c.func) == 'CompareBigEndian' and len(c.args) == 2:
                v_ = repo.fold(c.args[1], fi.module)
                if isinstance(v_, (list, tuple)) and len(v_) == 32:
                    tbl = list(v_)
    r.check(isinstance(tbl, list) and bytes(tbl) == spec.SECP256K1_HALF_ORDER, 'half-order', fi.site, 'n/2 of secp256k1',
            'the half-order table is %s; secp256k1 n/2 = %s' % (bytes(tbl).hex() if isinstance(tbl, list) and all(isinstance(x, int) and 0 <= x < 256 for x in tbl) else tbl, spec.SECP256K1_HALF_ORDER.hex()))
    # the predicate's final answer as one formula over its two comparisons (whatever the control flow spells)
    last = [s_ for s_ in fi.node.body if isinstance(s_, (ast.Return, ast.If))]
    tail = []
    for s_ in reversed(fi.node.body):
        if isinstance(s_, (ast.Return, ast.If)) and not any(isinstance(x, ast.Raise) for x in ast.walk(s_)):
            tail.insert(0, s_)
        else:
            break
    fe = common.return_expr(ast.Module(body=tail, type_ignores=[])) if tail else None
    if fe is None:
        r.undecided('low-s-bounds', fi.site, 'the final answer of IsLowDERSignature is not a tree of tests and returns')
    else:
        ft = norm(fe)
        for n_ in ast.walk(fe):
            pass
        import re as _re
        ft2 = _re.sub(r'CompareBigEndian\(s_val, \[0\]\)', 'cmp_zero', ft)
        ft2 = _re.sub(r'CompareBigEndian\(s_val, [^()]*(\([^()]*\))?[^()]*\)', 'cmp_half', ft2)
        v_ = equiv(ft2, 'cmp_zero > 0 and cmp_half <= 0')
        if v_ is True:
            r.ok('low-s-bounds', fi.site, '0 < s <= n/2')
        elif v_ is False:
            r.violated('low-s-bounds', fi.site, 'low-S test answers `%s`; reference: 0 < s <= n/2, i.e. CompareBigEndian(s, [0]) > 0 and CompareBigEndian(s, n/2) <= 0' % ft[:160])
        else:
            r.undecided('low-s-bounds', fi.site, 'low-S test answers `%s`' % ft[:160])
    # S is located through the DER length bytes
    defs = {norm(n.targets[0]): norm(n.value) for n in walk_no_nested(fi.node) if isinstance(n, ast.Assign) and len(n.targets) == 1}
    sig = fi.params[0]
    r.check(defs.get('length_s') in ('%s[5 + length_r]' % sig, 'int(struct.unpack(\'B\', length_s)[0])') and "sig[6 + length_r:6 + length_r + length_s]".replace('sig', sig) in defs.get('s_val', ''), 's-location', fi.site,
            'S read at offset 6 + len(R)', 'S is located as %s / %s' % (defs.get('length_s'), defs.get('s_val')))


def rule_verify(ctx, repo):
    r = ctx.rule('C13.V1', 'CECKey.verify: False on every failure arm; the tri-state ECDSA_verify result is compared with 1', engine='RULES', floor=4)
    fi = repo.get_function(K + 'CECKey.verify')
    rets = [n for n in walk_no_nested(fi.node) if isinstance(n, ast.Return)]
    final = [n for n in rets if 'ECDSA_verify' in norm(n.value)]
    if len(final) != 1:
        r.violated('result', fi.site, 'verify does not return the ECDSA_verify outcome exactly once')
    else:
        v = final[0].value
        t = norm(v)
        if isinstance(v, ast.Compare) and len(v.ops) == 1 and isinstance(v.ops[0], ast.Eq) and norm(v.comparators[0]) == '1' and norm(v.left).startswith('_ssl.ECDSA_verify('):
            r.ok('result', common.site_of(fi, final[0]), 'ECDSA_verify(...) == 1')
        else:
            r.violated('result', common.site_of(fi, final[0]), 'verify returns `%s`: ECDSA_verify yields 1 (good), 0 (bad) or -1 (error); anything but `== 1` reports errors as valid signatures' % t[:80])
        call = v.left if isinstance(v, ast.Compare) else None
        if isinstance(call, ast.Call):
            args = [norm(a) for a in call.args]
            r.check(args[1:3] == [fi.params[1], 'len(%s)' % fi.params[1]] and args[-1] == 'self.k', 'result:arguments', common.site_of(fi, final[0]), 'digest, its length, normalised DER, this key',
                    'ECDSA_verify is called with %s' % args)
    others = [n for n in rets if n not in final]
    r.check(bool(others) and all(norm(n.value) == 'False' for n in others), 'failure-arms', fi.site, '%d early exits, all False' % len(others), 'an early exit returns %s' % [norm(n.value) for n in others if norm(n.value) != 'False'])
    guards = [norm(n.test) for n in walk_no_nested(fi.node) if isinstance(n, ast.If)]
    from ..rules import canon_text
    cg = [canon_text(g_) for g_ in guards]
    missing, unclear = [], []
    for var_, accepted in ((fi.params[2] if len(fi.params) > 2 else 'sig', ['not sig', 'len(sig) == 0', "sig == b''"]), ('norm_sig', ['not norm_sig', 'norm_sig.value is None', 'not norm_sig.value']),
                           ('derlen', ['derlen == 0', 'not derlen', 'derlen <= 0', 'derlen < 1'])):
        acc_ = {canon_text(a_.replace('sig', var_) if var_ == fi.params[-1] and False else a_) for a_ in accepted}
        if any(g_ in acc_ for g_ in cg) or any(g_ in accepted for g_ in guards):
            continue
        # a disjunction of accepted spellings of the same failure is that failure
        if any(isinstance(n.test, ast.BoolOp) and isinstance(n.test.op, ast.Or) and all(norm(v_) in accepted for v_ in n.test.values)
               for n in walk_no_nested(fi.node) if isinstance(n, ast.If)):
            continue
        if any(re.search(r'\b%s\b' % re.escape(var_), g_) for g_ in guards):
            unclear.append(var_)
        else:
            missing.append(var_)
    if missing:
        r.violated('failure-arms:tests', fi.site, 'failure tests are %s: nothing is tested on %s (empty signature, undecodable DER, empty re-encoding must each answer False)' % (guards, missing))
    elif unclear:
        r.undecided('failure-arms:tests', fi.site, 'failure tests are %s: the test on %s was not recognised' % (guards, unclear))
    else:
        r.ok('failure-arms:tests', fi.site, 'empty signature, undecodable DER, empty re-encoding')
    pv = repo.get_function(K + 'CPubKey.verify')
    rets = [norm(n.value) for n in walk_no_nested(pv.node) if isinstance(n, ast.Return)]
    r.check(rets == ['self._cec_key.verify(%s, %s)' % (pv.params[1], pv.params[2])], 'CPubKey.verify', pv.site, 'delegates', 'CPubKey.verify returns %s' % rets)


def rule_pubkey(ctx, repo):
    r = ctx.rule('C13.K1', 'CPubKey validity flags: fully valid iff libcrypto parsed the encoding; compressed iff 33 bytes', engine='RULES', floor=3)
    fi = repo.get_function(K + 'CPubKey.__new__')
    sets = [n for n in walk_no_nested(fi.node) if isinstance(n, ast.Assign) and norm(n.targets[0]) == 'self.is_fullyvalid']
    kv = [norm(n.value) for n in walk_no_nested(fi.node) if isinstance(n, ast.Assign) and norm(n.targets[0]) == 'self._cec_key']
    keyname = kv[0] if kv else '_cec_key'
    if len(sets) == 1:
        ms_ = [common.value_match(repo, fi, sets[0].value, '%s.set_pubkey(self) is not None' % k_) for k_ in {keyname, '_cec_key', 'self._cec_key'}]
        if 'same' in ms_:
            r.ok('is_fullyvalid', fi.site, 'o2i_ECPublicKey returned non-NULL')
        elif 'set_pubkey' in norm(common.resolved(fi, sets[0].value, repo)):
            r.violated('is_fullyvalid', common.site_of(fi, sets[0]), 'is_fullyvalid is set by `%s`; it must be: the key object accepted the encoding (set_pubkey(self) is not None)' % norm(common.resolved(fi, sets[0].value, repo))[:120])
        else:
            r.undecided('is_fullyvalid', common.site_of(fi, sets[0]), 'is_fullyvalid is set by `%s`' % norm(sets[0].value)[:100])
    else:
        r.violated('is_fullyvalid', fi.site, 'is_fullyvalid is assigned %d times' % len(sets))
    # defaults: a mutable object built in a default argument is shared by every call
    for pn, d in fi.defaults().items():
        if isinstance(d, (ast.Call, ast.List, ast.Dict, ast.Set)):
            r.violated('default:%s' % pn, common.site_of(fi, d), 'CPubKey.__new__ builds its default `%s=%s` once, at import: every public key constructed without an explicit key object shares it, and the last set_pubkey() wins for all of them' % (pn, norm(d)))
        else:
            r.ok('default:%s' % pn, fi.site, 'default %s' % norm(d))
    sp = repo.get_function(K + 'CECKey.set_pubkey')
    rets = [norm(n.value) for n in walk_no_nested(sp.node) if isinstance(n, ast.Return)]
    r.check(len(rets) == 1 and rets[0].startswith('_ssl.o2i_ECPublicKey('), 'set_pubkey', sp.site, 'returns the o2i_ECPublicKey result', 'set_pubkey returns %s' % rets)
    km = repo.get_module('bitcoin.core.key')
    rt = None
    for s in km.tree.body:
        if isinstance(s, ast.Assign) and norm(s.targets[0]) == '_ssl.o2i_ECPublicKey.restype':
            rt = norm(s.value)
    r.check(rt == 'ctypes.c_void_p', 'set_pubkey:restype', km.relpath + ':0', 'pointer result (None when NULL)', 'o2i_ECPublicKey.restype is %s' % rt)
    for nm, want in (('is_compressed', 'len(self) == 33'), ('is_valid', 'len(self) > 0')):
        f = repo.functions.get(K + 'CPubKey.' + nm)
        e_ = common.return_expr(f, inline_locals=True) if f else None
        v_ = equiv_folded(e_, repo, f.module, want, cls=f.cls) if e_ is not None else None
        if v_ is True:
            r.ok(nm, f.site, want)
        elif v_ is False:
            r.violated(nm, f.site, '%s returns `%s`; reference `%s`' % (nm, norm(e_), want))
        else:
            r.undecided(nm, f.site if f else '', '%s returns `%s`' % (nm, norm(e_) if e_ is not None else None))
    sc = repo.get_function(K + 'CECKey.set_compressed')
    c = repo.get_class(K + 'CECKey')
    # the form handed to libcrypto for compressed=True / False, by tracing both values of the flag
    from ..table import Tracer
    got = {}
    for flag in (True, False):
        tr = Tracer(repo, sc.module, cls=c)
        ps = tr.trace(sc.node.body, {sc.params[1]: flag})
        if len(ps) == 1:
            for c_ in [x for s_ in ps[0].stmts() for x in ast.walk(s_) if isinstance(x, ast.Call) and norm(x.func) == '_ssl.EC_KEY_set_conv_form']:
                a_ = c_.args[1]
                if isinstance(a_, ast.IfExp):
                    a_ = a_.body if tr.tri(a_.test, ps[0]) else a_.orelse
                got[flag] = repo.fold(a_, sc.module, cls=c, env=ps[0].env)
    r.check(got == {True: 2, False: 4}, 'conversion-form', sc.site, 'compressed = 2, uncompressed = 4', 'conversion forms handed to EC_KEY_set_conv_form: %s' % got)


def rule_no_self_mutation(ctx, repo):
    r = ctx.rule('C13.K2', 'signing, recovering and verifying never reconfigure the key they are called on', engine='OWN', floor=4)
    setters = ('set_compressed', 'set_secretbytes', 'set_privkey', 'set_pubkey')
    for name in ('sign', 'sign_compact', 'verify', 'get_pubkey', 'get_privkey', 'signature_to_low_s'):
        fi = repo.functions.get(K + 'CECKey.' + name)
        if fi is None:
            continue
        bad = [c for c in common.iter_calls(fi.node) if isinstance(c.func, ast.Attribute) and c.func.attr in setters and norm(c.func.value) == 'self']
        bad += [n for n in walk_no_nested(fi.node) if isinstance(n, ast.Call) and norm(n.func) in ('_ssl.EC_KEY_set_conv_form', '_ssl.EC_KEY_set_private_key', '_ssl.EC_KEY_set_public_key')
                and n.args and norm(n.args[0]) == 'self.k']
        r.check(not bad, name, common.site_of(fi, bad[0]) if bad else fi.site, 'does not reconfigure self',
                'CECKey.%s calls `%s` on the key itself: after the call the key derives a different public-key encoding (an uncompressed key answers with the 33-byte form)' % (name, norm(bad[0])[:60] if bad else ''), sure=True)


def rule_wif(ctx, repo):
    r = ctx.rule('C13.L1', 'WIF payload: secret:32 || 01 iff compressed; parsed as self[0:32] and (len > 32 and self[32] == 1); version byte of the selected chain', engine='LAYOUT', floor=5)
    ci = repo.get_class(W + 'CBitcoinSecret')
    fs = ci.methods['from_secret_bytes']
    sec, comp = fs.params[1], fs.params[2]
    calls = [c for c in common.iter_calls(fs.node) if norm(c.func) == 'cls.from_bytes']
    ok = len(calls) == 1 and common.value_match(repo, fs, calls[0].args[0], "%s + (b'\\x01' if %s else b'')" % (sec, comp)) == 'same' \
        and common.value_match(repo, fs, calls[0].args[1], "bitcoin.params.BASE58_PREFIXES['SECRET_KEY']") == 'same'
    r.check(ok, 'writer', fs.site, "secret + (01 if compressed), version of the selected chain", 'WIF payload is built by %s' % [norm(c) for c in calls])
    # the object built from (secret, compressed) is initialised the way a parsed one is: through the reader (which takes
    # the flag from the payload just written), or through CKey.__init__ with the same secret and the same flag
    inits = [c for c in common.iter_calls(fs.node) if isinstance(c.func, ast.Attribute) and c.func.attr == '__init__']
    if len(inits) == 1 and norm(inits[0].func) == 'self.__init__':
        r.ok('writer:initialised', common.site_of(fs, inits[0]), 'initialised by the reader from the payload it carries')
    elif len(inits) == 1 and norm(inits[0].func) == 'CKey.__init__':
        a_ = [norm(x) for x in inits[0].args] + ['%s=%s' % (k.arg, norm(k.value)) for k in inits[0].keywords]
        r.check(a_ in (['self', sec, comp], ['self', sec, 'compressed=%s' % comp]), 'writer:initialised', common.site_of(fs, inits[0]), 'CKey.__init__(self, secret, compressed)',
                'from_secret_bytes initialises the key with `%s`: the compression flag that chose the payload marker does not reach the key (CKey defaults to compressed), so the object '
                'and its own WIF text disagree' % norm(inits[0]))
    else:
        r.undecided('writer:initialised', fs.site, 'initialisation of the object built by from_secret_bytes: %s' % [norm(c) for c in inits])
    init = ci.methods['__init__']
    kc = [c for c in common.iter_calls(init.node) if norm(c.func) == 'CKey.__init__']
    if len(kc) != 1 or len(kc[0].args) != 3:
        r.undecided('reader', init.site, 'no CKey.__init__(self, secret, compressed) call')
    else:
        a_sec, a_comp = norm(kc[0].args[1]), kc[0].args[2]
        common.verdict3(r, 'reader:secret', common.site_of(init, kc[0]), repo, init, kc[0].args[1], 'self[0:32]', 'the secret')
        t = canon_guard(a_comp, repo, init.module)
        if equiv(t, 'len(self) > 32 and self[32] == 1'):
            r.ok('reader:compressed', common.site_of(init, kc[0]), 'byte 32 present and equal to 01')
        elif 'self[' in t:
            r.violated('reader:compressed', common.site_of(init, kc[0]), 'the compression flag is parsed as `%s`; the marker is the 33rd byte: len(self) > 32 and self[32] == 1 (a secret ending in 01 is not a marker)' % norm(a_comp))
        else:
            r.undecided('reader:compressed', common.site_of(init, kc[0]), 'compression flag parsed as `%s`' % norm(a_comp))
    gs = [(canon_guard(n.test, repo, init.module), n) for n in walk_no_nested(init.node) if isinstance(n, ast.If) and flow.always_raises(n.body)]
    ok = any(g == canon_text("self.nVersion != bitcoin.params.BASE58_PREFIXES['SECRET_KEY']") for g, n in gs)
    exc = [norm(x.exc.func) for g, n in gs for x in n.body if isinstance(x, ast.Raise) and isinstance(x.exc, ast.Call)]
    r.check(ok and exc == ['CBitcoinSecretError'], 'reader:version', init.site, 'another chain\'s WIF is refused with CBitcoinSecretError', 'version check is %s / %s' % ([g for g, n in gs], exc))
    ck = repo.get_function(W + 'CKey.__init__')
    texts = [norm(s) for s in ck.node.body]
    # order of effects on the fresh key object, whatever local names it: new key, secret, conversion form, then the public key
    alias = {'self._cec_key'}
    for s_ in ck.node.body:
        if isinstance(s_, ast.Assign) and isinstance(s_.value, ast.Call) and norm(s_.value.func).endswith('CECKey') and not s_.value.args:
            alias |= {norm(t_) for t_ in s_.targets}
    seq = []
    for s_ in ck.node.body:
        for c_ in [x for x in ast.walk(s_) if isinstance(x, ast.Call) and isinstance(x.func, ast.Attribute) and norm(x.func.value) in alias]:
            seq.append((c_.func.attr, [norm(a) for a in c_.args]))
    ok = [x for x in seq if x[0] in ('set_secretbytes', 'set_compressed', 'get_pubkey')] == [('set_secretbytes', ['secret']), ('set_compressed', ['compressed']), ('get_pubkey', [])] \
        and any(norm(s_.targets[0]) == 'self.pub' and 'CPubKey(' in norm(s_.value) for s_ in ck.node.body if isinstance(s_, ast.Assign))
    r.check(ok, 'key-construction', ck.site, 'secret -> EC key, conversion form set before the public key is taken', 'CKey.__init__ does %s' % texts)
    ss = repo.get_function(K + 'CECKey.set_secretbytes')
    gs2 = [canon_guard(n.test, repo, ss.module) for n in walk_no_nested(ss.node) if isinstance(n, ast.If) and flow.always_raises(n.body)]
    r.check(canon_text('len(secret) != 32') in gs2, 'secret-length', ss.site, 'exactly 32 bytes', 'secret length rule: %s' % gs2)
    # the Base58Check container accepts every chain's secret-key version byte (its range test is the one-byte range)
    fb = repo.find_method('bitcoin.base58.CBase58Data', 'from_bytes')
    gsv = [canon_guard(n.test, repo, fb.module) for n in walk_no_nested(fb.node) if isinstance(n, ast.If) and flow.always_raises(n.body)]
    okv = len(gsv) == 1 and equiv(gsv[0], 'nVersion < 0 or nVersion > 255') is True
    r.check(okv, 'container-version-range', fb.site, 'versions 0..255 are representable', 'CBase58Data.from_bytes refuses versions by `%s`: a secret-key prefix outside that range '
            '(239 on testnet, signet and regtest) cannot be printed or parsed' % gsv)
    m = repo.get_module('bitcoin')
    for name, ch in sorted(spec.CHAINS.items()):
        c = m.classes.get(ch['class'])
        pf = repo.class_attr_value(c, 'BASE58_PREFIXES') if c else None
        got = pf.get('SECRET_KEY') if isinstance(pf, dict) else None
        r.check(got == ch['SECRET_KEY'], 'prefix:%s' % name, c.site if c else '', str(ch['SECRET_KEY']), 'secret-key prefix of %s is %r' % (name, got))
