"""C08 Script building, tokenising, number codec and classification predicates."""
import ast
import re

from ..model import UNKNOWN, ClassRef, FuncRef, ClassInfo, OpInt, norm, walk_no_nested
from ..layout import LayoutEngine, Undecided, _WState, normalise, fmt_info
from ..table import Tracer
from ..resolve import Resolver
from ..escape import Escape, rule_entry, enclosing_if
from ..rules import canon_guard, canon_text, equiv, equiv_folded
from .. import common, spec, flow
from . import c06, c20

O = spec.OPCODES
CS = 'bitcoin.core.script.CScript'
OP = 'bitcoin.core.script.CScriptOp'


def run(ctx):
    repo = ctx.repo
    eng = LayoutEngine(repo)
    rule_pushdata_writer(ctx, repo, eng)
    rule_raw_iter(ctx, repo)
    rule_opn_codec(ctx, repo)
    rule_coercion(ctx, repo)
    rule_iter_kinds(ctx, repo)
    rule_predicates(ctx, repo)
    rule_sigops(ctx, repo, eng)
    rule_siblings(ctx, repo)
    r = ctx.rule('C08.I2', 'predicates and counts are defined for every byte string: a constant index into the script is guarded by a length test on every path', engine='GUARD', floor=4)
    ci_ = repo.get_class(CS)
    common.const_index_instances(r, repo, [f for f in ci_.methods.values()], only=('self',), what='a shorter script raises IndexError where the predicate has an answer')
    ctx.not_decided += ['the script-number codec bn2vch/vch2bn (arithmetic; bijection not decided)', 'byte-exact rebuild equality of arbitrary scripts (follows from the decided tables plus the codec)',
                        'is_witness_scriptpubkey: the two header-byte conditions read through a signed struct format are listed, not decided']
    ctx.assume('bytes indexing/slicing semantics')


def small_ints(repo):
    """opcodes for which CScriptOp.is_small_int() returns True, by folding its guards over 0..255"""
    op = repo.get_class(OP)
    isi = repo.lookup_method(op, 'is_small_int')
    tr = Tracer(repo, isi.module, cls=op)
    out = []
    for v in range(256):
        ps = tr.trace(isi.node.body, {'self': v})
        if len(ps) != 1 or ps[0].end != 'return':
            return None, isi
        val = repo.fold(ps[0].endnode.value, isi.module, cls=op, env={'self': v})
        if val is UNKNOWN or not isinstance(val, (bool, int)):
            return None, isi
        if val:
            out.append(v)
    return out, isi


# ------------------------------------------------------------------------------------------------ P1
def rule_pushdata_writer(ctx, repo, eng):
    r = ctx.rule('C08.P1', 'encode_op_pushdata: shortest push opcode for each length class, little-endian length of the right width', engine='TABLE+LAYOUT', floor=9)
    fi = repo.get_function(OP + '.encode_op_pushdata')
    d = fi.params[0]
    tr = Tracer(repo, fi.module, cls=fi.cls)
    want = [  # (length, prefix const, format code of the length, or 'direct')
        (0, None, 'B'), (0x4b, None, 'B'), (0x4c, b'\x4c', 'B'), (0xff, b'\x4c', 'B'), (0x100, b'\x4d', '<H'), (0xffff, b'\x4d', '<H'),
        (0x10000, b'\x4e', '<I'), (0xffffffff, b'\x4e', '<I'), (0x100000000, 'raise', None),
    ]
    for L, prefix, code in want:
        key = 'len=0x%x' % L
        paths = tr.trace(fi.node.body, {'$x': {'len(%s)' % d: L}})
        if len(paths) != 1:
            r.undecided(key, fi.site, 'threshold chain does not fold for length 0x%x' % L)
            continue
        p = paths[0]
        if prefix == 'raise':
            r.check(p.end == 'raise', key, fi.site, 'lengths above 2**32-1 are refused', 'a 2**32-byte push does not raise')
            continue
        if p.end != 'return':
            r.violated(key, fi.site, 'length 0x%x is refused although it fits a push opcode' % L)
            continue
        try:
            ws = _WState(eng, fi, '$none', {}, fi.cls, 0)
            ws.streams = set()
            items = normalise(ws.value_items(p.endnode.value))
        except Undecided as e:
            r.undecided(key, common.site_of(fi, p.endnode), str(e))
            continue
        got_prefix = None
        rest = list(items)
        if rest and rest[0].kind == 'const':
            got_prefix = rest[0].value
            rest = rest[1:]
        ok = len(rest) == 2 and rest[0].kind == 'int' and rest[0].field == 'len(%s)' % d and rest[1].kind == 'raw' and rest[1].field == d
        if ok:
            gc = rest[0].fmt
            w, order, rng = fmt_info(gc)
            ww, oo, _ = fmt_info(code)
            ok = got_prefix == prefix and w == ww and (w == 1 or order == '<') and rng and rng[0] <= 0 and rng[1] >= L
        r.check(ok, key, common.site_of(fi, p.endnode), 'prefix %r, length as %s' % (prefix, code),
                'a %d-byte push is encoded as `%s`; shortest form: prefix %r, length as %s little-endian, then the data' % (L, norm(p.endnode.value), prefix, code))


# ------------------------------------------------------------------------------------------------ P2 / Y1
def rule_raw_iter(ctx, repo):
    r = ctx.rule('C08.P2', 'raw_iter: push classes read the same widths little-endian, truncation guards cover exactly the bytes read, the cursor always advances, one yield per operation',
                 engine='TABLE', floor=256)
    fi = repo.get_function(CS + '.raw_iter')
    loops = [n for n in fi.node.body if isinstance(n, ast.While)]
    if len(loops) != 1:
        r.undecided('loop', fi.site, 'tokeniser loop not found')
        return
    lp = loops[0]
    r.check(norm(lp.test) in ('i < len(self)',), 'loop-condition', common.site_of(fi, lp), 'while i < len(self)', 'tokeniser loop condition is `%s`' % norm(lp.test))
    tr = Tracer(repo, fi.module, cls=fi.cls)
    tr.pinned = {'opcode'}
    body = [s for s in lp.body if not (isinstance(s, ast.Assign) and norm(s.targets[0]) == 'opcode')]
    opsrc = [norm(s.value) for s in lp.body if isinstance(s, ast.Assign) and norm(s.targets[0]) == 'opcode']
    r.check(opsrc == ['self[i]'], 'opcode-byte', common.site_of(fi, lp), 'opcode = self[i]', 'opcode is read as %s' % opsrc)
    widths = {0x4c: 1, 0x4d: 2, 0x4e: 4}
    sure_keys = set()
    for v in range(256):
        key = c06.opn(v) if v > 0x4b or v == 0 else '0x%02x' % v
        paths = tr.trace(body, {'opcode': v})
        problems = []
        yields = 0
        for p in paths:
            stmts = p.stmts()
            texts = [norm(s) for s in stmts]
            ys = [s for s in stmts if isinstance(s, ast.Expr) and isinstance(s.value, ast.Yield)]
            if p.end == 'raise':
                continue
            if p.end in ('fall', 'continue'):
                if len(ys) != 1:
                    problems.append('an iteration completes with %d yields' % len(ys))
                    continue
                yields += 1
                y = ys[0].value.value
                if not (isinstance(y, ast.Tuple) and len(y.elts) == 3 and norm(y.elts[0]) == 'opcode' and norm(y.elts[2]) == 'sop_idx'):
                    problems.append('yields `%s`, not (opcode, data, start index)' % norm(y))
                    continue
                if 'i += 1' not in texts or texts.index('i += 1') > texts.index(norm(ys[0])):
                    problems.append('the cursor does not advance past the opcode byte')
                if 'sop_idx = i' not in texts or texts.index('sop_idx = i') > texts.index('i += 1'):
                    problems.append('the start index is not taken before the cursor advances')
                data = norm(y.elts[1])
                if v > 0x4e:
                    if data != 'None':
                        problems.append('non-push opcode yields data `%s`' % data)
                    continue
                # push: datasize expression, guards, advance
                ds = None
                for s_ in stmts:
                    if isinstance(s_, ast.Assign) and norm(s_.targets[0]) == 'datasize' and norm(s_.value) != 'None':
                        ds = s_.value
                w = widths.get(v, 0)
                if v < 0x4c:
                    if ds is None or repo.fold(ds, fi.module, env={'opcode': v}) != v:
                        problems.append('direct push size is `%s`, not the opcode value' % (norm(ds) if ds is not None else None))
                else:
                    terms = length_terms(ds, repo, fi, {'opcode': v})
                    if terms != {(k, 8 * k) for k in range(w)}:
                        problems.append('length of %s is decoded as `%s`: expected %d little-endian byte(s) self[i+k] << 8k' % (c06.opn(v), norm(ds) if ds is not None else None, w))
                    g = {k: val for k, val in p.assume.items() if 'len(self)' in k and 'datasize' not in k and 'data' not in k.split('len(self)')[0][-0:]}
                    want_g = 'i >= len(self)' if w == 1 else 'i + %d >= len(self)' % (w - 1)
                    guarded = p.assume.get(want_g) is False
                    if not guarded:
                        # any spelling of "fewer than w bytes left": i + w > len(self), with names folded for this opcode
                        from ..rules import _Folder, _copy, equiv as _equiv
                        for gk, gval in p.assume.items():
                            if gval is False and 'len(self)' in gk:
                                try:
                                    gf = _Folder(repo, fi.module, fi.cls, {'opcode': v}).visit(_copy(ast.parse(gk, mode='eval').body))
                                except SyntaxError:
                                    continue
                                if _equiv(gf, 'i + %d > len(self)' % w) is True:
                                    guarded = True
                    if not guarded:
                        problems.append('the length bytes of %s are read without the guard `%s` (guards on this path: %s)' % (c06.opn(v), want_g, sorted(k for k in p.assume if 'len(self)' in k)))
                        other_names = set()
                        for gk in p.assume:
                            try:
                                other_names |= {n_.id for n_ in ast.walk(ast.parse(gk, mode='eval')) if isinstance(n_, ast.Name)}
                            except SyntaxError:
                                other_names.add('?')
                        if terms == {(k, 8 * k) for k in range(w)} and other_names <= {'i', 'self', 'len', 'opcode', 'datasize', 'data', 'sop_idx'} | {n_ for n_ in other_names if n_.startswith('OP_')}:
                            # what is read is known (w bytes at the cursor) and no test on this path keeps w bytes available:
                            # a fact about the path, whatever else was rewritten
                            sure_keys.add(key)
                    skips = [s_ for s_ in stmts if isinstance(s_, ast.AugAssign) and norm(s_.target) == 'i' and isinstance(s_.op, ast.Add)
                             and repo.fold(s_.value, fi.module, cls=fi.cls, env={'opcode': v}) == w]
                    if 'i += %d' % w not in texts and not skips:
                        problems.append('the cursor does not skip the %d length byte(s)' % w)
                if data != 'data' or 'data = bytes(self[i:i + datasize])' not in texts:
                    problems.append('pushed data is not self[i:i+datasize]')
                trunc = p.assume.get('len(data) < datasize') is False
                if not trunc and 'data = bytes(self[i:i + datasize])' in texts:
                    # any test that, for a slice (which is never longer than asked for), says the same thing
                    from ..rules import equiv as _equiv2
                    for gk, gval in p.assume.items():
                        if gval is False and 'datasize' in gk and 'len(data)' in gk:
                            if _equiv2('(%s) and len(data) <= datasize' % gk, 'len(data) < datasize') is True:
                                trunc = True
                if not trunc:
                    problems.append('no truncation guard `len(data) < datasize` before the push is yielded')
                if 'i += datasize' not in texts:
                    problems.append('the cursor does not skip the pushed data')
        # raising paths: truncation -> CScriptTruncatedPushDataError, missing length -> CScriptInvalidError
        for p in paths:
            if p.end == 'raise' and isinstance(p.endnode, ast.Raise):
                exc = p.endnode.exc
                nm = norm(exc.func) if isinstance(exc, ast.Call) else norm(exc)
                if nm not in ('CScriptInvalidError', 'CScriptTruncatedPushDataError'):
                    problems.append('raises %s' % nm)
                if (p.assume.get('len(data) < datasize') is True or p.assume.get('len(data) != datasize') is True) and nm != 'CScriptTruncatedPushDataError':
                    problems.append('a truncated push raises %s, not the truncated-push error' % nm)
            elif p.end == 'raise':
                problems.append('reaches `%s`' % norm(p.endnode)[:40])
        if not yields and v > 0x4e:
            problems.append('no completing path')
        if problems:
            r.violated(key, common.site_of(fi, lp), '%s: %s' % (key, '; '.join(sorted(set(problems)))), sure=key in sure_keys)
        else:
            r.ok(key, common.site_of(fi, lp), '%d path(s)' % len(paths))


def length_terms(e, repo=None, fi=None, env=None):
    """self[i+k] << s terms of a little-endian length expression -> {(k, s)}"""
    if e is None:
        return None
    out = set()
    # int.from_bytes(self[i:i + N], 'little'): N little-endian bytes starting at the cursor
    if isinstance(e, ast.Call) and norm(e.func) == 'int.from_bytes' and len(e.args) == 2 and repo is not None:
        order = repo.fold(e.args[1], fi.module)
        sl = e.args[0]
        if order == 'little' and isinstance(sl, ast.Subscript) and norm(sl.value) == 'self' and isinstance(sl.slice, ast.Slice) \
                and sl.slice.lower is not None and norm(sl.slice.lower) == 'i' and sl.slice.upper is not None and sl.slice.step is None:
            up = sl.slice.upper
            if isinstance(up, ast.BinOp) and isinstance(up.op, ast.Add) and norm(up.left) == 'i':
                n = repo.fold(up.right, fi.module, cls=fi.cls, env=env or {})
                if isinstance(n, int) and 1 <= n <= 8:
                    return {(k, 8 * k) for k in range(n)}
        return None

    def term(t):
        sh = 0
        if isinstance(t, ast.BinOp) and isinstance(t.op, ast.LShift) and isinstance(t.right, ast.Constant):
            sh = t.right.value
            t = t.left
        if isinstance(t, ast.Subscript) and norm(t.value) == 'self':
            m = re.match(r'^i(?: \+ (\d+))?$', norm(t.slice))
            if m:
                out.add((int(m.group(1) or 0), sh))
                return True
        return False

    def walk(x):
        if isinstance(x, ast.BinOp) and isinstance(x.op, (ast.Add, ast.BitOr)):
            return walk(x.left) and walk(x.right)
        return term(x)
    return out if walk(e) else None


# ------------------------------------------------------------------------------------------------ OP_n codec
def rule_opn_codec(ctx, repo):
    r = ctx.rule('C08.N1', 'encode_op_n / decode_op_n / is_small_int tables over their complete domains', engine='TABLE', floor=40)
    enc = repo.get_function(OP + '.encode_op_n')
    dec = repo.get_function(OP + '.decode_op_n')
    tr = Tracer(repo, enc.module, cls=enc.cls)
    for n in range(-1, 18):
        paths = tr.trace(enc.node.body, {enc.params[0]: n})
        key = 'encode:%d' % n
        if len(paths) != 1:
            r.undecided(key, enc.site, 'guards do not fold')
            continue
        p = paths[0]
        if n < 0 or n > 16:
            r.check(p.end == 'raise', key, enc.site, 'refused', 'encode_op_n(%d) does not raise' % n)
            continue
        v = repo.fold(p.endnode.value, enc.module, cls=enc.cls, env={enc.params[0]: n}) if p.end == 'return' else UNKNOWN
        want = 0 if n == 0 else 0x50 + n
        r.check(isinstance(v, int) and int(v) == want, key, enc.site, 'OP_%d = 0x%02x' % (n, want), 'encode_op_n(%d) gives %r, reference 0x%02x' % (n, v, want))
    small, isi = small_ints(repo)
    want_small = [0] + list(range(0x51, 0x61))
    if small is None:
        r.undecided('is_small_int', isi.site, 'is_small_int() does not fold over the 256 opcode values')
    else:
        r.check(small == want_small, 'is_small_int', isi.site, 'true exactly for OP_0 and OP_1..OP_16',
                'is_small_int() holds for %s; reference: OP_0 and OP_1..OP_16' % (['0x%02x' % x for x in small][:20]))
    tr = Tracer(repo, dec.module, cls=dec.cls)
    for v in [0] + list(range(0x4f, 0x62)):
        paths = tr.trace(dec.node.body, {'self': v})
        key = 'decode:0x%02x' % v
        if len(paths) != 1:
            r.undecided(key, dec.site, 'guards do not fold')
            continue
        p = paths[0]
        if v in want_small:
            got = repo.fold(p.endnode.value, dec.module, cls=dec.cls, env={'self': v}) if p.end == 'return' else UNKNOWN
            want = 0 if v == 0 else v - 0x50
            r.check(isinstance(got, int) and got == want, key, dec.site, '-> %d' % want, 'decode_op_n(0x%02x) gives %r, reference %d' % (v, got, want))
        else:
            r.check(p.end == 'raise', key, dec.site, 'refused', 'decode_op_n(0x%02x) does not raise' % v)


# ------------------------------------------------------------------------------------------------ C1 coercion
def path_result(p, other):
    """the value a traced path returns, through the local it was stored in (if any); None = the argument unchanged"""
    ret = p.endnode.value if p.end == 'return' and p.endnode is not None else None
    if ret is None:
        return None
    if isinstance(ret, ast.Name) and ret.id == other and not any(isinstance(s, ast.Assign) and norm(s.targets[0]) == other for s in p.stmts()):
        return None
    cur = ret
    for _ in range(4):
        if not isinstance(cur, ast.Name):
            break
        nxt = None
        for s in p.stmts():
            if isinstance(s, ast.Assign) and norm(s.targets[0]) == cur.id:
                nxt = s.value
        if nxt is None:
            break
        cur = nxt
    return norm(cur)


def rule_coercion(ctx, repo):
    r = ctx.rule('C08.C1', 'coercion table: opcode -> 1 byte; 0..16 -> OP_n; -1 -> OP_1NEGATE; other ints -> minimal number push; bytes -> shortest push', engine='TABLE', floor=8)
    ci = repo.get_class(CS)
    fi = repo.lookup_method(ci, '__coerce_instance')
    if fi is None:
        r.undecided('anchor', ci.site, 'CScript.__coerce_instance not found')
        return
    other = fi.params[1]
    cases = [('opcode', None), ('int', -2), ('int', -1), ('int', 0), ('int', 16), ('int', 17), ('bytes', None), ('bytearray', None), ('other', None)]

    for kind, val in cases:
        def atom(e, path, kind=kind):
            if isinstance(e, ast.Call) and norm(e.func) == 'isinstance' and len(e.args) == 2 and norm(e.args[0]) == other:
                ts = e.args[1].elts if isinstance(e.args[1], ast.Tuple) else [e.args[1]]
                names = {norm(t) for t in ts}
                if kind == 'opcode':
                    return bool(names & {'CScriptOp', 'int'})
                if kind == 'int':
                    return 'int' in names
                if kind in ('bytes', 'bytearray'):
                    return kind in names
                return False
            return None
        tr = Tracer(repo, fi.module, cls=ci, atom=atom)
        env = {other: val} if val is not None else {}
        paths = tr.trace(fi.node.body, env)
        key = '%s%s' % (kind, '' if val is None else ':%d' % val)
        want = {
            'opcode': {'bytes([%s])' % other},
            'int:0': {'bytes([CScriptOp.encode_op_n(%s)])' % other}, 'int:16': {'bytes([CScriptOp.encode_op_n(%s)])' % other},
            'int:-1': {'bytes([OP_1NEGATE])'},
            'int:-2': {'CScriptOp.encode_op_pushdata(bitcoin.core._bignum.bn2vch(%s))' % other}, 'int:17': {'CScriptOp.encode_op_pushdata(bitcoin.core._bignum.bn2vch(%s))' % other},
            'bytes': {'CScriptOp.encode_op_pushdata(%s)' % other}, 'bytearray': {'CScriptOp.encode_op_pushdata(%s)' % other},
            'other': {None},
        }[key]
        if len(paths) != 1:
            # further conditions on the token: the table prescribes ONE result per token class, so every path must give it
            atoms = sorted({k for p_ in paths for k in p_.assume})
            if not all(other in a for a in atoms):
                r.undecided(key, fi.site, 'coercion chain does not fold (%d paths; conditions %s)' % (len(paths), atoms[:3]))
                continue
        results = set()
        for p in paths:
            results.add(path_result(p, other))
        bad = [x for x in results if x not in want]
        r.check(not bad, key, fi.site, '-> %s' % sorted(str(x) for x in results)[0],
                'coercion of %s gives `%s`%s; reference: %s' % (key, bad[0] if bad else None, ' on some values of the token (conditions: %s)' % sorted({k for p_ in paths for k in p_.assume})[:2] if len(paths) > 1 else '', sorted(str(x) for x in want)[0]))
    one = repo.module_value(fi.module, 'OP_1NEGATE')
    r.check(one == 0x4f, 'OP_1NEGATE', fi.site, '0x4f', 'OP_1NEGATE is %r' % (one,))


# ------------------------------------------------------------------------------------------------ I1
def rule_iter_kinds(ctx, repo):
    r = ctx.rule('C08.I1', 'cooked iteration: OP_0 -> 0, pushes -> bytes, OP_1..OP_16 -> 1..16, everything else -> the opcode', engine='TABLE', floor=256)
    ci = repo.get_class(CS)
    fi = repo.lookup_method(ci, '__iter__')
    loops = [n for n in fi.node.body if isinstance(n, ast.For)]
    if len(loops) != 1 or norm(loops[0].iter) != 'self.raw_iter()':
        r.undecided('loop', fi.site, '__iter__ is not a loop over raw_iter()')
        return
    lp = loops[0]
    names = [norm(e) for e in lp.target.elts] if isinstance(lp.target, ast.Tuple) else []
    if len(names) != 3:
        r.undecided('loop-target', fi.site, 'loop target is not a triple')
        return
    opv, datav, _ = names
    small, isi = small_ints(repo)
    dec = repo.get_function(OP + '.decode_op_n')

    def unwrap(t):
        # CScriptOp(x) is the cached singleton for the byte x: the wrapper does not change what is tested or yielded
        return re.sub(r'CScriptOp\((\w+)\)', r'\1', t)

    def atom(e, path):
        t = unwrap(norm(e))
        if t == '%s.is_small_int()' % opv and small is not None:
            v = path.env.get(opv)
            if v is None:
                v = path.env.get('$op')
            return (int(v) in small) if v is not None else None
        if t == '%s is not None' % datav:
            return path.env.get('$push')
        if t == '%s is None' % datav:
            return not path.env.get('$push')
        return None
    tr = Tracer(repo, fi.module, cls=ci, atom=atom)
    tdec = Tracer(repo, dec.module, cls=dec.cls)
    for v in range(256):
        key = c06.opn(v) if v > 0x4b or v == 0 else '0x%02x' % v
        push = v <= 0x4e
        paths = tr.trace(lp.body, {opv: v, '$op': v, '$push': push})
        if len(paths) != 1:
            r.undecided(key, fi.site, 'yield chain does not fold for 0x%02x (%d paths)' % (v, len(paths)))
            continue
        ys = [s.value.value for s in paths[0].stmts() if isinstance(s, ast.Expr) and isinstance(s.value, ast.Yield)]
        if len(ys) != 1:
            r.violated(key, fi.site, '0x%02x yields %d values' % (v, len(ys)))
            continue
        ye = ys[0]
        for _ in range(4):
            # a conditional expression: take the arm this opcode selects
            if isinstance(ye, ast.IfExp):
                tv = tr.tri(ye.test, paths[0])
                if tv is None:
                    break
                ye = ye.body if tv else ye.orelse
        y = unwrap(norm(ye))
        if v == 0:
            ok, want = y == '0', 'the integer 0'
        elif push:
            ok, want = y == datav, 'the pushed bytes'
        elif 0x51 <= v <= 0x60:
            ok, want = y == '%s.decode_op_n()' % opv, 'the integer %d' % (v - 0x50)
            if ok:
                dp = tdec.trace(dec.node.body, {'self': v})
                val = repo.fold(dp[0].endnode.value, dec.module, cls=dec.cls, env={'self': v}) if len(dp) == 1 and dp[0].end == 'return' else UNKNOWN
                ok = val == v - 0x50
        else:
            ok, want = y == opv, 'the opcode itself'
        r.check(ok, key, fi.site, 'yields %s' % y, 'iterating over opcode 0x%02x (%s) yields `%s`; reference: %s' % (v, c06.opn(v), y, want))


# ------------------------------------------------------------------------------------------------ Q1 predicates
def split_and(text):
    e = ast.parse(text, mode='eval').body
    if isinstance(e, ast.BoolOp) and isinstance(e.op, ast.And):
        return [ast.unparse(v) for v in e.values]
    return [text]


def conjuncts(e, repo, fi):
    return sorted(split_and(canon_guard(e, repo, fi.module, fi.cls)))


def rule_predicates(ctx, repo):
    r = ctx.rule('C08.Q1', 'classification predicates equal their reference definitions (length and byte constraints)', engine='RULES', floor=11)
    ci = repo.get_class(CS)

    want = {
        'is_p2sh': 'len(self) == 23 and self[0] == 169 and self[1] == 20 and self[22] == 135',
        'is_witness_v0_keyhash': "len(self) == 22 and self[0:2] == b'\\x00\\x14'",
        'is_witness_v0_nested_keyhash': "len(self) == 23 and self[0:3] == b'\\x16\\x00\\x14'",
        'is_witness_v0_scripthash': "len(self) == 34 and self[0:2] == b'\\x00 '",
        'is_witness_v0_nested_scripthash': "len(self) == 35 and self[0:3] == b'\"\\x00 '",
        'is_unspendable': 'len(self) > 0 and self[0] == 106',
    }
    dom = {'self[0]': (0, 255), 'self[1]': (0, 255), 'self[22]': (0, 255), 'len(self)': (0, None), 'op': (0, 255), 'data[0]': (0, 255), 'len(data)': (0, None)}

    def decide(key, fi, e, ref, what):
        """three-way verdict for a predicate formula against its reference definition"""
        if e is None:
            r.undecided(key, fi.site, 'the body is not a tree of tests and returns')
            return
        v = equiv_folded(e, repo, fi.module, ref, cls=fi.cls, domain=dom)
        if v is True:
            r.ok(key, fi.site, what)
        elif v is False:
            r.violated(key, fi.site, '%s tests `%s`; reference: %s (they differ at %s)' % (key, norm(e)[:160], ref, equiv.witness))
        else:
            r.undecided(key, fi.site, '%s tests `%s`: not comparable with the reference `%s` by the guard algebra' % (key, norm(e)[:160], ref))
    for name, ref in sorted(want.items()):
        fi = repo.lookup_method(ci, name)
        decide(name, fi, common.return_expr(fi, inline_locals=True), ref, ref)

    def element_reject(fi):
        """for a scan `for (op, data, idx) in self.raw_iter(): ...; return True` (or all(<pred> for ...)): the condition on
        one element under which the scan answers False, as a formula text over the loop variables -> (text, names) | None"""
        loops = [n for n in walk_no_nested(fi.node) if isinstance(n, ast.For) and isinstance(n.iter, ast.Call) and norm(n.iter).endswith('self.raw_iter()')]
        gens = [n for n in ast.walk(fi.node) if isinstance(n, (ast.GeneratorExp, ast.ListComp)) and len(n.generators) == 1
                and norm(n.generators[0].iter).endswith('self.raw_iter()')]
        if len(loops) == 1 and not gens:
            lp = loops[0]
            names = [x.id for x in ast.walk(lp.target) if isinstance(x, ast.Name)]
            tr = Tracer(repo, fi.module, cls=fi.cls)
            try:
                paths = tr.trace(lp.body, {})
            except OverflowError:
                return None
            disj = []
            for p in paths:
                if p.end == 'return':
                    v = repo.fold(p.endnode.value, fi.module) if p.endnode.value is not None else None
                    if v is False:
                        conj = ['(%s)' % a if val else 'not (%s)' % a for a, val in p.assume.items()]
                        disj.append(' and '.join(conj) if conj else 'True')
                    elif v is True:
                        return None  # an element that makes the scan answer True early: not this shape
                    else:
                        return None
                elif p.end == 'raise':
                    return None
            # the scan must end in `return True`
            after = [n for n in walk_no_nested(fi.node) if isinstance(n, ast.Return) and not any(n is x for x in ast.walk(lp))]
            if not after or any(repo.fold(n.value, fi.module) is not True for n in after if not _in_handler(fi, n)):
                return None
            return (' or '.join('(%s)' % d for d in disj) if disj else 'False'), names
        if len(gens) == 1 and not loops:
            g = gens[0]
            par = getattr(g, '_parent', None)
            if isinstance(par, ast.Call) and norm(par.func) == 'all' and not g.generators[0].ifs:
                names = [x.id for x in ast.walk(g.generators[0].target) if isinstance(x, ast.Name)]
                return 'not (%s)' % norm(g.elt), names
        return None

    def rename(text, names, std):
        out = text
        for a, b in zip(names, std):
            out = re.sub(r'\b%s\b' % re.escape(a), b, out)
        return out
    # is_push_only: every opcode <= OP_16, invalid pushes -> False
    fi = repo.lookup_method(ci, 'is_push_only')
    er = element_reject(fi)
    if er is None:
        r.undecided('is_push_only', fi.site, 'not a scan over raw_iter() that answers False on a bad element and True at the end')
    else:
        e = ast.parse(rename(er[0], er[1], ['op', 'data', 'idx']), mode='eval').body
        decide('is_push_only', fi, e, 'op > 96', 'False on any opcode above OP_16, True otherwise')
        r.check(handler_returns(fi, 'CScriptInvalidError', 'False'), 'is_push_only:invalid', fi.site, 'an invalid push answers False', 'is_push_only does not answer False on an invalid push')
    # has_canonical_pushes thresholds
    fi = repo.lookup_method(ci, 'has_canonical_pushes')
    er = element_reject(fi)
    if er is None:
        r.undecided('has_canonical_pushes', fi.site, 'not a scan over raw_iter() that answers False on a bad element and True at the end')
    else:
        e = ast.parse(rename(er[0], er[1], ['op', 'data', 'idx']), mode='eval').body
        ref = ('op <= 96 and ((0 < op < 76 and len(data) == 1 and data[0] <= 16) or (op == 76 and len(data) < 76) '
               'or (op == 77 and len(data) < 256) or (op == 78 and len(data) < 65536))')
        decide('has_canonical_pushes', fi, e, ref, 'thresholds 0x4c / 0x100 / 0x10000 and the OP_n rule')
        r.check(handler_returns(fi, 'CScriptInvalidError', 'False'), 'has_canonical_pushes:invalid', fi.site, 'an invalid push answers False', 'has_canonical_pushes does not answer False on an invalid push')
    # is_valid
    fi = repo.lookup_method(ci, 'is_valid')
    ok = handler_returns(fi, 'CScriptInvalidError', 'False') and any(norm(c) == 'list(self)' for c in common.iter_calls(fi.node))
    r.check(ok, 'is_valid', fi.site, 'all pushes parse', 'is_valid is not "iterate everything, False on an invalid push"')
    # is_witness_scriptpubkey: decided over its complete byte domain.  The predicate is a function of the script length
    # and its first two bytes only; it is rewritten over (size, u0, u1) - with the signed readings s = u - 256 for u >= 128
    # where the code unpacks with 'b' - and compared with the BIP141 definition on every (u0, u1) and every length
    # that any comparison can distinguish.  CScriptOp(x).is_small_int() is replaced by its table (decided by C08.N1).
    fi = repo.lookup_method(ci, 'is_witness_scriptpubkey')
    e = common.return_expr(fi, inline_locals=True)
    if e is None:
        r.undecided('is_witness_scriptpubkey', fi.site, 'the body is not a tree of tests and returns')
    else:
        from ..rules import _Folder, _copy
        fe = _Folder(repo, fi.module, fi.cls, None).visit(_copy(e))
        txt = ast.unparse(fe)
        subs = [("struct.unpack('<bb', self[:2])[0]", 's0'), ("struct.unpack('<bb', self[:2])[1]", 's1'), ("struct.unpack(b'<bb', self[:2])[0]", 's0'),
                ("struct.unpack(b'<bb', self[:2])[1]", 's1'), ("struct.unpack('<BB', self[:2])[0]", 'u0'), ("struct.unpack('<BB', self[:2])[1]", 'u1'),
                ("struct.unpack('bb', self[:2])[0]", 's0'), ("struct.unpack('bb', self[:2])[1]", 's1'), ("struct.unpack('BB', self[:2])[0]", 'u0'),
                ("struct.unpack('BB', self[:2])[1]", 'u1'), ('len(self)', 'size'), ('self[0]', 'u0'), ('self[1]', 'u1')]
        for a, b in subs:
            txt = txt.replace(a, b)
        txt = re.sub(r'CScriptOp\((\w+)\)\.is_small_int\(\)', r'(\1 == 0 or 81 <= \1 <= 96 or (\1 < 0 and (\1 + 256 == 0 or 81 <= \1 + 256 <= 96)))', txt)
        names = {n.id for n in ast.walk(ast.parse(txt, mode='eval')) if isinstance(n, ast.Name)}
        calls = [n for n in ast.walk(ast.parse(txt, mode='eval')) if isinstance(n, (ast.Call, ast.Attribute, ast.Subscript))]
        if names - {'size', 'u0', 'u1', 's0', 's1'} or calls:
            r.undecided('is_witness_scriptpubkey', fi.site, 'the predicate reads more than the length and the first two bytes: `%s`' % txt[:160])
        else:
            code = compile(ast.parse(txt, mode='eval'), '<predicate>', 'eval')
            consts = {c.value for c in ast.walk(ast.parse(txt, mode='eval')) if isinstance(c, ast.Constant) and isinstance(c.value, int)}
            bad = None
            n_pts = 0
            for u0 in range(256):
                for u1 in range(256):
                    sizes = {2, 3, 4, 5, 41, 42, 43, u1 + 1, u1 + 2, u1 + 3} | {c + d for c in consts for d in (-1, 0, 1) if 2 <= c + d <= 600}
                    for size in sizes:
                        if size < 2:
                            continue
                        env = {'size': size, 'u0': u0, 'u1': u1, 's0': u0 - 256 if u0 >= 128 else u0, 's1': u1 - 256 if u1 >= 128 else u1}
                        got = bool(eval(code, {'__builtins__': {}}, env))
                        want_ = 4 <= size <= 42 and (u0 == 0 or 81 <= u0 <= 96) and u1 + 2 == size
                        n_pts += 1
                        if got != want_:
                            bad = (size, u0, u1, got)
                            break
                    if bad:
                        break
                if bad:
                    break
            r.check(bad is None, 'is_witness_scriptpubkey', fi.site, '4..42 bytes, version opcode OP_0/OP_1..OP_16, push length + 2 == size (%d points)' % n_pts,
                    'is_witness_scriptpubkey answers %s for a %d-byte script starting %02x %02x; BIP141: 4..42 bytes, first byte OP_0 or OP_1..OP_16, second byte = length - 2'
                    % (bad[3] if bad else None, bad[0] if bad else 0, bad[1] if bad else 0, bad[2] if bad else 0))
    # witness_version
    fi = repo.lookup_method(ci, 'witness_version')
    rets = [norm(n.value) for n in walk_no_nested(fi.node) if isinstance(n, ast.Return)]
    r.check(rets == ['next(iter(self))'], 'witness_version', fi.site, 'first token', 'witness_version returns %s' % rets)


def _in_handler(fi, node):
    cur = getattr(node, '_parent', None)
    while cur is not None and cur is not fi.node:
        if isinstance(cur, ast.ExceptHandler):
            return True
        cur = getattr(cur, '_parent', None)
    return False


def handler_returns(fi, excname, value):
    for n in walk_no_nested(fi.node):
        if isinstance(n, ast.Try):
            for h in n.handlers:
                if h.type is not None and norm(h.type) == excname:
                    rets = [norm(x.value) for x in ast.walk(h) if isinstance(x, ast.Return)]
                    if rets == [value]:
                        return True
    return False


# ------------------------------------------------------------------------------------------------ S1 sigops
def rule_sigops(ctx, repo, eng):
    r = ctx.rule('C08.S1', 'GetSigOpCount: weights 1 / 20 / decoded preceding OP_n (accurate mode), counting up to the first malformed push, nothing escapes',
                 engine='TABLE+ESCAPE', floor=10)
    ci = repo.get_class(CS)
    fi = repo.lookup_method(ci, 'GetSigOpCount')
    facc = fi.params[1]
    loops = [n for n in ast.walk(fi.node) if isinstance(n, ast.For) and 'raw_iter()' in norm(n.iter)]
    loops = [n for n in loops if not isinstance(n.iter, (ast.ListComp, ast.GeneratorExp)) and not (isinstance(n.iter, ast.Call) and norm(n.iter.func) in ('list', 'tuple', 'zip', 'sorted', 'enumerate')
                                                                                                   and any(isinstance(a_, (ast.ListComp, ast.List, ast.BinOp)) for a_ in n.iter.args))]
    if len(loops) != 1:
        mat = [n for n in ast.walk(fi.node) if isinstance(n, (ast.ListComp, ast.GeneratorExp)) and any('raw_iter()' in norm(g.iter) for g in n.generators)]
        mat = [n for n in mat if isinstance(n, ast.ListComp) or (isinstance(getattr(n, '_parent', None), ast.Call) and norm(n._parent.func) in ('list', 'tuple', 'sorted'))]
        if mat and not loops:
            r.violated('loop', common.site_of(fi, mat[0]), 'GetSigOpCount first collects the whole of raw_iter() (`%s`) and counts afterwards: a malformed push anywhere in the script raises before '
                       'anything is counted, so the count is 0 instead of the operations up to the first malformed push' % norm(mat[0])[:70], sure=True)
            return
        r.undecided('loop', fi.site, 'loop over raw_iter() not found')
        return
    lp = loops[0]
    if not (isinstance(lp.target, ast.Tuple) and len(lp.target.elts) >= 2):
        r.undecided('loop', common.site_of(fi, lp), 'the loop over raw_iter() binds `%s`' % norm(lp.target))
        return
    opv = norm(lp.target.elts[0])
    datav = norm(lp.target.elts[1]) if len(lp.target.elts) > 1 and isinstance(lp.target.elts[1], ast.Name) else None
    # the last-opcode variable: assigned `= opv` at the end of the body
    lastv = None
    for s in lp.body:
        if isinstance(s, ast.Assign) and norm(s.value) == opv:
            lastv = norm(s.targets[0])
    r.check(lastv is not None and isinstance(lp.body[-1], ast.Assign) and norm(lp.body[-1].value) == opv, 'last-opcode-updated', common.site_of(fi, lp),
            'the previous opcode is remembered after every operation', 'the loop does not end with `<last> = %s` for every operation' % opv)
    if lastv is None:
        return
    init = [norm(n.value) for n in walk_no_nested(fi.node) if isinstance(n, ast.Assign) and norm(n.targets[0]) == lastv and n not in lp.body]
    if not init:
        r.violated('last-opcode-initialised', fi.site, 'the previous-opcode variable `%s` has no value before the first operation: a script that starts with OP_CHECKMULTISIG raises UnboundLocalError in accurate mode '
                   'instead of counting 20' % lastv, sure=True)
    # the count starts at zero
    accs_ = sorted({norm(n.target) for n in ast.walk(lp) if isinstance(n, ast.AugAssign)})
    for a_ in accs_:
        ini_ = [n for n in walk_no_nested(fi.node) if isinstance(n, ast.Assign) and norm(n.targets[0]) == a_ and n not in list(ast.walk(lp)) and isinstance(n.value, ast.Constant)]
        if len(ini_) == 1:
            r.check(ini_[0].value.value == 0 and not isinstance(ini_[0].value.value, bool), 'count-starts-at-zero', common.site_of(fi, ini_[0]), '%s = 0' % a_,
                    'the signature-operation count starts at %r: every script (the empty one included) counts too many' % (ini_[0].value.value,), sure=True)
    small, isi = small_ints(repo)
    dec = repo.get_function(OP + '.decode_op_n')
    tdec = Tracer(repo, dec.module, cls=dec.cls)
    dec_cache = {}

    def decode(v):
        if v not in dec_cache:
            dp = tdec.trace(dec.node.body, {'self': v})
            dec_cache[v] = repo.fold(dp[0].endnode.value, dec.module, cls=dec.cls, env={'self': v}) if len(dp) == 1 and dp[0].end == 'return' else None
        return dec_cache[v]
    def small_atom(e, path):
        # <op>.is_small_int() / CScriptOp(<op>).is_small_int() for an opcode variable enumerated in this row
        m_ = re.match(r'^(?:CScriptOp\()?(\w+)\)?\.is_small_int\(\)$', norm(e))
        if m_ and small is not None and isinstance(path.env.get(m_.group(1)), int):
            return int(path.env[m_.group(1)]) in small
        return None
    tr = Tracer(repo, fi.module, cls=ci, atom=small_atom)
    sig = {O['OP_CHECKSIG'], O['OP_CHECKSIGVERIFY']}
    multi = {O['OP_CHECKMULTISIG'], O['OP_CHECKMULTISIGVERIFY']}
    body = [s for s in lp.body if not (isinstance(s, ast.Assign) and norm(s.targets[0]) == lastv)]
    bad = {}
    unfolded = []
    rows = 0
    for acc in (True, False):
        for v in range(256):
            lasts = range(256) if v in multi else (0x52,)
            for lv in lasts:
                rows += 1
                env_ = {opv: v, facc: acc, lastv: lv}
                if datav:
                    # raw_iter yields the pushed bytes for opcodes up to OP_PUSHDATA4 and None for every other opcode
                    env_[datav] = None if v > 0x4e else (b'' if v == 0 else b'\x00')
                paths = tr.trace(body, env_)
                if len(paths) == 1 and paths[0].end in ('continue', 'break', 'return'):
                    bad.setdefault('%s:%s' % (c06.opn(v), 'accurate' if acc else 'legacy'), []).append(
                        (v, lv, acc, 'the iteration ends with `%s` before the previous-opcode variable is updated: the operation after it sees a stale previous opcode' % paths[0].end))
                    continue
                if len(paths) != 1:
                    unfolded.append((v, lv, acc, sorted({k_ for p_ in paths for k_ in p_.assume})[:2]))
                    continue
                inc = 0
                und = None
                for s in paths[0].stmts():
                    if isinstance(s, ast.AugAssign) and isinstance(s.op, ast.Add) and norm(s.target) == 'n':
                        val = repo.fold(s.value, fi.module, cls=ci)
                        if isinstance(val, int):
                            inc += val
                        else:
                            t = norm(s.value)
                            m = re.match(r'^(?:CScriptOp\()?(\w+)\)?\.decode_op_n\(\)$', t)
                            if m and m.group(1) == lastv:
                                d = decode(lv)
                                if d is None:
                                    und = 'decode_op_n(0x%02x) raises' % lv
                                else:
                                    inc += d
                            elif m:
                                und = 'decodes `%s`, not the preceding opcode' % m.group(1)
                            else:
                                und = 'adds `%s`' % t
                want = 1 if v in sig else (((lv - 0x50) if (acc and 0x51 <= lv <= 0x60) else 20) if v in multi else 0)
                if und:
                    bad.setdefault('%s:%s' % (c06.opn(v), 'accurate' if acc else 'legacy'), []).append((v, lv, acc, und))
                elif inc != want:
                    bad.setdefault('%s:%s' % (c06.opn(v), 'accurate' if acc else 'legacy'), []).append((v, lv, acc, 'counts %d, reference %d' % (inc, want)))
    ctx.extra['sigop_rows'] = rows
    if unfolded:
        v, lv, acc, atoms = unfolded[0]
        r.undecided('rows', common.site_of(fi, lp), '%d rows do not fold (first: %s after %s, %s mode; conditions %s)' % (len(unfolded), c06.opn(v), c06.opn(lv), 'accurate' if acc else 'legacy', atoms))
    for k in ['%s:%s' % (c06.opn(v), m) for v in sorted(sig | multi) for m in ('accurate', 'legacy')] + ['other-opcodes']:
        if k == 'other-opcodes':
            b = [x for kk, xs in bad.items() for x in xs if x[0] not in sig | multi]
        else:
            b = bad.get(k, [])
        if b:
            v, lv, acc, why = b[0]
            r.violated(k, common.site_of(fi, lp), '%s after %s (%s mode): %s (%d deviating rows)' % (c06.opn(v), c06.opn(lv), 'accurate' if acc else 'legacy', why, len(b)))
        else:
            r.ok(k, common.site_of(fi, lp), 'all rows agree')
    # counts up to the first malformed push: the loop is inside a try whose CScriptInvalidError handler falls through to `return n`
    tries = [n for n in walk_no_nested(fi.node) if isinstance(n, ast.Try) and lp in n.body]
    ok = False
    for t in tries:
        for h in t.handlers:
            if h.type is not None and norm(h.type) == 'CScriptInvalidError' and not any(isinstance(x, (ast.Raise, ast.Return)) for x in ast.walk(h)):
                ok = True
    rets = [norm(n.value) for n in walk_no_nested(fi.node) if isinstance(n, ast.Return)]
    r.check(ok and rets == ['n'], 'malformed-push', fi.site, 'a malformed push ends the count, which is returned',
            'a malformed push is not absorbed: GetSigOpCount (and CheckBlock through it) raises CScriptInvalidError instead of counting up to it')
    res = Resolver(repo, eng)
    ee = Escape(repo, res)
    from .c07 import script_justified
    from ..interp import Interp
    just = script_justified(repo, Interp(repo))
    rule_entry(r, repo, ee, fi, [], 'GetSigOpCount', ctx=ci, justified=just)


# ------------------------------------------------------------------------------------------------ siblings
def rule_siblings(ctx, repo):
    r = ctx.rule('C08.X1', 'every consumer of raw_iter either absorbs the invalid-script error or is listed as propagating it by design', engine='ESCAPE', floor=6)
    propagating = {
        'bitcoin.core.script.CScript.__iter__': 'cooked iteration reports a truncated push to its caller (the property requires the invalid-script error)',
        'bitcoin.core.script.FindAndDelete': 'runs inside EvalScript, which converts the error (C07.X2)',
        'bitcoin.core.scripteval._EvalScript': 'converted by EvalScript (C07.X2)',
        'bitcoin.core.script.CScript.witness_version': 'first token of a script already classified as a witness program',
    }
    n = 0
    for fi in repo.functions.values():
        uses = [c for c in common.iter_calls(fi.node) if isinstance(c.func, ast.Attribute) and c.func.attr == 'raw_iter']
        iters = [c for c in common.iter_calls(fi.node) if norm(c) in ('list(self)', 'tuple(self)')] if fi.cls is not None and fi.cls.name == 'CScript' else []
        if not uses and not iters:
            continue
        n += 1
        key = fi.qualname.replace('bitcoin.core.', '')
        absorbed = False
        for t in walk_no_nested(fi.node):
            if isinstance(t, ast.Try):
                inside = any(c is x for c in uses + iters for b in t.body for x in ast.walk(b))
                if inside and any(h.type is not None and norm(h.type) in ('CScriptInvalidError', 'Exception') for h in t.handlers):
                    absorbed = True
        if absorbed:
            r.ok(key, fi.site, 'absorbs CScriptInvalidError')
        elif fi.qualname in propagating:
            r.ok(key, fi.site, 'propagates by design: ' + propagating[fi.qualname])
        else:
            r.violated(key, fi.site, '%s iterates over the script without handling CScriptInvalidError: a truncated push makes it raise instead of answering' % fi.qualname)
