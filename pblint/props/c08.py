"""C08 Script building, tokenising, number codec and classification predicates."""
import ast
import re

from ..model import UNKNOWN, ClassRef, FuncRef, ClassInfo, OpInt, norm, walk_no_nested
from ..layout import LayoutEngine, Undecided, _WState, normalise, fmt_info
from ..table import Tracer
from ..resolve import Resolver
from ..escape import Escape, rule_entry, enclosing_if
from ..rules import canon_guard, canon_text, equiv, equiv_folded
from .. import common, spec, flow
from . import c06, c20

O = spec.OPCODES
CS = 'bitcoin.core.script.CScript'
OP = 'bitcoin.core.script.CScriptOp'


def run(ctx):
    repo = ctx.repo
    eng = LayoutEngine(repo)
    rule_pushdata_writer(ctx, repo, eng)
    rule_raw_iter(ctx, repo)
    rule_opn_codec(ctx, repo)
    rule_coercion(ctx, repo)
    rule_iter_kinds(ctx, repo)
    rule_predicates(ctx, repo)
    rule_sigops(ctx, repo, eng)
    rule_siblings(ctx, repo)
    ctx.not_decided += ['the script-number codec bn2vch/vch2bn (arithmetic; bijection not decided)', 'byte-exact rebuild equality of arbitrary scripts (follows from the decided tables plus the codec)',
                        'is_witness_scriptpubkey: the two header-byte conditions read through a signed struct format are listed, not decided']
    ctx.assume('bytes indexing/slicing semantics')


def small_ints(repo):
    """opcodes for which CScriptOp.is_small_int() returns True, by folding its guards over 0..255"""
    op = repo.get_class(OP)
    isi = repo.lookup_method(op, 'is_small_int')
    tr = Tracer(repo, isi.module, cls=op)
    out = []
    for v in range(256):
        ps = tr.trace(isi.node.body, {'self': v})
        if len(ps) != 1 or ps[0].end != 'return':
            return None, isi
        val = repo.fold(ps[0].endnode.value, isi.module, cls=op, env={'self': v})
        if val is UNKNOWN or not isinstance(val, (bool, int)):
            return None, isi
        if val:
            out.append(v)
    return out, isi


# ------------------------------------------------------------------------------------------------ P1
def rule_pushdata_writer(ctx, repo, eng):
    r = ctx.rule('C08.P1', 'encode_op_pushdata: shortest push opcode for each length class, little-endian length of the right width', engine='TABLE+LAYOUT', floor=9)
    fi = repo.get_function(OP + '.encode_op_pushdata')
    d = fi.params[0]
    tr = Tracer(repo, fi.module, cls=fi.cls)
    want = [  # (length, prefix const, format code of the length, or 'direct')
        (0, None, 'B'), (0x4b, None, 'B'), (0x4c, b'\x4c', 'B'), (0xff, b'\x4c', 'B'), (0x100, b'\x4d', '<H'), (0xffff, b'\x4d', '<H'),
        (0x10000, b'\x4e', '<I'), (0xffffffff, b'\x4e', '<I'), (0x100000000, 'raise', None),
    ]
    for L, prefix, code in want:
        key = 'len=0x%x' % L
        paths = tr.trace(fi.node.body, {'$x': {'len(%s)' % d: L}})
        if len(paths) != 1:
            r.undecided(key, fi.site, 'threshold chain does not fold for length 0x%x' % L)
            continue
        p = paths[0]
        if prefix == 'raise':
            r.check(p.end == 'raise', key, fi.site, 'lengths above 2**32-1 are refused', 'a 2**32-byte push does not raise')
            continue
        if p.end != 'return':
            r.violated(key, fi.site, 'length 0x%x is refused although it fits a push opcode' % L)
            continue
        try:
            ws = _WState(eng, fi, '$none', {}, fi.cls, 0)
            ws.streams = set()
            items = normalise(ws.value_items(p.endnode.value))
        except Undecided as e:
            r.undecided(key, common.site_of(fi, p.endnode), str(e))
            continue
        got_prefix = None
        rest = list(items)
        if rest and rest[0].kind == 'const':
            got_prefix = rest[0].value
            rest = rest[1:]
        ok = len(rest) == 2 and rest[0].kind == 'int' and rest[0].field == 'len(%s)' % d and rest[1].kind == 'raw' and rest[1].field == d
        if ok:
            gc = rest[0].fmt
            w, order, rng = fmt_info(gc)
            ww, oo, _ = fmt_info(code)
            ok = got_prefix == prefix and w == ww and (w == 1 or order == '<') and rng and rng[0] <= 0 and rng[1] >= L
        r.check(ok, key, common.site_of(fi, p.endnode), 'prefix %r, length as %s' % (prefix, code),
                'a %d-byte push is encoded as `%s`; shortest form: prefix %r, length as %s little-endian, then the data' % (L, norm(p.endnode.value), prefix, code))


# ------------------------------------------------------------------------------------------------ P2 / Y1
def rule_raw_iter(ctx, repo):
    r = ctx.rule('C08.P2', 'raw_iter: push classes read the same widths little-endian, truncation guards cover exactly the bytes read, the cursor always advances, one yield per operation',
                 engine='TABLE', floor=256)
    fi = repo.get_function(CS + '.raw_iter')
    loops = [n for n in fi.node.body if isinstance(n, ast.While)]
    if len(loops) != 1:
        r.undecided('loop', fi.site, 'tokeniser loop not found')
        return
    lp = loops[0]
    r.check(norm(lp.test) in ('i < len(self)',), 'loop-condition', common.site_of(fi, lp), 'while i < len(self)', 'tokeniser loop condition is `%s`' % norm(lp.test))
    tr = Tracer(repo, fi.module, cls=fi.cls)
    tr.pinned = {'opcode'}
    body = [s for s in lp.body if not (isinstance(s, ast.Assign) and norm(s.targets[0]) == 'opcode')]
    opsrc = [norm(s.value) for s in lp.body if isinstance(s, ast.Assign) and norm(s.targets[0]) == 'opcode']
    r.check(opsrc == ['self[i]'], 'opcode-byte', common.site_of(fi, lp), 'opcode = self[i]', 'opcode is read as %s' % opsrc)
    widths = {0x4c: 1, 0x4d: 2, 0x4e: 4}
    for v in range(256):
        key = c06.opn(v) if v > 0x4b or v == 0 else '0x%02x' % v
        paths = tr.trace(body, {'opcode': v})
        problems = []
        yields = 0
        for p in paths:
            stmts = p.stmts()
            texts = [norm(s) for s in stmts]
            ys = [s for s in stmts if isinstance(s, ast.Expr) and isinstance(s.value, ast.Yield)]
            if p.end == 'raise':
                continue
            if p.end in ('fall', 'continue'):
                if len(ys) != 1:
                    problems.append('an iteration completes with %d yields' % len(ys))
                    continue
                yields += 1
                y = ys[0].value.value
                if not (isinstance(y, ast.Tuple) and len(y.elts) == 3 and norm(y.elts[0]) == 'opcode' and norm(y.elts[2]) == 'sop_idx'):
                    problems.append('yields `%s`, not (opcode, data, start index)' % norm(y))
                    continue
                if 'i += 1' not in texts or texts.index('i += 1') > texts.index(norm(ys[0])):
                    problems.append('the cursor does not advance past the opcode byte')
                if 'sop_idx = i' not in texts or texts.index('sop_idx = i') > texts.index('i += 1'):
                    problems.append('the start index is not taken before the cursor advances')
                data = norm(y.elts[1])
                if v > 0x4e:
                    if data != 'None':
                        problems.append('non-push opcode yields data `%s`' % data)
                    continue
                # push: datasize expression, guards, advance
                ds = None
                for s_ in stmts:
                    if isinstance(s_, ast.Assign) and norm(s_.targets[0]) == 'datasize' and norm(s_.value) != 'None':
                        ds = s_.value
                w = widths.get(v, 0)
                if v < 0x4c:
                    if ds is None or repo.fold(ds, fi.module, env={'opcode': v}) != v:
                        problems.append('direct push size is `%s`, not the opcode value' % (norm(ds) if ds is not None else None))
                else:
                    terms = length_terms(ds)
                    if terms != {(k, 8 * k) for k in range(w)}:
                        problems.append('length of %s is decoded as `%s`: expected %d little-endian byte(s) self[i+k] << 8k' % (c06.opn(v), norm(ds) if ds is not None else None, w))
                    g = {k: val for k, val in p.assume.items() if 'len(self)' in k and 'datasize' not in k and 'data' not in k.split('len(self)')[0][-0:]}
                    want_g = 'i >= len(self)' if w == 1 else 'i + %d >= len(self)' % (w - 1)
                    if p.assume.get(want_g) is not False:
                        problems.append('the length bytes of %s are read without the guard `%s` (guards on this path: %s)' % (c06.opn(v), want_g, sorted(k for k in p.assume if 'len(self)' in k)))
                    if 'i += %d' % w not in texts:
                        problems.append('the cursor does not skip the %d length byte(s)' % w)
                if data != 'data' or 'data = bytes(self[i:i + datasize])' not in texts:
                    problems.append('pushed data is not self[i:i+datasize]')
                if p.assume.get('len(data) < datasize') is not False:
                    problems.append('no truncation guard `len(data) < datasize` before the push is yielded')
                if 'i += datasize' not in texts:
                    problems.append('the cursor does not skip the pushed data')
        # raising paths: truncation -> CScriptTruncatedPushDataError, missing length -> CScriptInvalidError
        for p in paths:
            if p.end == 'raise' and isinstance(p.endnode, ast.Raise):
                exc = p.endnode.exc
                nm = norm(exc.func) if isinstance(exc, ast.Call) else norm(exc)
                if nm not in ('CScriptInvalidError', 'CScriptTruncatedPushDataError'):
                    problems.append('raises %s' % nm)
                if p.assume.get('len(data) < datasize') is True and nm != 'CScriptTruncatedPushDataError':
                    problems.append('a truncated push raises %s, not the truncated-push error' % nm)
            elif p.end == 'raise':
                problems.append('reaches `%s`' % norm(p.endnode)[:40])
        if not yields and v > 0x4e:
            problems.append('no completing path')
        if problems:
            r.violated(key, common.site_of(fi, lp), '%s: %s' % (key, '; '.join(sorted(set(problems)))))
        else:
            r.ok(key, common.site_of(fi, lp), '%d path(s)' % len(paths))


def length_terms(e):
    """self[i+k] << s terms of a little-endian length expression -> {(k, s)}"""
    if e is None:
        return None
    out = set()

    def term(t):
        sh = 0
        if isinstance(t, ast.BinOp) and isinstance(t.op, ast.LShift) and isinstance(t.right, ast.Constant):
            sh = t.right.value
            t = t.left
        if isinstance(t, ast.Subscript) and norm(t.value) == 'self':
            m = re.match(r'^i(?: \+ (\d+))?$', norm(t.slice))
            if m:
                out.add((int(m.group(1) or 0), sh))
                return True
        return False

    def walk(x):
        if isinstance(x, ast.BinOp) and isinstance(x.op, (ast.Add, ast.BitOr)):
            return walk(x.left) and walk(x.right)
        return term(x)
    return out if walk(e) else None


# ------------------------------------------------------------------------------------------------ OP_n codec
def rule_opn_codec(ctx, repo):
    r = ctx.rule('C08.N1', 'encode_op_n / decode_op_n / is_small_int tables over their complete domains', engine='TABLE', floor=40)
    enc = repo.get_function(OP + '.encode_op_n')
    dec = repo.get_function(OP + '.decode_op_n')
    tr = Tracer(repo, enc.module, cls=enc.cls)
    for n in range(-1, 18):
        paths = tr.trace(enc.node.body, {enc.params[0]: n})
        key = 'encode:%d' % n
        if len(paths) != 1:
            r.undecided(key, enc.site, 'guards do not fold')
            continue
        p = paths[0]
        if n < 0 or n > 16:
            r.check(p.end == 'raise', key, enc.site, 'refused', 'encode_op_n(%d) does not raise' % n)
            continue
        v = repo.fold(p.endnode.value, enc.module, cls=enc.cls, env={enc.params[0]: n}) if p.end == 'return' else UNKNOWN
        want = 0 if n == 0 else 0x50 + n
        r.check(isinstance(v, int) and int(v) == want, key, enc.site, 'OP_%d = 0x%02x' % (n, want), 'encode_op_n(%d) gives %r, reference 0x%02x' % (n, v, want))
    small, isi = small_ints(repo)
    want_small = [0] + list(range(0x51, 0x61))
    if small is None:
        r.undecided('is_small_int', isi.site, 'is_small_int() does not fold over the 256 opcode values')
    else:
        r.check(small == want_small, 'is_small_int', isi.site, 'true exactly for OP_0 and OP_1..OP_16',
                'is_small_int() holds for %s; reference: OP_0 and OP_1..OP_16' % (['0x%02x' % x for x in small][:20]))
    tr = Tracer(repo, dec.module, cls=dec.cls)
    for v in [0] + list(range(0x4f, 0x62)):
        paths = tr.trace(dec.node.body, {'self': v})
        key = 'decode:0x%02x' % v
        if len(paths) != 1:
            r.undecided(key, dec.site, 'guards do not fold')
            continue
        p = paths[0]
        if v in want_small:
            got = repo.fold(p.endnode.value, dec.module, cls=dec.cls, env={'self': v}) if p.end == 'return' else UNKNOWN
            want = 0 if v == 0 else v - 0x50
            r.check(isinstance(got, int) and got == want, key, dec.site, '-> %d' % want, 'decode_op_n(0x%02x) gives %r, reference %d' % (v, got, want))
        else:
            r.check(p.end == 'raise', key, dec.site, 'refused', 'decode_op_n(0x%02x) does not raise' % v)


# ------------------------------------------------------------------------------------------------ C1 coercion
def rule_coercion(ctx, repo):
    r = ctx.rule('C08.C1', 'coercion table: opcode -> 1 byte; 0..16 -> OP_n; -1 -> OP_1NEGATE; other ints -> minimal number push; bytes -> shortest push', engine='TABLE', floor=8)
    ci = repo.get_class(CS)
    fi = repo.lookup_method(ci, '__coerce_instance')
    if fi is None:
        r.undecided('anchor', ci.site, 'CScript.__coerce_instance not found')
        return
    other = fi.params[1]
    cases = [('opcode', None), ('int', -2), ('int', -1), ('int', 0), ('int', 16), ('int', 17), ('bytes', None), ('bytearray', None), ('other', None)]

    for kind, val in cases:
        def atom(e, path, kind=kind):
            if isinstance(e, ast.Call) and norm(e.func) == 'isinstance' and len(e.args) == 2 and norm(e.args[0]) == other:
                ts = e.args[1].elts if isinstance(e.args[1], ast.Tuple) else [e.args[1]]
                names = {norm(t) for t in ts}
                if kind == 'opcode':
                    return bool(names & {'CScriptOp', 'int'})
                if kind == 'int':
                    return 'int' in names
                if kind in ('bytes', 'bytearray'):
                    return kind in names
                return False
            return None
        tr = Tracer(repo, fi.module, cls=ci, atom=atom)
        env = {other: val} if val is not None else {}
        paths = tr.trace(fi.node.body, env)
        key = '%s%s' % (kind, '' if val is None else ':%d' % val)
        if len(paths) != 1:
            r.undecided(key, fi.site, 'coercion chain does not fold (%d paths)' % len(paths))
            continue
        p = paths[0]
        res = None
        for s in p.stmts():
            if isinstance(s, ast.Assign) and norm(s.targets[0]) == other:
                res = norm(s.value)
        want = {
            'opcode': {'bytes([%s])' % other},
            'int:0': {'bytes([CScriptOp.encode_op_n(%s)])' % other}, 'int:16': {'bytes([CScriptOp.encode_op_n(%s)])' % other},
            'int:-1': {'bytes([OP_1NEGATE])'},
            'int:-2': {'CScriptOp.encode_op_pushdata(bitcoin.core._bignum.bn2vch(%s))' % other}, 'int:17': {'CScriptOp.encode_op_pushdata(bitcoin.core._bignum.bn2vch(%s))' % other},
            'bytes': {'CScriptOp.encode_op_pushdata(%s)' % other}, 'bytearray': {'CScriptOp.encode_op_pushdata(%s)' % other},
            'other': {None},
        }[key]
        r.check(res in want, key, fi.site, '-> %s' % res, 'coercion of %s gives `%s`; reference: %s' % (key, res, sorted(str(x) for x in want)[0]))
    one = repo.module_value(fi.module, 'OP_1NEGATE')
    r.check(one == 0x4f, 'OP_1NEGATE', fi.site, '0x4f', 'OP_1NEGATE is %r' % (one,))


# ------------------------------------------------------------------------------------------------ I1
def rule_iter_kinds(ctx, repo):
    r = ctx.rule('C08.I1', 'cooked iteration: OP_0 -> 0, pushes -> bytes, OP_1..OP_16 -> 1..16, everything else -> the opcode', engine='TABLE', floor=256)
    ci = repo.get_class(CS)
    fi = repo.lookup_method(ci, '__iter__')
    loops = [n for n in fi.node.body if isinstance(n, ast.For)]
    if len(loops) != 1 or norm(loops[0].iter) != 'self.raw_iter()':
        r.undecided('loop', fi.site, '__iter__ is not a loop over raw_iter()')
        return
    lp = loops[0]
    names = [norm(e) for e in lp.target.elts] if isinstance(lp.target, ast.Tuple) else []
    if len(names) != 3:
        r.undecided('loop-target', fi.site, 'loop target is not a triple')
        return
    opv, datav, _ = names
    small, isi = small_ints(repo)
    dec = repo.get_function(OP + '.decode_op_n')

    def atom(e, path):
        t = norm(e)
        if t == '%s.is_small_int()' % opv and small is not None:
            v = path.env.get(opv)
            if v is None:
                v = path.env.get('$op')
            return (int(v) in small) if v is not None else None
        if t == '%s is not None' % datav:
            return path.env.get('$push')
        if t == '%s is None' % datav:
            return not path.env.get('$push')
        return None
    tr = Tracer(repo, fi.module, cls=ci, atom=atom)
    tdec = Tracer(repo, dec.module, cls=dec.cls)
    for v in range(256):
        key = c06.opn(v) if v > 0x4b or v == 0 else '0x%02x' % v
        push = v <= 0x4e
        paths = tr.trace(lp.body, {opv: v, '$op': v, '$push': push})
        if len(paths) != 1:
            r.undecided(key, fi.site, 'yield chain does not fold for 0x%02x (%d paths)' % (v, len(paths)))
            continue
        ys = [s.value.value for s in paths[0].stmts() if isinstance(s, ast.Expr) and isinstance(s.value, ast.Yield)]
        if len(ys) != 1:
            r.violated(key, fi.site, '0x%02x yields %d values' % (v, len(ys)))
            continue
        y = norm(ys[0])
        if v == 0:
            ok, want = y == '0', 'the integer 0'
        elif push:
            ok, want = y == datav, 'the pushed bytes'
        elif 0x51 <= v <= 0x60:
            ok, want = y == '%s.decode_op_n()' % opv, 'the integer %d' % (v - 0x50)
            if ok:
                dp = tdec.trace(dec.node.body, {'self': v})
                val = repo.fold(dp[0].endnode.value, dec.module, cls=dec.cls, env={'self': v}) if len(dp) == 1 and dp[0].end == 'return' else UNKNOWN
                ok = val == v - 0x50
        else:
            ok, want = y in ('CScriptOp(%s)' % opv, opv), 'the opcode itself'
        r.check(ok, key, fi.site, 'yields %s' % y, 'iterating over opcode 0x%02x (%s) yields `%s`; reference: %s' % (v, c06.opn(v), y, want))


# ------------------------------------------------------------------------------------------------ Q1 predicates
def split_and(text):
    e = ast.parse(text, mode='eval').body
    if isinstance(e, ast.BoolOp) and isinstance(e.op, ast.And):
        return [ast.unparse(v) for v in e.values]
    return [text]


def conjuncts(e, repo, fi):
    return sorted(split_and(canon_guard(e, repo, fi.module, fi.cls)))


def rule_predicates(ctx, repo):
    r = ctx.rule('C08.Q1', 'classification predicates equal their reference definitions (length and byte constraints)', engine='RULES', floor=11)
    ci = repo.get_class(CS)

    def single_return(name):
        fi = repo.lookup_method(ci, name)
        body = [s for s in fi.node.body if not (isinstance(s, ast.Expr) and isinstance(s.value, ast.Constant))]
        if len(body) == 1 and isinstance(body[0], ast.Return):
            return fi, body[0].value
        return fi, None
    want = {
        'is_p2sh': ['len(self) == 23', 'self[0] == 169', 'self[1] == 20', 'self[22] == 135'],
        'is_witness_v0_keyhash': ['len(self) == 22', "self[0:2] == b'\\x00\\x14'"],
        'is_witness_v0_nested_keyhash': ['len(self) == 23', "self[0:3] == b'\\x16\\x00\\x14'"],
        'is_witness_v0_scripthash': ['len(self) == 34', "self[0:2] == b'\\x00 '"],
        'is_witness_v0_nested_scripthash': ['len(self) == 35', "self[0:3] == b'\"\\x00 '"],
        'is_unspendable': ['len(self) > 0', 'self[0] == 106'],
    }
    for name, w in sorted(want.items()):
        fi, e = single_return(name)
        if e is None:
            r.undecided(name, fi.site, 'not a single return expression')
            continue
        got = conjuncts(e, repo, fi)
        r.check(got == sorted(w), name, fi.site, ' and '.join(got), '%s tests `%s`; reference: %s' % (name, ' and '.join(got), ' and '.join(sorted(w))))
    # is_push_only: every opcode <= OP_16, invalid pushes -> False
    fi = repo.lookup_method(ci, 'is_push_only')
    guards = [canon_guard(n.test, repo, fi.module, ci) for n in walk_no_nested(fi.node) if isinstance(n, ast.If)]
    rets = [norm(n.value) for n in walk_no_nested(fi.node) if isinstance(n, ast.Return)]
    ok = guards == ['op > 96'] and rets == ['False', 'False', 'True'] and handler_returns(fi, 'CScriptInvalidError', 'False')
    r.check(ok, 'is_push_only', fi.site, 'False on any opcode above OP_16 or an invalid push, True otherwise', 'is_push_only guards %s returns %s' % (guards, rets))
    # has_canonical_pushes thresholds
    fi = repo.lookup_method(ci, 'has_canonical_pushes')
    guards = [canon_guard(n.test, repo, fi.module, ci) for n in ast.walk(fi.node) if isinstance(n, ast.If)]
    wantg = ['op > 96', 'op < 76 and op > 0 and len(data) == 1 and data[0] < 17', 'op == 76 and len(data) < 76', 'op == 77 and len(data) < 256', 'op == 78 and len(data) < 65536']
    guards = [' and '.join(split_and(g)) for g in guards]
    r.check(guards == wantg and handler_returns(fi, 'CScriptInvalidError', 'False'), 'has_canonical_pushes', fi.site, 'thresholds 0x4c / 0x100 / 0x10000 and the OP_n rule',
            'has_canonical_pushes tests %s; reference %s' % (guards, wantg))
    # is_valid
    fi = repo.lookup_method(ci, 'is_valid')
    ok = handler_returns(fi, 'CScriptInvalidError', 'False') and any(norm(c) == 'list(self)' for c in common.iter_calls(fi.node))
    r.check(ok, 'is_valid', fi.site, 'all pushes parse', 'is_valid is not "iterate everything, False on an invalid push"')
    # is_witness_scriptpubkey: length window and the size equation
    fi = repo.lookup_method(ci, 'is_witness_scriptpubkey')
    guards = [canon_guard(n.test, repo, fi.module, ci) for n in walk_no_nested(fi.node) if isinstance(n, ast.If)]
    ok = 'size < 4 or size > 42' in guards and canon_text('head[1] + 2 != size') in guards and 'not CScriptOp(head[0]).is_small_int()' in guards
    r.check(ok, 'is_witness_scriptpubkey', fi.site, '4..42 bytes, version opcode small int, push length + 2 == size', 'is_witness_scriptpubkey guards are %s' % guards)
    r.note('is_witness_scriptpubkey reads its two header bytes through struct format <bb (signed): version opcodes are below 0x80, so the sign does not matter; the byte conditions themselves are not decided')
    # witness_version
    fi = repo.lookup_method(ci, 'witness_version')
    rets = [norm(n.value) for n in walk_no_nested(fi.node) if isinstance(n, ast.Return)]
    r.check(rets == ['next(iter(self))'], 'witness_version', fi.site, 'first token', 'witness_version returns %s' % rets)


def handler_returns(fi, excname, value):
    for n in walk_no_nested(fi.node):
        if isinstance(n, ast.Try):
            for h in n.handlers:
                if h.type is not None and norm(h.type) == excname:
                    rets = [norm(x.value) for x in ast.walk(h) if isinstance(x, ast.Return)]
                    if rets == [value]:
                        return True
    return False


# ------------------------------------------------------------------------------------------------ S1 sigops
def rule_sigops(ctx, repo, eng):
    r = ctx.rule('C08.S1', 'GetSigOpCount: weights 1 / 20 / decoded preceding OP_n (accurate mode), counting up to the first malformed push, nothing escapes',
                 engine='TABLE+ESCAPE', floor=10)
    ci = repo.get_class(CS)
    fi = repo.lookup_method(ci, 'GetSigOpCount')
    facc = fi.params[1]
    loops = [n for n in ast.walk(fi.node) if isinstance(n, ast.For) and 'raw_iter()' in norm(n.iter)]
    if len(loops) != 1:
        r.undecided('loop', fi.site, 'loop over raw_iter() not found')
        return
    lp = loops[0]
    opv = norm(lp.target.elts[0])
    # the last-opcode variable: assigned `= opv` at the end of the body
    lastv = None
    for s in lp.body:
        if isinstance(s, ast.Assign) and norm(s.value) == opv:
            lastv = norm(s.targets[0])
    r.check(lastv is not None and isinstance(lp.body[-1], ast.Assign) and norm(lp.body[-1].value) == opv, 'last-opcode-updated', common.site_of(fi, lp),
            'the previous opcode is remembered after every operation', 'the loop does not end with `<last> = %s` for every operation' % opv)
    if lastv is None:
        return
    init = [norm(n.value) for n in walk_no_nested(fi.node) if isinstance(n, ast.Assign) and norm(n.targets[0]) == lastv and n not in lp.body]
    small, isi = small_ints(repo)
    dec = repo.get_function(OP + '.decode_op_n')
    tdec = Tracer(repo, dec.module, cls=dec.cls)
    dec_cache = {}

    def decode(v):
        if v not in dec_cache:
            dp = tdec.trace(dec.node.body, {'self': v})
            dec_cache[v] = repo.fold(dp[0].endnode.value, dec.module, cls=dec.cls, env={'self': v}) if len(dp) == 1 and dp[0].end == 'return' else None
        return dec_cache[v]
    tr = Tracer(repo, fi.module, cls=ci)
    sig = {O['OP_CHECKSIG'], O['OP_CHECKSIGVERIFY']}
    multi = {O['OP_CHECKMULTISIG'], O['OP_CHECKMULTISIGVERIFY']}
    body = [s for s in lp.body if not (isinstance(s, ast.Assign) and norm(s.targets[0]) == lastv)]
    bad = {}
    rows = 0
    for acc in (True, False):
        for v in range(256):
            lasts = range(256) if v in multi else (0x52,)
            for lv in lasts:
                rows += 1
                paths = tr.trace(body, {opv: v, facc: acc, lastv: lv})
                if len(paths) != 1:
                    bad.setdefault('fold', []).append((v, lv, acc, 'guards do not fold'))
                    continue
                inc = 0
                und = None
                for s in paths[0].stmts():
                    if isinstance(s, ast.AugAssign) and isinstance(s.op, ast.Add) and norm(s.target) == 'n':
                        val = repo.fold(s.value, fi.module, cls=ci)
                        if isinstance(val, int):
                            inc += val
                        else:
                            t = norm(s.value)
                            m = re.match(r'^(?:CScriptOp\()?(\w+)\)?\.decode_op_n\(\)$', t)
                            if m and m.group(1) == lastv:
                                d = decode(lv)
                                if d is None:
                                    und = 'decode_op_n(0x%02x) raises' % lv
                                else:
                                    inc += d
                            elif m:
                                und = 'decodes `%s`, not the preceding opcode' % m.group(1)
                            else:
                                und = 'adds `%s`' % t
                want = 1 if v in sig else (((lv - 0x50) if (acc and 0x51 <= lv <= 0x60) else 20) if v in multi else 0)
                if und:
                    bad.setdefault('%s:%s' % (c06.opn(v), 'accurate' if acc else 'legacy'), []).append((v, lv, acc, und))
                elif inc != want:
                    bad.setdefault('%s:%s' % (c06.opn(v), 'accurate' if acc else 'legacy'), []).append((v, lv, acc, 'counts %d, reference %d' % (inc, want)))
    ctx.extra['sigop_rows'] = rows
    for k in ['%s:%s' % (c06.opn(v), m) for v in sorted(sig | multi) for m in ('accurate', 'legacy')] + ['other-opcodes']:
        if k == 'other-opcodes':
            b = [x for kk, xs in bad.items() for x in xs if x[0] not in sig | multi]
        else:
            b = bad.get(k, [])
        if b:
            v, lv, acc, why = b[0]
            r.violated(k, common.site_of(fi, lp), '%s after %s (%s mode): %s (%d deviating rows)' % (c06.opn(v), c06.opn(lv), 'accurate' if acc else 'legacy', why, len(b)))
        else:
            r.ok(k, common.site_of(fi, lp), 'all rows agree')
    # counts up to the first malformed push: the loop is inside a try whose CScriptInvalidError handler falls through to `return n`
    tries = [n for n in walk_no_nested(fi.node) if isinstance(n, ast.Try) and lp in n.body]
    ok = False
    for t in tries:
        for h in t.handlers:
            if h.type is not None and norm(h.type) == 'CScriptInvalidError' and not any(isinstance(x, (ast.Raise, ast.Return)) for x in ast.walk(h)):
                ok = True
    rets = [norm(n.value) for n in walk_no_nested(fi.node) if isinstance(n, ast.Return)]
    r.check(ok and rets == ['n'], 'malformed-push', fi.site, 'a malformed push ends the count, which is returned',
            'a malformed push is not absorbed: GetSigOpCount (and CheckBlock through it) raises CScriptInvalidError instead of counting up to it')
    res = Resolver(repo, eng)
    ee = Escape(repo, res)
    from .c07 import script_justified
    from ..interp import Interp
    just = script_justified(repo, Interp(repo))
    rule_entry(r, repo, ee, fi, [], 'GetSigOpCount', ctx=ci, justified=just)


# ------------------------------------------------------------------------------------------------ siblings
def rule_siblings(ctx, repo):
    r = ctx.rule('C08.X1', 'every consumer of raw_iter either absorbs the invalid-script error or is listed as propagating it by design', engine='ESCAPE', floor=6)
    propagating = {
        'bitcoin.core.script.CScript.__iter__': 'cooked iteration reports a truncated push to its caller (the property requires the invalid-script error)',
        'bitcoin.core.script.FindAndDelete': 'runs inside EvalScript, which converts the error (C07.X2)',
        'bitcoin.core.scripteval._EvalScript': 'converted by EvalScript (C07.X2)',
        'bitcoin.core.script.CScript.witness_version': 'first token of a script already classified as a witness program',
    }
    n = 0
    for fi in repo.functions.values():
        uses = [c for c in common.iter_calls(fi.node) if isinstance(c.func, ast.Attribute) and c.func.attr == 'raw_iter']
        iters = [c for c in common.iter_calls(fi.node) if norm(c) in ('list(self)', 'tuple(self)')] if fi.cls is not None and fi.cls.name == 'CScript' else []
        if not uses and not iters:
            continue
        n += 1
        key = fi.qualname.replace('bitcoin.core.', '')
        absorbed = False
        for t in walk_no_nested(fi.node):
            if isinstance(t, ast.Try):
                inside = any(c is x for c in uses + iters for b in t.body for x in ast.walk(b))
                if inside and any(h.type is not None and norm(h.type) in ('CScriptInvalidError', 'Exception') for h in t.handlers):
                    absorbed = True
        if absorbed:
            r.ok(key, fi.site, 'absorbs CScriptInvalidError')
        elif fi.qualname in propagating:
            r.ok(key, fi.site, 'propagates by design: ' + propagating[fi.qualname])
        else:
            r.violated(key, fi.site, '%s iterates over the script without handling CScriptInvalidError: a truncated push makes it raise instead of answering' % fi.qualname)
