"""C05 Signed inputs verify; exactly what the hash type commits to is protected (shape-visible clauses)."""
import ast
import re

from ..model import UNKNOWN, ClassRef, FuncRef, norm, walk_no_nested
from ..layout import LayoutEngine
from ..interp import Interp
from ..sighash import Legacy
from .. import common, spec, flow
from . import c03, c06, c13

EV = 'bitcoin.core.scripteval.'


def retag(ctx, fn, rid, *args):
    fn(ctx, *args)
    ctx.rules[-1].id = rid
    for i in ctx.rules[-1].instances:
        i.rule = rid


def run(ctx):
    repo = ctx.repo
    eng = LayoutEngine(repo)
    lg = Legacy(repo)
    if lg.scratch is None:
        r0 = ctx.rule('C05.K1', 'commitment table', engine='TABLE+OWN', floor=1)
        r0.violated('scratch-copy', lg.fi.site, 'RawSignatureHash does not work on a scratch copy')
    else:
        retag(ctx, c03.rule_table, 'C05.K1', repo, lg)
        ctx.rules[-1].title = 'commitment table: for every hash type, exactly the fields the consensus table names reach the signed digest (legacy path used by signer and verifier)'
    rule_wiring(ctx, repo)
    from . import c09
    base_, imm_, mut_ = c09.classes(repo)
    c09.rule_R6(ctx, repo, eng, imm_, mut_, rid='C05.F2')
    rule_shared(ctx, repo)
    it = Interp(repo)
    retag(ctx, c06.rule_multisig, 'C05.M1', repo, it)
    # acceptance of a correctly signed input runs through the verifier: the wrapper that picks the digest form, the steps of
    # VerifyScript, the dispatch / operand counts / limits / truth of the result that the four templates execute
    retag(ctx, c03.rule_wrapper, 'C05.P1', repo)
    # which exception the convenience form raises is C03's concern (recorded there); here: it delegates with the caller's arguments
    ctx.rules[-1].instances = [i for i in ctx.rules[-1].instances if not i.key.startswith('assert:')]
    ctx.extra['_interp'] = it
    retag(ctx, c06.rule_verify, 'C05.V1', repo, it)
    retag(ctx, c06.rule_limits, 'C05.L1', repo, it)
    retag(ctx, c06.rule_dispatch, 'C05.D1', repo, it)
    retag(ctx, c06.rule_arity, 'C05.A1', repo, it)
    retag(ctx, c06.rule_top_indexing, 'C05.I1', repo)
    ctx.extra.pop('_helpers', None)
    retag(ctx, c06.rule_bool_pushes, 'C05.B1', repo, it)
    retag(ctx, c06.rule_cast_to_bool, 'C05.B2', repo)
    retag(ctx, c06.rule_hashes, 'C05.H1', repo, it)
    ctx.extra.pop('_interp', None)
    rule_entry(ctx, repo)
    retag(ctx, c13.rule_low_s, 'C05.S2', repo)
    ctx.not_decided += ['ECDSA itself (libcrypto)', 'acceptance over catalogues of edits as such: the commitment table is what decides which edits change the digest',
                        'FindAndDelete on arbitrary scripts; script evaluation of the templates (necessary conditions are decided under C06)']
    ctx.assume('a digest that depends on a field changes when the field changes (SHA-256 collision-freeness); ECDSA unforgeability')


def rule_entry(ctx, repo):
    """VerifySignature: the entry that looks the spent output up.  It may refuse only what the reference refuses (a guard
    that refuses more turns a correctly signed input away), and it hands the verifier the spent output's script, the
    spending transaction and the index as given."""
    from . import c16
    from ..rules import equiv
    r = ctx.rule('C05.E1', 'VerifySignature refuses exactly the out-of-range / mismatching lookups and verifies (scriptSig, spent scriptPubKey, txTo, inIdx)', engine='RULES', floor=6)
    fi = repo.get_function(EV + 'VerifySignature')
    if fi is None:
        r.undecided('entry', '', 'VerifySignature not found')
        return
    txf, txt, idx = fi.params[0], fi.params[1], fi.params[2]
    once = {}
    for n in walk_no_nested(fi.node):
        if isinstance(n, ast.Assign) and len(n.targets) == 1 and isinstance(n.targets[0], ast.Name):
            once.setdefault(n.targets[0].id, []).append(norm(n.value))
    once = {k: v[0] for k, v in once.items() if len(v) == 1}

    def through(t):
        for _ in range(4):
            t2 = re.sub(r'\b(%s)\b' % '|'.join(map(re.escape, once)), lambda m: '(%s)' % once[m.group(1)] if not once[m.group(1)].replace('.', '').replace('_', '').isalnum() else once[m.group(1)], t) if once else t
            if t2 == t:
                break
            t = t2
        try:
            return ast.unparse(ast.parse(t, mode='eval'))
        except SyntaxError:
            return t
    gs = [(through(g), c, n) for g, c, n in c16.guards_with_class(fi, repo)]
    ref = [('index-negative', '%s < 0' % idx), ('index-range', '%s >= len(%s.vin)' % (idx, txt)),
           ('prevout-negative', '%s.vin[%s].prevout.n < 0' % (txt, idx)), ('prevout-range', '%s.vin[%s].prevout.n >= len(%s.vout)' % (txt, idx, txf)),
           ('prevout-hash', '%s.vin[%s].prevout.hash != %s.GetTxid()' % (txt, idx, txf))]
    used = set()
    for g, cls, n in gs:
        hit = None
        for key, want in ref:
            if key in used:
                continue
            v = True if g == want else equiv(g, want)
            if v is True:
                hit = key
                break
        if hit is not None:
            used.add(hit)
            r.ok('guard:' + hit, common.site_of(fi, n), '`%s`' % g)
            continue
        # a guard the reference does not have in this form: the reference guard over the same quantities decides
        def klass(t):
            if 'prevout.hash' in t:
                return 'prevout-hash'
            if 'prevout.n' in t:
                return 'prevout-range' if 'len(' in t else 'prevout-negative'
            if re.search(r'\b%s\b' % re.escape(idx), t):
                return 'index-range' if 'len(' in t else 'index-negative'
            return None
        k_ = klass(g)
        if k_ is not None and k_ not in used:
            used.add(k_)
            v = equiv(g, dict(ref)[k_])
            if v is False:
                r.violated('guard:' + k_, common.site_of(fi, n), 'VerifySignature refuses when `%s`; the reference refuses when `%s`: correctly signed inputs outside the '
                           'reference condition are turned away (or lookups inside it go through)' % (g, dict(ref)[k_]), sure=True)
            else:
                r.undecided('guard:' + k_, common.site_of(fi, n), 'the refusal `%s` was not compared with the reference `%s`' % (g, dict(ref)[k_]))
        else:
            r.undecided('guard:extra:%s' % g[:40], common.site_of(fi, n), 'a refusal `%s` that the reference entry does not have' % g)
    for key, want in ref:
        if key not in used:
            r.undecided('guard:' + key, fi.site, 'no raising guard `%s` was recognised' % want)
    calls = [c for c in common.iter_calls(fi.node) if norm(c.func) == 'VerifyScript']
    if len(calls) != 1:
        r.undecided('verifies', fi.site, '%d calls of VerifyScript' % len(calls))
    else:
        c = calls[0]
        args = [through(norm(a)) for a in c.args] + ['%s=%s' % (k.arg, through(norm(k.value))) for k in c.keywords]
        want = ['%s.vin[%s].scriptSig' % (txt, idx), '%s.vout[%s.vin[%s].prevout.n].scriptPubKey' % (txf, txt, idx), txt, idx]
        if args == want:
            r.ok('verifies', common.site_of(fi, c), 'VerifyScript(%s)' % ', '.join(args))
        elif len(args) >= 4 and not c.keywords and all(re.match(r'^[\w.\[\]]+$', a) for a in args[:4]):
            r.violated('verifies', common.site_of(fi, c), 'VerifySignature verifies (%s); the reference is (%s)' % (', '.join(args), ', '.join(want)), sure=True)
        else:
            r.undecided('verifies', common.site_of(fi, c), 'the arguments of VerifyScript (%s) were not recognised' % ', '.join(args))


def assigns(fi):
    out = {}
    for n in ast.walk(fi.node):
        if isinstance(n, ast.Assign) and len(n.targets) == 1:
            out.setdefault(norm(n.targets[0]), []).append(norm(n.value))
    return out


def rule_wiring(ctx, repo):
    r = ctx.rule('C05.W1', 'verifier wiring: transaction and input index reach the digest unmodified; hash type = last signature byte; DER = the rest; subscript from the last CODESEPARATOR with the signature removed',
                 engine='MODEL', floor=12)
    cs = repo.get_function(EV + '_CheckSig')
    p = cs.params
    a = assigns(cs)
    sig, pub, scr, tx, idx = p[0], p[1], p[2], p[3], p[4]
    r.check(a.get('hashtype') == ['%s[-1]' % sig], 'hashtype-last-byte', cs.site, 'hash type is the last byte of the signature', 'hash type is taken as %s' % a.get('hashtype'))
    r.check(a.get(sig) == ['%s[:-1]' % sig], 'der-without-hashtype', cs.site, 'DER part is the signature without its last byte', 'the DER part is %s' % a.get(sig))
    r.check(a.get('(h, err)') == ['RawSignatureHash(%s, %s, %s, hashtype)' % (scr, tx, idx)], 'digest-call', cs.site, 'RawSignatureHash(subscript, txTo, inIdx, hashtype)', 'digest computed by %s' % a.get('(h, err)'))
    rets = [norm(n.value) for n in walk_no_nested(cs.node) if isinstance(n, ast.Return)]
    r.check(rets == ['False', 'key.verify(h, %s)' % sig], 'verify-call', cs.site, 'empty signature -> False; otherwise key.verify(digest, DER)', '_CheckSig returns %s' % rets)
    calls = [norm(c) for c in common.iter_calls(cs.node) if norm(c.func) == 'key.set_pubkey']
    r.check(calls == ['key.set_pubkey(%s)' % pub] and a.get('key') == ['bitcoin.core.key.CECKey()'], 'pubkey', cs.site, 'fresh key loaded with the public key from the stack', 'key setup: %s %s' % (a.get('key'), calls))
    # ... and fresh on every call: set_pubkey() on a key object that already holds a point keeps the old point when the new
    # bytes do not parse (o2i_ECPublicKey leaves it), so a key object handed in or kept from the last check verifies
    # against the previous public key
    fresh = [s_ for s_ in cs.node.body if isinstance(s_, ast.Assign) and norm(s_.targets[0]) == 'key' and norm(s_.value) == 'bitcoin.core.key.CECKey()']
    r.check(bool(fresh) and 'key' not in cs.params, 'pubkey:fresh-per-check', cs.site, 'the key object is created unconditionally inside _CheckSig',
            'the key object of _CheckSig %s: a public key that does not parse leaves the previous point in place, and the signature is checked against it'
            % ('is a parameter (shared between checks)' if 'key' in cs.params else 'is not created unconditionally at the top level of the function'))
    # order: hashtype taken before sig is shortened
    body = [norm(s) for s in cs.node.body]
    ok = 'hashtype = %s[-1]' % sig in body and '%s = %s[:-1]' % (sig, sig) in body and body.index('hashtype = %s[-1]' % sig) < body.index('%s = %s[:-1]' % (sig, sig))
    r.check(ok, 'order', cs.site, 'hash type read before the signature is shortened', 'hash type is read after the signature was shortened')
    # CHECKSIG arm
    it = Interp(repo)
    rows = it.rows()
    arm = {}
    for pth in rows[(spec.OPCODES['OP_CHECKSIG'], True)]:
        for s in pth.stmts():
            if isinstance(s, ast.Assign) and len(s.targets) == 1:
                arm.setdefault(norm(s.targets[0]), []).append(norm(s.value))
    r.check(arm.get('vchPubKey') == ['stack[-1]'] * len(arm.get('vchPubKey', [])) and arm.get('vchSig', [None])[0] == 'stack[-2]', 'checksig:operands', it.fi.site, 'pubkey on top, signature below', 'CHECKSIG operands: %s %s' % (arm.get('vchPubKey'), arm.get('vchSig')))
    ts = arm.get('tmpScript', [])
    r.check(ts[:2] == ['CScript(%s[pbegincodehash:])' % it.script_var, 'FindAndDelete(tmpScript, CScript([vchSig]))'], 'checksig:subscript', it.fi.site,
            'script from the last CODESEPARATOR, signature push removed', 'CHECKSIG subscript is %s' % ts[:2])
    okc = [v for v in arm.get('ok', []) if v.startswith('_CheckSig(')]
    r.check(bool(okc) and all(v == '_CheckSig(vchSig, vchPubKey, tmpScript, txTo, inIdx, err_raiser)' for v in okc), 'checksig:call', it.fi.site, '_CheckSig(sig, pubkey, subscript, txTo, inIdx)', 'CHECKSIG calls %s' % okc)
    sep = set()
    for pth in rows[(spec.OPCODES['OP_CODESEPARATOR'], True)]:
        for s in pth.stmts():
            if isinstance(s, ast.Assign) and norm(s.targets[0]) == 'pbegincodehash':
                sep.add(norm(s.value))
    r.check(sep == {it.v_pc}, 'codeseparator', it.fi.site, 'pbegincodehash = position of the CODESEPARATOR', 'CODESEPARATOR sets pbegincodehash to %s' % sorted(sep))
    # multisig
    ms = repo.get_function(EV + '_CheckMultiSig')
    am = assigns(ms)
    r.check('FindAndDelete(script, CScript([sig]))' in am.get('script', []), 'multisig:subscript', ms.site, 'every signature push removed from the subscript', 'multisig subscript handling: %s' % am.get('script'))
    # ... every one of them: the removal runs once per signature on the stack, over stack[-isig - k] for k in range(sigs_count)
    fad = [n for n in ast.walk(ms.node) if isinstance(n, ast.Call) and norm(n.func) == 'FindAndDelete']
    for c_ in fad:
        lp_ = getattr(c_, '_parent', None)
        while lp_ is not None and not isinstance(lp_, (ast.For, ast.While, ast.FunctionDef)):
            lp_ = getattr(lp_, '_parent', None)
        if not isinstance(lp_, ast.For):
            r.undecided('multisig:subscript:all-signatures', common.site_of(ms, c_), 'the signature removal is not inside a for loop')
            continue
        it_ = norm(lp_.iter)
        var_ = norm(lp_.target)
        defs_ = [norm(s_.value) for s_ in lp_.body if isinstance(s_, ast.Assign) and len(s_.targets) == 1 and norm(s_.targets[0]) == 'sig']
        picked = defs_[0] if len(defs_) == 1 else None
        if it_ == 'range(sigs_count)' and picked in ('stack[-isig - %s]' % var_, 'stack[-(isig + %s)]' % var_, 'stack[-%s - isig]' % var_):
            r.ok('multisig:subscript:all-signatures', common.site_of(ms, lp_), 'one removal per signature: %s over %s' % (picked, it_))
        elif re.match(r'^range\((\d+, )?sigs_count( [-+] \d+)?\)$', it_) and picked and re.match(r'^stack\[-isig( [-+] \w+)*\]$', picked):
            r.violated('multisig:subscript:all-signatures', common.site_of(ms, lp_), 'the signature removal runs over `%s` with `sig = %s`: not every one of the sigs_count signatures '
                       '(stack[-isig - k], k = 0 .. sigs_count-1) is removed from the subscript' % (it_, picked), sure=True)
        else:
            r.undecided('multisig:subscript:all-signatures', common.site_of(ms, lp_), 'the signature removal runs over `%s` (sig = %s): whether that is every signature on the stack is not decided' % (it_[:60], picked))
    if not fad:
        r.undecided('multisig:subscript:all-signatures', ms.site, 'no FindAndDelete call in _CheckMultiSig')
    # the operands of every _CheckSig call in the loop, read through locals defined once
    once = {k: v[0] for k, v in am.items() if len(v) == 1 and k.isidentifier()}
    calls_ = [c_ for c_ in common.iter_calls(ms.node) if norm(c_.func) == '_CheckSig' and len(c_.args) >= 2]

    def through(e_, call_):
        t_ = norm(e_)
        if not t_.isidentifier():
            return t_
        if t_ in once:
            return once[t_]
        # the last assignment in front of the call in the block that holds the call
        for blk_ in [getattr(n_, f_) for n_ in ast.walk(ms.node) for f_ in ('body', 'orelse') if isinstance(getattr(n_, f_, None), list)]:
            for k_, st_ in enumerate(blk_):
                if any(x_ is call_ for x_ in ast.walk(st_)) and not any(any(x_ is call_ for x_ in ast.walk(sub_)) for sub_ in ast.iter_child_nodes(st_) if isinstance(sub_, ast.stmt)):
                    for prev_ in reversed(blk_[:k_]):
                        if isinstance(prev_, ast.Assign) and len(prev_.targets) == 1 and norm(prev_.targets[0]) == t_:
                            return norm(prev_.value)
                        if any(isinstance(x_, ast.Name) and x_.id == t_ and isinstance(x_.ctx, ast.Store) for x_ in ast.walk(prev_)):
                            return t_
        return t_
    ops_ = [(through(c_.args[0], c_), through(c_.args[1], c_)) for c_ in calls_]
    if ops_ and all(o_ == ('stack[-isig]', 'stack[-ikey]') for o_ in ops_):
        r.ok('multisig:operands', ms.site, 'signature and key taken at their cursors')
    elif any(re.match(r'^stack\[[^\]]*\]$', o_[0]) and re.match(r'^stack\[[^\]]*\]$', o_[1]) and o_ != ('stack[-isig]', 'stack[-ikey]') for o_ in ops_) \
            and {'isig', 'ikey'} <= set(am):
        r.violated('multisig:operands', ms.site, 'multisig operands: %s' % ops_)
    else:
        r.undecided('multisig:operands', ms.site, 'the operands of _CheckSig in the multisig loop (%s) were not recognised' % ops_)
    mcall = set()
    for pth in rows[(spec.OPCODES['OP_CHECKMULTISIG'], True)]:
        for s in pth.stmts():
            t = norm(s)
            if t.startswith('_CheckMultiSig('):
                mcall.add(t)
            if isinstance(s, ast.Assign) and norm(s.targets[0]) == 'tmpScript':
                mcall.add('tmp=' + norm(s.value))
    r.check(mcall == {'_CheckMultiSig(%s, tmpScript, stack, txTo, inIdx, flags, err_raiser, nOpCount)' % it.v_op, 'tmp=CScript(%s[pbegincodehash:])' % it.script_var}, 'multisig:call', it.fi.site,
            'subscript from the last CODESEPARATOR, txTo/inIdx forwarded', 'CHECKMULTISIG arm does %s' % sorted(mcall))
    # forwarding chain VerifyScript -> EvalScript -> _EvalScript
    vs = repo.get_function(EV + 'VerifyScript')
    ec = [norm(c) for c in common.iter_calls(vs.node) if norm(c.func) == 'EvalScript']
    ok = len(ec) == 3 and all(re.match(r'^EvalScript\(stack, \w+, txTo, inIdx, flags=flags\)$', c) for c in ec)
    r.check(ok, 'forward:VerifyScript', vs.site, 'txTo, inIdx, flags forwarded to each evaluation', 'VerifyScript evaluates with %s' % ec)
    ev = repo.get_function(EV + 'EvalScript')
    ec = [norm(c) for c in common.iter_calls(ev.node) if norm(c.func) == '_EvalScript']
    r.check(ec == ['_EvalScript(stack, scriptIn, txTo, inIdx, flags=flags)'], 'forward:EvalScript', ev.site, 'forwarded unchanged', 'EvalScript calls %s' % ec)
    # nothing reassigns txTo / inIdx on the way
    for q in ('VerifyScript', 'EvalScript', '_EvalScript', '_CheckSig', '_CheckMultiSig'):
        fi = repo.get_function(EV + q)
        bad = [norm(n) for n in ast.walk(fi.node) if isinstance(n, (ast.Assign, ast.AugAssign)) and any(norm(t) in ('txTo', 'inIdx') for t in (n.targets if isinstance(n, ast.Assign) else [n.target]))]
        r.check(not bad, 'unmodified:%s' % q, fi.site, 'txTo / inIdx never reassigned', '%s reassigns %s' % (q, bad))


def rule_shared(ctx, repo):
    r = ctx.rule('C05.S1', 'signer and verifier share one legacy digest implementation', engine='MODEL', floor=3)
    raw = 'bitcoin.core.script.RawSignatureHash'
    users = {}
    for fi in repo.functions.values():
        for c in common.iter_calls(fi.node):
            v = repo.fold(c.func, fi.module, cls=fi.cls)
            if isinstance(v, FuncRef) and v.info.qualname == raw:
                users.setdefault(fi.qualname, []).append(c)
    r.check('bitcoin.core.script.SignatureHash' in users, 'signer', 'bitcoin/core/script.py:0', 'SignatureHash (used for signing) calls RawSignatureHash', 'SignatureHash does not delegate to RawSignatureHash')
    r.check('bitcoin.core.scripteval._CheckSig' in users, 'verifier', 'bitcoin/core/scripteval.py:0', '_CheckSig (used for verifying) calls RawSignatureHash', '_CheckSig does not use RawSignatureHash')
    # no other function appends a hash type to a transaction serialisation
    others = []
    for fi in repo.functions.values():
        if fi.qualname in (raw, 'bitcoin.core.script.SignatureHash'):
            continue
        for c in common.iter_calls(fi.node):
            if norm(c.func) == 'struct.pack' and len(c.args) == 2 and 'hashtype' in norm(c.args[1]).lower():
                others.append(fi.qualname)
    # a helper the confirmed tree does not have, called only from the digest functions themselves, is part of them
    known = getattr(repo, 'known_functions', None)
    if others and known is not None:
        callers = {}
        for fi in repo.functions.values():
            for c in common.iter_calls(fi.node):
                v = repo.fold(c.func, fi.module, cls=fi.cls)
                if isinstance(v, FuncRef):
                    callers.setdefault(v.info.qualname, set()).add(fi.qualname)
        inner = {raw, 'bitcoin.core.script.SignatureHash'}
        for _ in range(3):
            for q in list(others):
                if q not in known and callers.get(q) and callers[q] <= inner:
                    inner.add(q)
                elif q not in known and not callers.get(q) and q in repo.functions and common.inlined_away(repo, repo.functions[q]):
                    inner.add(q)  # inlined into its only callers by the desugaring pre-pass
        undecided_others = [q for q in others if q not in inner and q not in known]
        others = [q for q in others if q not in inner and q in known]
        if undecided_others and not others:
            r.undecided('single-implementation', 'bitcoin/core/script.py:0', 'new function(s) %s pack a hash type and are called from outside the digest functions' % undecided_others)
            return
    r.check(not others, 'single-implementation', 'bitcoin/core/script.py:0', 'no second legacy digest', 'another digest implementation packs a hash type in %s' % others)
