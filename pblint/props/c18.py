"""C18 P2P messages: framing, payload layout and stream parsing exact and invertible."""
import ast
import copy
import re

from ..model import UNKNOWN, ClassRef, FuncRef, ClassInfo, norm, walk_no_nested
from ..layout import LayoutEngine, Undecided, _WState, normalise, finalise_writer, fmt_info, fixed_width
from .. import common, spec, flow

STRUCTS = ['CAddress', 'CInv', 'CBlockLocator', 'CUnsignedAlert', 'CAlert']
MSG_FILES = {'bitcoin/messages.py', 'bitcoin/net.py'}


def run(ctx):
    repo = ctx.repo
    eng = LayoutEngine(repo)
    rule_payloads(ctx, repo, eng)
    rule_frame(ctx, repo, eng)
    rule_parse(ctx, repo, eng)
    rule_registry(ctx, repo)
    rule_magic(ctx, repo)
    rule_address(ctx, repo)
    rule_version_details(ctx, repo, eng)
    r = ctx.rule('C18.P1', 'chain parameters (magic) are read at call time, never bound at import', engine='OWN', floor=1)
    common.rule_call_time_params(r, repo, files={'bitcoin/messages.py', 'bitcoin/net.py'})
    ctx.not_decided += ['IP text conversion (inet_pton/inet_ntop)', 'payload values (follow from layouts + struct semantics)']
    ctx.assume('transactions, headers and blocks inside tx/block/headers messages have the layouts decided by C01')


def msg_classes(repo):
    base = repo.get_class('bitcoin.messages.MsgSerializable')
    return base, sorted([c for c in repo.classes.values() if c is not base and repo.is_subclass(c, base)], key=lambda c: c.name)


def rule_payloads(ctx, repo, eng):
    r = ctx.rule('C18.L1', 'msg_ser/msg_deser agree for every message class and payload structure', engine='LAYOUT', floor=22)
    r2 = ctx.rule('C18.L2', 'payload layouts equal the P2P protocol table', engine='LAYOUT', floor=40)
    base, classes_ = msg_classes(repo)
    for c in classes_:
        common.rule_agreement(r, repo, eng, c, 'msg_ser', 'msg_deser')
        sp = spec.P2P.get(c.name)
        if sp is None:
            r2.undecided(c.name, c.site, 'message class %s is not in the protocol table' % c.name)
        else:
            common.rule_vs_spec(r2, repo, eng, c, sp, 'msg_ser', 'msg_deser')
    for n in STRUCTS:
        c = repo.get_class('bitcoin.net.' + n)
        common.rule_agreement(r, repo, eng, c)
        common.rule_vs_spec(r2, repo, eng, c, spec.P2P[n])
    ctx.extra['message_classes'] = [c.name for c in classes_]


def rule_frame(ctx, repo, eng):
    r = ctx.rule('C18.H1', 'frame header: writer (to_bytes), reader slices and the protocol agree: magic, 12-byte command, u32 length, checksum4, payload',
                 engine='LAYOUT', floor=8)
    base = repo.get_class('bitcoin.messages.MsgSerializable')
    w = repo.lookup_method(base, 'to_bytes')
    rd = repo.lookup_method(base, 'stream_deserialize')
    # ---- writer
    try:
        ws = _WState(eng, w, '$none', {}, base, 0)
        ws.streams = set()
        items = ws.block(w.node.body)
        ret = [i for i in items if i.kind == 'buffer']
        if len(ret) != 1:
            raise Undecided('to_bytes does not return one concatenation buffer')
        W = finalise_writer(normalise(ret))
    except Undecided as e:
        r.undecided('writer', common.site_of(w, e.node) if e.node is not None else w.site, str(e))
        return
    kinds = [(i.kind, i.field, i.get('n'), i.get('fmt'), i.get('what')) for i in W]
    site = w.site
    ok = len(W) >= 6
    if ok:
        magic, cmd, pad, ln, chk = W[0], W[1], W[2], W[3], W[4]
        payload = W[5:]
        r.check(magic.kind == 'raw' and magic.field == 'bitcoin.params.MESSAGE_START', 'writer:magic', common.site_of(w, magic.node), 'selected chain\'s MESSAGE_START',
                'frame starts with `%s`, not bitcoin.params.MESSAGE_START' % magic.field)
        r.check(cmd.kind == 'raw' and cmd.field == 'command' and pad.kind == 'derived' and pad.what == "pad(b'\\x00', 12 - len(self.command))", 'writer:command',
                common.site_of(w, cmd.node), 'command NUL-padded to 12 bytes', 'command field is `%s` + `%s`; protocol: command padded with NUL to 12 bytes' % (cmd.field, pad.get('what')))
        lw = fmt_info(ln.fmt) if ln.kind == 'int' else None
        r.check(ln.kind == 'int' and lw[0] == 4 and lw[1] == '<' and lw[2] and lw[2][0] <= 0 and lw[2][1] >= (1 << 32) - 1 and ln.field == 'len(body)', 'writer:length',
                common.site_of(w, ln.node), 'u32 little-endian payload length', 'length field is %s' % common.describe(ln))
        chk_ok = chk.kind == 'raw' and chk.get('n') == 4 and chk.get('slice_of') is not None
        src = chk.get('slice_of')
        dbl = False
        if chk_ok and chk.node is not None:
            from ..rules import canon_arith
            full = canon_arith(common.resolved(w, chk.node, repo, defs={k_: v_ for k_, v_ in common.local_defs(w).items() if k_ != 'body'}))
            if full in (canon_arith('hashlib.sha256(hashlib.sha256(body).digest()).digest()[:4]'), canon_arith('Hash(body)[:4]')):
                dbl = True
        if chk_ok and not dbl:
            # h = sha256(th).digest(); th = sha256(body).digest()
            defs = {norm(s.targets[0]): norm(s.value) for s in walk_no_nested(w.node) if isinstance(s, ast.Assign) and len(s.targets) == 1}
            d1 = defs.get(src, '')
            m = re.match(r'^hashlib\.sha256\((\w+)\)\.digest\(\)$', d1)
            if m:
                d0 = defs.get(m.group(1), '')
                dbl = d0 == 'hashlib.sha256(body)' + '.digest()'
            elif d1 in ('Hash(body)', 'hashlib.sha256(hashlib.sha256(body).digest()).digest()'):
                dbl = True
        r.check(chk_ok and dbl and norm(chk.node).endswith('[:4]'), 'writer:checksum', common.site_of(w, chk.node), 'first four bytes of SHA256d(payload)',
                'checksum field is `%s` (definition chain does not reduce to SHA256d(body)[:4])' % chk.field)
        body_src = [norm(s.value) for s in walk_no_nested(w.node) if isinstance(s, ast.Assign) and norm(s.targets[0]) == 'body']
        r.check(len(payload) >= 0 and body_src == ['f.getvalue()'], 'writer:payload', site, 'payload = msg_ser output', 'payload is %s' % body_src)
    else:
        r.violated('writer:shape', site, 'frame has %d parts: %s' % (len(W), kinds))
    # ---- reader: constant slices of the header buffer
    info = frame_reader(repo, rd)
    ctx.extra['_frame'] = info
    if info.get('error'):
        r.undecided('reader', rd.site, info['error'])
        return
    r.check(info['header_n'] == 24, 'reader:header-size', rd.site, 'reads the 24-byte header at once', 'header read is %r bytes, protocol header is 24' % info['header_n'])
    want = {'magic': (0, 4), 'command': (4, 16), 'length': (16, 20), 'checksum': (20, 24)}
    for k, sl in want.items():
        got = info['slices'].get(k)
        r.check(got == sl, 'reader:slice:%s' % k, rd.site, 'bytes %s' % (sl,), 'the %s is taken from header bytes %s, protocol: %s' % (k, got, sl))
    lf = info.get('length_fmt')
    fi_ = fmt_info(lf) if lf else None
    r.check(bool(fi_) and fi_[0] == 4 and fi_[1] == '<' and fi_[2] and fi_[2][0] >= 0 and fi_[2][1] >= (1 << 32) - 1, 'reader:length-format', rd.site,
            'length parsed as unsigned 32-bit little-endian (as written)',
            'length parsed with format %r while to_bytes writes an unsigned 32-bit value: lengths >= 2**31 turn negative, pass the MAX_SIZE guard and make f.read(n) swallow the rest of the stream' % lf)
    r.check(info.get('payload_slice') == ('24', '24 + msglen'), 'reader:payload-slice', rd.site, 'payload = bytes 24 .. 24+length', 'payload slice is %s' % (info.get('payload_slice'),))


def frame_reader(repo, rd):
    """facts about MsgSerializable.stream_deserialize"""
    info = {'slices': {}}
    fparam = rd.params[1]
    buf = None
    for s in walk_no_nested(rd.node):
        if isinstance(s, ast.Assign) and isinstance(s.value, ast.Call) and norm(s.value.func) == 'ser_read' and buf is None:
            buf = norm(s.targets[0])
            info['header_n'] = repo.fold(s.value.args[1], rd.module)
    if buf is None:
        return {'error': 'no header read found'}
    info['buf'] = buf

    def sl(e):
        if isinstance(e, ast.Subscript) and norm(e.value) == buf and isinstance(e.slice, ast.Slice):
            lo = repo.fold(e.slice.lower, rd.module) if e.slice.lower else 0
            hi = repo.fold(e.slice.upper, rd.module) if e.slice.upper else None
            return (lo, hi)
        return None
    for s in walk_no_nested(rd.node):
        if isinstance(s, ast.Compare) and sl(s.left) and 'MESSAGE_START' in norm(s.comparators[0]):
            info['slices']['magic'] = sl(s.left)
            info['magic_rhs'] = norm(s.comparators[0])
        if isinstance(s, ast.Assign) and len(s.targets) == 1 and isinstance(s.targets[0], ast.Name):
            name = s.targets[0].id
            for sub in ast.walk(s.value):
                x = sl(sub)
                if x and x[0] is not UNKNOWN and x[1] is not UNKNOWN and isinstance(x[0], int) and isinstance(x[1], int):
                    vt = norm(s.value)
                    role = {(4, 16): 'command', (16, 20): 'length', (20, 24): 'checksum'}.get(x)
                    if role is None:
                        # a slice at another position: by what is done with it
                        role = 'command' if (name == 'command' or 'split' in vt or 'partition' in vt) else ('length' if ('unpack' in vt or 'from_bytes' in vt) else ('checksum' if name == 'checksum' else None))
                    if role == 'command':
                        info['slices'].setdefault('command', x)
                        info['command_var'] = name
                    elif role == 'length':
                        info['slices']['length'] = x
                        info['length_var'] = name
                        fmt = UNKNOWN
                        v_ = s.value
                        if isinstance(v_, ast.Subscript) and isinstance(v_.value, ast.Call) and 'unpack' in norm(v_.value.func):
                            fmt = repo.fold(v_.value.args[0], rd.module)
                        elif isinstance(v_, ast.Call) and norm(v_.func) == 'int.from_bytes' and len(v_.args) >= 1:
                            order = repo.fold(v_.args[1], rd.module) if len(v_.args) > 1 else next((repo.fold(k.value, rd.module) for k in v_.keywords if k.arg == 'byteorder'), UNKNOWN)
                            signed = next((repo.fold(k.value, rd.module) for k in v_.keywords if k.arg == 'signed'), False)
                            width = {1: 'B', 2: 'H', 4: 'I', 8: 'Q'}.get(x[1] - x[0])
                            if order in ('little', 'big') and signed in (True, False) and width:
                                fmt = ('<' if order == 'little' else '>') + (width.lower() if signed else width)
                        info['length_fmt'] = fmt.decode() if isinstance(fmt, bytes) else fmt
                    elif role == 'checksum':
                        info['slices']['checksum'] = x
                        info['checksum_var'] = name
            if isinstance(s.value, ast.Subscript) and norm(s.value.value) == buf and isinstance(s.value.slice, ast.Slice) and name not in (info.get('checksum_var'),):
                lo = s.value.slice.lower
                hi = s.value.slice.upper
                if hi is not None and info.get('length_var') and info['length_var'] in norm(hi):
                    lov = repo.fold(lo, rd.module)
                    info['payload_slice'] = (str(lov), re.sub(r'^[\d\s+]+', lambda m: str(eval(m.group(0).rstrip(' +'))) + ' + ', norm(hi)))
                    info['payload_var'] = name
    return info


def rule_parse(ctx, repo, eng):
    r = ctx.rule('C18.D1', 'stream parsing: only ser_read(header) and ser_read(length); magic and checksum guards dominate the dispatch; failures never return a message',
                 engine='DOM', floor=6)
    base = repo.get_class('bitcoin.messages.MsgSerializable')
    rd = repo.lookup_method(base, 'stream_deserialize')
    info = ctx.extra.pop('_frame', None) or frame_reader(repo, rd)
    if info.get('error'):
        r.undecided('reader', rd.site, info['error'])
        return
    fparam = rd.params[1]
    # stream reads
    reads = []
    for c in common.iter_calls(rd.node):
        if isinstance(c.func, ast.Attribute) and isinstance(c.func.value, ast.Name) and c.func.value.id == fparam:
            reads.append(('raw', c))
        v = repo.fold(c.func, rd.module)
        if isinstance(v, FuncRef) and v.info.qualname == 'bitcoin.core.serialize.ser_read':
            reads.append(('ser_read', c))
    raw = [c for k, c in reads if k == 'raw']
    for c in raw:
        r.violated('raw-read:%s' % norm(c)[:40], common.site_of(rd, c), 'the frame parser touches the stream directly (`%s`): truncation is not reported as SerializationTruncationError' % norm(c))
    # a truncated frame is reported by ser_read as the truncation error: no enclosing handler may turn it into something else
    for k_, c_ in reads:
        if k_ == 'ser_read':
            h_ = common.catching_handler(repo, rd, c_, 'bitcoin.core.serialize.SerializationTruncationError')
            r.check(h_ is None, 'truncation-escapes:%s' % norm(c_)[:30], common.site_of(rd, c_), 'the truncation error of this read reaches the caller',
                    'the truncation error raised by `%s` is caught by `except %s` and does not reach the caller as SerializationTruncationError: a frame cut short is reported as '
                    'something else' % (norm(c_), norm(h_.type) if h_ is not None and h_.type is not None else ''), sure=True)
    sr = [norm(c.args[1]) for k, c in reads if k == 'ser_read']
    lv = info.get('length_var')
    r.check(len(sr) == 2 and sr[1] == lv and not raw, 'reads', rd.site, 'ser_read(24) then ser_read(%s)' % lv, 'stream reads are %s' % sr)

    # dominance: magic test and checksum test before the dispatch return
    cs, pv = info.get('checksum_var'), info.get('payload_var')

    def cond(test):
        t = norm(test)
        if 'MESSAGE_START' in t and isinstance(test, ast.Compare) and isinstance(test.ops[0], ast.NotEq):
            return frozenset(['magic-bad']), frozenset(['magic-ok'])
        if 'MESSAGE_START' in t and isinstance(test, ast.Compare) and isinstance(test.ops[0], ast.Eq):
            return frozenset(['magic-ok']), frozenset(['magic-bad'])
        if cs and isinstance(test, ast.Compare) and cs in [norm(test.left)] + [norm(c) for c in test.comparators] and len(test.ops) == 1:
            other = [x for x in [test.left] + list(test.comparators) if norm(x) != cs][0]
            good = checksum_expr(rd, other, pv)
            if good:
                if isinstance(test.ops[0], ast.NotEq):
                    return frozenset(['sum-bad']), frozenset(['sum-ok'])
                if isinstance(test.ops[0], ast.Eq):
                    return frozenset(['sum-ok']), frozenset(['sum-bad'])
        return frozenset(), frozenset()
    body_reads = [c for k, c in reads if k == 'ser_read' and norm(c.args[1]) == lv]

    def gen(stmt, facts):
        if not isinstance(stmt, (ast.If, ast.For, ast.While, ast.Try, ast.With)) and any(x is c for c in body_reads for x in ast.walk(stmt)):
            return facts | {'body-read'}
        return facts
    mf = flow.run_must(rd.node, cond=cond, gen=gen)
    nmsg = 0
    # every frame that is not refused is consumed whole: a return (a message, or None for a command this library does
    # not know) before the payload has been read leaves the payload in the stream, where the next call takes it for a header
    for kind, node, facts in mf.exits:
        if kind in ('return', 'fallthrough') and body_reads:
            key = 'consumed:%s' % (norm(node.value)[:30] if node is not None and node.value is not None else 'None')
            r.check('body-read' in facts, key, common.site_of(rd, node) if node is not None else rd.site, 'returns after the payload has been read',
                    'stream_deserialize returns `%s` before the payload (`ser_read(%s, %s)`) has been read: the stream is left in the middle of the frame and the next call '
                    'parses payload bytes as a header' % (norm(node.value) if node is not None and node.value is not None else 'None', fparam, lv))
    for kind, node, facts in mf.exits:
        if kind == 'return' and node.value is not None and norm(node.value) != 'None':
            nmsg += 1
            r.check('magic-ok' in facts and 'sum-ok' in facts, 'dispatch:%s' % norm(node.value)[:40], common.site_of(rd, node),
                    'message returned only after the magic and checksum tests passed',
                    'a message is returned on a path where the %s test has not passed' % ('magic' if 'magic-ok' not in facts else 'checksum'))
            # the payload handed to msg_deser is the checksummed slice
            ok = pv is not None and pv in norm(node.value)
            r.check(ok, 'dispatch:payload', common.site_of(rd, node), 'msg_deser receives the checksummed payload', 'msg_deser is not given the checksummed payload (`%s`)' % norm(node.value))
        if kind == 'raise' and ('magic-bad' in facts or 'sum-bad' in facts):
            r.ok('reject:%s' % ('magic' if 'magic-bad' in facts else 'checksum'), common.site_of(rd, node), 'raises')
    if nmsg == 0:
        r.undecided('dispatch', rd.site, 'no path returning a message found')
    for which in ('magic-bad', 'sum-bad'):
        bad = [(k, n) for k, n, f in mf.exits if which in f and k != 'raise']
        for k, n in bad:
            r.violated('reject:%s' % which, common.site_of(rd, n) if n is not None else rd.site, 'a frame with a wrong %s does not raise' % ('magic' if which == 'magic-bad' else 'checksum'))
    # dispatch table lookup
    disp = [n for n in walk_no_nested(rd.node) if isinstance(n, ast.Subscript) and norm(n.value) == 'messagemap']
    r.check(len(disp) == 1 and norm(disp[0].slice) == info.get('command_var'), 'dispatch:by-command', rd.site, 'class selected by the parsed command',
            'dispatch does not index messagemap by the parsed command')


def checksum_expr(rd, e, payload_var):
    """does e reduce to SHA256d(payload)[:4]?"""
    if not (isinstance(e, ast.Subscript) and isinstance(e.slice, ast.Slice) and e.slice.lower is None and norm(e.slice.upper) == '4'):
        return False
    src = norm(e.value)
    defs = {norm(s.targets[0]): norm(s.value) for s in walk_no_nested(rd.node) if isinstance(s, ast.Assign) and len(s.targets) == 1}
    d1 = defs.get(src, src)
    m = re.match(r'^hashlib\.sha256\((\w+)\)\.digest\(\)$', d1)
    if m:
        d0 = defs.get(m.group(1), '')
        return d0 == 'hashlib.sha256(%s).digest()' % payload_var
    return d1 in ('Hash(%s)' % payload_var, 'hashlib.sha256(hashlib.sha256(%s).digest()).digest()' % payload_var)


def rule_registry(ctx, repo):
    r = ctx.rule('C18.R1', 'registry: every message class is dispatchable; commands are unique, at most 12 bytes and the protocol names', engine='CONST', floor=17)
    base, classes_ = msg_classes(repo)
    m = repo.get_module('bitcoin.messages')
    lst = repo.module_value(m, 'msg_classes')
    listed = {v.info.name for v in lst if isinstance(v, ClassRef)} if isinstance(lst, list) else set()
    # messagemap is filled by `for cls in msg_classes: messagemap[cls.command] = cls`
    loop_ok = False
    for s in m.tree.body:
        if isinstance(s, ast.For) and norm(s.iter) == 'msg_classes' and len(s.body) == 1:
            b = s.body[0]
            tv = norm(s.target)
            if isinstance(b, ast.Assign) and norm(b.targets[0]) == 'messagemap[%s.command]' % tv and norm(b.value) == tv:
                loop_ok = True
    r.check(loop_ok, 'messagemap:built-from-msg_classes', m.relpath + ':0', 'messagemap[c.command] = c for c in msg_classes', 'messagemap is not built from msg_classes by command')
    seen = {}
    for c in classes_:
        cmd = repo.class_attr_value(c, 'command')
        key = c.name
        if c.name not in listed:
            r.violated(key, c.site, 'message class %s is not in msg_classes: frames of this type are parsed to None ("not in messagemap")' % c.name)
            continue
        want = spec.P2P_COMMANDS.get(c.name)
        if want is None:
            r.undecided(key, c.site, 'class not in the protocol command table')
            continue
        ok = isinstance(cmd, bytes) and cmd == want and len(cmd) <= 12 and cmd not in seen
        r.check(ok, key, c.site, 'command %r' % (cmd,), 'command of %s is %r (protocol: %r)%s' % (c.name, cmd, want, ' and collides with %s' % seen.get(cmd) if cmd in seen else ''))
        seen[cmd] = c.name
    for n in sorted(set(spec.P2P_COMMANDS) - {c.name for c in classes_}):
        r.violated(n, m.relpath + ':0', 'protocol message %s has no class' % n)


def rule_magic(ctx, repo):
    r = ctx.rule('C18.C1', 'per-chain magic values', engine='CONST', floor=4)
    m = repo.get_module('bitcoin')
    for name, ch in sorted(spec.CHAINS.items()):
        c = m.classes.get(ch['class'])
        if c is None:
            r.undecided(name, m.relpath + ':0', 'chain class %s not found' % ch['class'])
            continue
        v = repo.class_attr_value(c, 'MESSAGE_START')
        r.check(v == ch['magic'], name, c.site, 'magic %s' % ch['magic'].hex(), '%s magic is %r, protocol: %s' % (name, v, ch['magic'].hex()))
    nm = repo.get_module('bitcoin.net')
    for cn, want in (('PROTO_VERSION', 60002), ('CADDR_TIME_VERSION', 31402)):
        got = repo.module_value(nm, cn)
        r.check(got == want, cn, nm.relpath + ':0', str(want), '%s is %r (protocol: %d): the version from which addresses carry a time field / the version announced and assumed by the parsers' % (cn, got, want), sure=True)


def rule_address(ctx, repo):
    r = ctx.rule('C18.A1', 'net_addr: IPv4 is recognised by the full 12-byte IPv4-mapped prefix and written with it', engine='RULES', floor=3)
    net = repo.get_module('bitcoin.net')
    pre = repo.module_value(net, 'IPV4_COMPAT')
    r.check(pre == b'\x00' * 10 + b'\xff' * 2, 'prefix', net.relpath + ':0', '00*10 ff ff', 'IPV4_COMPAT is %r' % (pre,))
    c = repo.get_class('bitcoin.net.CAddress')
    rd = repo.lookup_method(c, 'stream_deserialize')
    tests = [n for n in walk_no_nested(rd.node) if isinstance(n, ast.If) and 'IPV4_COMPAT' in norm(n.test)]
    if len(tests) != 1:
        r.undecided('reader:ipv4-test', rd.site, 'no IPv4 test found')
    else:
        t = tests[0]
        tt = norm(t.test)
        m = re.match(r'^(?:bytes\()?(\w+)\[0?:12\]\)? (==|!=) IPV4_COMPAT$', tt)
        negated = bool(m) and m.group(2) == '!='
        r.check(bool(m), 'reader:ipv4-test', common.site_of(rd, t), 'first 12 bytes == IPv4-mapped prefix',
                'IPv4 detection is `%s`: an address is IPv4 only when its first 12 bytes equal 00*10 ff ff' % tt)
        if m:
            v = m.group(1)
            conv = [norm(n) for n in ast.walk(t) if isinstance(n, ast.Call) and norm(n.func).endswith('inet_ntop')]
            v4_arm, v6_arm = (t.orelse, t.body) if negated else (t.body, t.orelse)
            c4 = [norm(n) for s_ in v4_arm for n in ast.walk(s_) if isinstance(n, ast.Call) and norm(n.func).endswith('inet_ntop')]
            c6 = [norm(n) for s_ in v6_arm for n in ast.walk(s_) if isinstance(n, ast.Call) and norm(n.func).endswith('inet_ntop')]
            ok = c4 == ['socket.inet_ntop(socket.AF_INET, %s[12:16])' % v] and c6 == ['socket.inet_ntop(socket.AF_INET6, %s)' % v]
            r.check(ok, 'reader:ip-conversion', common.site_of(rd, t), 'IPv4 from bytes 12..16, IPv6 from all 16', 'address conversion calls are %s' % conv)
    init = repo.lookup_method(c, '__init__')
    st = [norm(n.value) for n in walk_no_nested(init.node) if isinstance(n, ast.Assign) and norm(n.targets[0]) == 'self.pchReserved']
    r.check(st == ['IPV4_COMPAT'], 'writer:prefix', init.site, 'pchReserved = IPV4_COMPAT', 'pchReserved is initialised to %s' % st)


def rule_version_details(ctx, repo, eng):
    """What the layout comparison does not see: the stream form of a frame, read sizes against their formats in the message
    files, the legacy version fix-up, and what a version message reports for fields its version does not carry."""
    import struct as _struct
    r = ctx.rule('C18.V1', 'stream_serialize writes the frame; read sizes equal their formats; version 10300 is read as 300; fields a version message does not carry are None',
                 engine='RULES', floor=8)
    ms = repo.get_function('bitcoin.messages.MsgSerializable.stream_serialize')
    if ms is not None:
        f_ = ms.params[1] if len(ms.params) > 1 else 'f'
        writes = [c for c in common.iter_calls(ms.node) if norm(c.func) == '%s.write' % f_ and len(c.args) == 1]
        arg = common.resolved(ms, writes[0].args[0], repo) if len(writes) == 1 else None
        if arg is not None and norm(arg) == 'self.to_bytes()':
            r.ok('stream_serialize', ms.site, 'writes self.to_bytes()')
        elif not writes:
            r.violated('stream_serialize', ms.site, 'MsgSerializable.stream_serialize writes nothing: serialize() of every message is empty', sure=True)
        else:
            r.undecided('stream_serialize', ms.site, 'stream_serialize writes `%s`' % (norm(arg) if arg is not None else [norm(w) for w in writes]))
    # read sizes
    for fi, c, fmt, nv, why in common.unpack_read_sites(repo, eng, {'bitcoin/messages.py', 'bitcoin/net.py'}):
        if why == 'not-ser_read' or fmt is None or not isinstance(nv, int):
            continue
        key = 'calcsize:%s:%s' % (fi.qualname.replace('bitcoin.', ''), norm(c)[:50])
        try:
            size = _struct.calcsize(fmt)
        except _struct.error:
            continue
        r.check(size == nv, key, common.site_of(fi, c), 'reads %d bytes for %r' % (nv, fmt), 'reads %d bytes for format %r which needs %d: every well-formed message of this kind is refused' % (nv, fmt, size), sure=True)
    md = repo.get_function('bitcoin.messages.msg_version.msg_deser')
    if md is None:
        return
    # the legacy fix-up
    fix = [n for n in walk_no_nested(md.node) if isinstance(n, ast.If) and re.match(r'^\w+\.nVersion == \d+$', norm(n.test))]
    if len(fix) == 1 and len(fix[0].body) == 1 and isinstance(fix[0].body[0], ast.Assign) and isinstance(fix[0].body[0].value, ast.Constant):
        a_, b_ = int(norm(fix[0].test).split('== ')[1]), fix[0].body[0].value.value
        r.check((a_, b_) == (10300, 300), 'version:10300-is-300', common.site_of(md, fix[0]), '10300 -> 300', 'the legacy fix-up reads version %d as %r (protocol history: 10300 is 300)' % (a_, b_), sure=True)
    elif fix:
        r.undecided('version:10300-is-300', common.site_of(md, fix[0]), 'fix-up `%s` not recognised' % norm(fix[0])[:60])
    # every field that a gate reads in one branch is None (fRelay: True) in the other
    for n in walk_no_nested(md.node):
        if isinstance(n, ast.If) and re.search(r'nVersion >= \d+', norm(n.test)) and n.orelse:
            def fields(stmts, top):
                out = {}
                for s_ in stmts:
                    if isinstance(s_, ast.Assign) and isinstance(s_.targets[0], ast.Attribute):
                        out[s_.targets[0].attr] = s_.value
                    elif isinstance(s_, ast.If) and not top:
                        pass
                return out
            read = fields(n.body, True)
            for s_ in n.body:
                if isinstance(s_, ast.If):
                    for k_, v_ in fields(s_.body, True).items():
                        read.setdefault(k_, v_)
            absent = fields(n.orelse, True)
            for fld in sorted(read):
                key = 'absent:%s@%s' % (fld, norm(n.test)[-12:])
                if fld in absent:
                    want_none = fld != 'fRelay'
                    v_ = absent[fld]
                    ok_ = isinstance(v_, ast.Constant) and ((v_.value is None) if want_none else (v_.value is True))
                    r.check(ok_, key, common.site_of(md, n), 'reported as %s' % ('None' if want_none else 'True'),
                            'a version message below the gate `%s` reports %s = %s' % (norm(n.test), fld, norm(v_)), sure=isinstance(v_, ast.Constant))
                elif fld == 'fRelay' and any(isinstance(x, ast.Assign) and norm(x.targets[0]) == 'self.fRelay' and isinstance(x.value, ast.Constant) and x.value.value is True
                                             for x in ast.walk(repo.get_function('bitcoin.messages.msg_version.__init__').node)):
                    r.ok(key, common.site_of(md, n), 'the constructor already sets fRelay = True')
                else:
                    r.violated(key, common.site_of(md, n), 'a version message below the gate `%s` keeps the constructor\'s %s (a value that is not in the bytes) instead of reporting it absent' % (norm(n.test), fld), sure=True)
