"""C06 Script evaluation agrees with reference Script semantics on every program (necessary conditions)."""
import ast
import re

from ..model import UNKNOWN, ClassRef, FuncRef, OpInt, AnalysisError, norm, walk_no_nested
from ..interp import Interp, Depth, SEQS
from ..table import Tracer
from ..resolve import root_name as _root_name
from ..rules import canon_guard, check_rule, raising_guards, canon_text, equiv_folded
from .. import common, spec, flow
from . import c20

O = spec.OPCODES
NAME = {}
for _n, _v in O.items():
    NAME.setdefault(_v, _n)


def opn(v):
    return NAME.get(v, '0x%02x' % v)


def run(ctx):
    repo = ctx.repo
    it = Interp(repo)
    ctx.extra['_interp'] = it
    rule_names(ctx, repo)
    rule_dispatch(ctx, repo, it)
    rule_arity(ctx, repo, it)
    rule_top_indexing(ctx, repo)
    rule_bool_pushes(ctx, repo, it)
    rule_cast_to_bool(ctx, repo)
    rule_limits(ctx, repo, it)
    rule_stack_limit_path(ctx, repo, it)
    rule_operators(ctx, repo, it)
    rule_hashes(ctx, repo, it)
    rule_verify(ctx, repo, it)
    rule_multisig(ctx, repo, it)
    common.rule_flag_defaults(ctx, repo, 'C06.F1', need_empty=True)
    # signature opcodes: the digest is taken over the script from the last executed CODESEPARATOR with the signature
    # push removed, for CHECKSIG and CHECKMULTISIG alike (the wiring obligations of C05 are opcode semantics too)
    from . import c05
    c05.retag(ctx, c05.rule_wiring, 'C06.W1', repo)
    ctx.extra.pop('_interp', None)
    ctx.not_decided += ['script-number codec arithmetic (bn2vch/vch2bn)', 'RIPEMD-160/SHA rounds (tables and padding shape are decided, the rounds are not)',
                        'FindAndDelete', 'ECDSA signature checks', 'loop-carried index bounds of the multisig matching loop',
                        'full agreement of final stacks: the rules are necessary conditions']
    ctx.assume('hashlib and libcrypto are correct')


# ------------------------------------------------------------------------------------------------ B2 truth of a stack element
POSITION_BLIND = ('strip', 'replace', 'count', 'translate')


def rule_cast_to_bool(ctx, repo):
    """A stack element is false iff every byte is zero, except that the last byte may be 0x80 (negative zero).  The scan
    form is decided as a decision table: one loop iteration over (byte value class) x (is it the last position), with
    the guards of the code evaluated on the cell representatives.  An implementation that looks at the bytes only through
    position-blind operations (strip, count, set membership ...) cannot tell 0x80 in the last position from 0x80
    anywhere else, whatever else it does."""
    r = ctx.rule('C06.B2', 'truth of a stack element: the first non-zero byte decides, and it means false only as 0x80 in the last position', engine='TABLE', floor=7)
    fi = repo.get_function('bitcoin.core.scripteval._CastToBool')
    p = fi.params[0]
    loops = [n for n in fi.node.body if isinstance(n, ast.For)]
    rest = [n for n in fi.node.body if not isinstance(n, ast.For) and not (isinstance(n, ast.Expr) and isinstance(n.value, ast.Constant))]
    pre = []
    while rest and loops and fi.node.body.index(rest[0]) < fi.node.body.index(loops[0]) and \
            ((isinstance(rest[0], ast.Assign) and len(rest[0].targets) == 1 and isinstance(rest[0].targets[0], ast.Name)) or isinstance(rest[0], ast.If)):
        # statements before the scan: local definitions, and guard clauses (evaluated with the cells below; on the empty
        # string they may only answer False or fall through)
        pre.append(rest.pop(0))
    if len(loops) != 1:
        uses = [n for n in ast.walk(fi.node) if isinstance(n, ast.Name) and n.id == p]
        aware = [n for n in ast.walk(fi.node) if (isinstance(n, ast.Subscript) and _root_name(n) == p)
                 or (isinstance(n, ast.Call) and norm(n.func) in ('enumerate', 'range', 'reversed', 'int.from_bytes'))
                 or (isinstance(n, ast.Call) and isinstance(n.func, ast.Attribute) and n.func.attr in ('rstrip', 'lstrip', 'endswith', 'startswith', 'index', 'find', 'rfind'))]
        blind = [n for n in ast.walk(fi.node) if isinstance(n, ast.Call) and isinstance(n.func, ast.Attribute) and n.func.attr in POSITION_BLIND and _root_name(n.func.value) == p]
        if uses and blind and not aware:
            r.violated('position', fi.site, '_CastToBool looks at its bytes only through `%s`, which forgets where a byte stood: 0x80 counts as negative zero only in the last '
                       'position (80 00 is true, 00 80 is false)' % norm(blind[0])[:60], sure=True)
        else:
            r.undecided('shape', fi.site, '_CastToBool is not a single scan over the byte positions')
        return
    lp = loops[0]
    it_ = norm(lp.iter)
    if it_ == 'range(len(%s))' % p and isinstance(lp.target, ast.Name):
        iv, ev = lp.target.id, None
    elif it_ == 'enumerate(%s)' % p and isinstance(lp.target, ast.Tuple) and len(lp.target.elts) == 2 and all(isinstance(e, ast.Name) for e in lp.target.elts):
        iv, ev = lp.target.elts[0].id, lp.target.elts[1].id
    else:
        r.undecided('shape', common.site_of(fi, lp), 'scan is written as `for %s in %s`' % (norm(lp.target), it_))
        return
    tail_ok = len(rest) == 1 and isinstance(rest[0], ast.Return) and fi.node.body.index(rest[0]) > fi.node.body.index(lp) and not lp.orelse
    tv = repo.fold(rest[0].value, fi.module) if tail_ok and rest[0].value is not None else UNKNOWN
    r.check(tail_ok and tv is False, 'all-zero', fi.site, 'all bytes zero (or none): false', 'after the scan _CastToBool returns `%s`, not False' % (norm(rest[0]) if rest else 'nothing'))

    class Stop(Exception):
        pass

    def ev_(e, env):
        code = compile(ast.Expression(body=e), '<cell>', 'eval')
        return eval(code, {'__builtins__': {}, 'len': len, 'range': range, 'bool': bool, 'int': int, 'True': True, 'False': False}, env)

    def run_(stmts, env):
        for st in stmts:
            if isinstance(st, ast.If):
                out = run_(st.body if ev_(st.test, env) else st.orelse, env)
                if out is not None:
                    return out
            elif isinstance(st, ast.Return):
                return ('return', bool(ev_(st.value, env)) if st.value is not None else None)
            elif isinstance(st, ast.Continue):
                return ('next', None)
            elif isinstance(st, ast.Break):
                return ('break', None)
            elif isinstance(st, ast.Pass) or (isinstance(st, ast.Expr) and isinstance(st.value, ast.Constant)):
                continue
            elif isinstance(st, ast.Assign) and len(st.targets) == 1 and isinstance(st.targets[0], ast.Name):
                env[st.targets[0].id] = ev_(st.value, env)
            else:
                raise Stop(norm(st)[:60])
        return None
    if any(isinstance(x, ast.If) for x in pre):
        try:
            out0 = run_([x for x in pre], {p: b''})
            r.check(out0 in (None, ('return', False)), 'empty', fi.site, 'the empty string is false', 'the empty string is answered %s before the scan' % (out0,))
        except Exception as e:
            r.undecided('empty', fi.site, 'statements before the scan do not evaluate on the empty string (%s)' % type(e).__name__)
    for last in (False, True):
        for v, what in ((0, 'zero byte'), (0x80, '0x80'), (1, 'another non-zero byte'), (0xff, '0xff')):
            i = 2 if last else 0
            sbytes = bytes([0] * i + [v] + [0] * (2 - i))
            env = {p: sbytes}
            key = '%s:%s' % ('last' if last else 'inner', what)
            try:
                out_pre = run_(pre, env)
                if out_pre is not None:
                    exp_ = ('return', False) if v == 0 else ('return', not (last and v == 0x80))
                    r.check(False, key, fi.site, '', 'a 3-byte string (%s) is answered %s before the scan looks at its bytes' % (sbytes.hex(), out_pre))
                    continue
                env[iv] = i
                if ev:
                    env[ev] = v
                out = run_(lp.body, env) or ('next', None)
            except Stop as e:
                r.undecided(key, common.site_of(fi, lp), 'scan body contains `%s`' % e)
                continue
            except Exception as e:
                r.undecided(key, common.site_of(fi, lp), 'guards of the scan do not evaluate on the cell (%s)' % type(e).__name__)
                continue
            exp = ('next', None) if v == 0 else ('return', not (last and v == 0x80))
            r.check(out == exp, key, common.site_of(fi, lp), '%s -> %s' % (what, 'keep scanning' if exp[0] == 'next' else exp[1]),
                    'a %s in %s position makes the scan %s; Bitcoin Core: %s' % (what, 'the last' if last else 'an inner', 'go on' if out[0] == 'next' else ('stop' if out[0] == 'break' else 'answer %s' % out[1]),
                                                                                  'go on' if exp[0] == 'next' else 'answer %s' % exp[1]))


# ------------------------------------------------------------------------------------------------ D2 names
def rule_names(ctx, repo):
    r = ctx.rule('C06.D2', 'opcode numbering: OP_* definitions, OPCODE_NAMES and OPCODES_BY_NAME agree with the reference table', engine='CONST', floor=116)
    m = repo.get_module('bitcoin.core.script')
    names = repo.module_value(m, 'OPCODE_NAMES')
    by_name = repo.module_value(m, 'OPCODES_BY_NAME')
    if not isinstance(names, dict) or not isinstance(by_name, dict):
        r.undecided('tables', m.relpath + ':0', 'OPCODE_NAMES / OPCODES_BY_NAME do not fold')
        return
    for n, v in sorted(O.items()):
        got = repo.module_value(m, n)
        r.check(isinstance(got, int) and int(got) == v, 'def:%s' % n, m.relpath + ':0', '%s = 0x%02x' % (n, v), '%s is %r, reference 0x%02x' % (n, got, v))
        if n in ('OP_FALSE', 'OP_TRUE'):
            continue
        bn = by_name.get(n)
        if n in ('OP_INVALIDOPCODE',) and bn is None:
            continue
        r.check(bn is not None and int(bn) == v, 'by-name:%s' % n, m.relpath + ':0', 'OPCODES_BY_NAME[%s] = 0x%02x' % (n, v), 'OPCODES_BY_NAME[%r] is %r, reference 0x%02x' % (n, bn, v))
    for v, n in sorted((int(k), x) for k, x in names.items()):
        r.check(O.get(n) == v, 'name:0x%02x' % v, m.relpath + ':0', '%s' % n, 'OPCODE_NAMES[0x%02x] is %r, reference %r' % (v, n, NAME.get(v)))
    # every implemented / named opcode has a name (needed by the error constructors, see C07.N1)
    for v in sorted(spec.IMPLEMENTED | spec.DISABLED | {O['OP_VERIF'], O['OP_VERNOTIF']}):
        r.check(v in {int(k) for k in names}, 'named:0x%02x' % v, m.relpath + ':0', 'has a name', 'opcode 0x%02x (%s) has no entry in OPCODE_NAMES' % (v, opn(v)))
    dis = repo.module_value(m, 'DISABLED_OPCODES')
    r.check(isinstance(dis, (set, frozenset)) and {int(x) for x in dis} == spec.ALWAYS_FAIL, 'DISABLED_OPCODES', m.relpath + ':0', 'disabled set == reference always-fail set',
            'DISABLED_OPCODES differs from the reference: missing %s, extra %s' % (
                sorted(opn(x) for x in spec.ALWAYS_FAIL - {int(y) for y in (dis or [])}), sorted(opn(int(x)) for x in (dis or []) if int(x) not in spec.ALWAYS_FAIL)))


# ------------------------------------------------------------------------------------------------ D1 dispatch
def effects(it, p):
    """Depth result of one dispatch path (helpers treated as opaque here)"""
    d = Depth(it.repo, it.mod, check_args=('check_args', 'stack'))
    return d.run(p)


def touches_state(it, p):
    for s in p.stmts():
        for n in ast.walk(s):
            if isinstance(n, ast.Name) and n.id in SEQS and not isinstance(s, (ast.If,)):
                # reading len(stack) in the limit check is not an effect
                pass
        t = norm(s)
        if re.search(r'\b(stack|altstack|vfExec)\.(append|pop|insert|extend|clear|remove)\(', t) or re.search(r'\bdel (stack|altstack|vfExec)\[', t) \
                or re.search(r'^(stack|altstack|vfExec)\[[^\]]+\] = ', t) or re.search(r'_(BinOp|UnaryOp|CheckMultiSig)\(', t) or t.startswith('pbegincodehash ='):
            return t
    return None


def rule_dispatch(ctx, repo, it):
    r = ctx.rule('C06.D1', 'dispatch partition over 256 opcodes x {executing, not executing} equals the reference classes', engine='TABLE', floor=512)
    rows = it.rows()
    site0 = common.site_of(it.fi, it.loop)
    n_paths = 0
    for v in range(256):
        for ex in (True, False):
            paths = rows[(v, ex)]
            n_paths += len(paths)
            infos = [it.path_info(p) for p in paths]
            key = '%s:%s' % (opn(v), 'exec' if ex else 'skip')
            problems = []
            nonraise = [(p, i) for p, i in zip(paths, infos) if p.end != 'raise']
            raises = [(p, i) for p, i in zip(paths, infos) if p.end == 'raise']
            other_raises = [(p, i) for p, i in raises if i['raise'][0] not in ('MaxOpCountError',) and 'max stack items' not in i['raise'][1]]
            # counting
            want_counted = v > O['OP_16']
            for p, i in nonraise:
                if i['counted'] != want_counted:
                    problems.append('%s counted as an operation' % ('is not' if want_counted else 'is'))
                    break
            if v in spec.ALWAYS_FAIL:
                if nonraise:
                    problems.append('must fail even in an unexecuted branch, but a path completes')
            elif v <= O['OP_PUSHDATA4']:
                size_raise = [i for p, i in raises if 'PUSHDATA' in i['raise'][1] or 'MAX_SCRIPT_ELEMENT_SIZE' in str(i['arm'])]
                if not size_raise:
                    problems.append('push size is not limited in this mode')
                pushes = [touches_state(it, p) for p, i in nonraise]
                if ex:
                    if not nonraise or any(t != 'stack.append(%s)' % it.v_data for t in pushes):
                        problems.append('executed push does not append exactly the pushed data (%s)' % pushes)
                else:
                    if any(t for t in pushes):
                        problems.append('unexecuted push has an effect: %s' % [t for t in pushes if t])
            elif not ex and v not in spec.CONDITIONALS:
                eff = [touches_state(it, p) for p, i in nonraise]
                if any(eff):
                    problems.append('has an effect in an unexecuted branch: %s' % [e for e in eff if e][0])
                if other_raises:
                    problems.append('fails in an unexecuted branch: %s' % (other_raises[0][1]['raise'],))
                if not nonraise:
                    problems.append('no completing path in an unexecuted branch')
            elif v in spec.CONDITIONALS:
                eff = [touches_state(it, p) for p, i in nonraise]
                if not nonraise or not all(e and 'vfExec' in e or (e and ex) for e in eff):
                    problems.append('flow-control opcode is not evaluated in this mode (effects: %s)' % eff)
            elif v in spec.FAIL_WHEN_EXECUTED:
                if nonraise:
                    problems.append('reserved/unassigned opcode completes when executed')
            elif v in spec.NOPS_UPGRADABLE:
                for p, i in zip(paths, infos):
                    flag = [val for k, val in p.assume.items() if 'DISCOURAGE_UPGRADABLE_NOPS' in k]
                    if 'MaxOpCount' in str(i['raise']):
                        continue
                    if flag and flag[0] and p.end != 'raise':
                        problems.append('does not fail under DISCOURAGE_UPGRADABLE_NOPS')
                    if flag and not flag[0] and (p.end == 'raise' and 'max stack' not in i['raise'][1] or touches_state(it, p)):
                        problems.append('is not a no-op without DISCOURAGE_UPGRADABLE_NOPS')
                    if not flag and p.end != 'raise':
                        problems.append('does not consult DISCOURAGE_UPGRADABLE_NOPS')
            elif v in spec.IMPLEMENTED:
                if not nonraise:
                    problems.append('implemented opcode has no completing path (treated as unsupported)')
                else:
                    for p, i in nonraise:
                        if i['arm'] is None:
                            problems.append('no handler arm reached')
            if problems:
                r.violated(key, site0, '%s %s: %s' % (opn(v), 'when executing' if ex else 'in an unexecuted branch', '; '.join(sorted(set(problems)))))
            else:
                r.ok(key, site0, '%d path(s)' % len(paths))
    ctx.extra['dispatch_paths'] = n_paths
    ctx.extra['exhaustive_domain'] = '256 opcode values x {executing, not executing}, forked on non-folding atoms'


# ------------------------------------------------------------------------------------------------ S1 arity
def helper_summary(it, fname, opcodes):
    """(required, deltas, problems) per opcode for _UnaryOp/_BinOp: traced with the opcode parameter bound"""
    fi = it.repo.get_function('bitcoin.core.scripteval.' + fname)
    tr = Tracer(it.repo, fi.module, noreturn=['err_raiser'])
    out = {}
    opparam, stackparam = fi.params[0], fi.params[1]
    for v in opcodes:
        paths = tr.trace(fi.node.body, {opparam: v})
        req, deltas, probs = 0, set(), []
        for p in paths:
            d = Depth(it.repo, fi.module, seq_alias={stackparam: 'stack'})
            st = d.run(p)
            if p.end == 'raise':
                probs.extend(st['stack']['problems'])
                # an `else: raise AssertionError` default reached by a member of the ISA set
                continue
            req = max(req, st['stack']['required'])
            deltas.add(st['stack']['delta'])
            probs.extend(st['stack']['problems'])
        out[v] = (req, deltas, probs, paths)
    return fi, out


def rule_top_indexing(ctx, repo):
    """Operands are named from the top of the stack: stack[-1] is the top.  A literal index that is not negative
    (`stack[0]`, `stack[-0]`) names the BOTTOM element - the operand of another, earlier operation."""
    r = ctx.rule('C06.I1', 'stack operands are addressed from the top (negative literal indices only)', engine='CONST', floor=20)
    m = repo.get_module('bitcoin.core.scripteval')
    n_ = 0
    for fi in [f for f in repo.functions.values() if f.module is m]:
        for x in walk_no_nested(fi.node):
            if isinstance(x, ast.Subscript) and isinstance(x.value, ast.Name) and x.value.id in ('stack', 'altstack') and not isinstance(x.slice, ast.Slice):
                v = repo.fold(x.slice, fi.module)
                if isinstance(v, int) and not isinstance(v, bool):
                    n_ += 1
                    key = 'index:%s:%s#%d' % (fi.name, norm(x), n_)
                    r.check(v < 0, key, common.site_of(fi, x), 'from the top', '`%s` in %s addresses the bottom of the stack (index %d), not an operand of the operation being executed: '
                            'the top element is stack[-1]' % (norm(x), fi.name, v), sure=True)


def rule_arity(ctx, repo, it):
    r = ctx.rule('C06.S1', 'per-opcode (required depth, net stack deltas) equals the reference arity table', engine='DEPTH', floor=70)
    rows = it.rows()
    site0 = common.site_of(it.fi, it.loop)
    isa_un = repo.module_value(it.mod, '_ISA_UNOP')
    isa_bin = repo.module_value(it.mod, '_ISA_BINOP')
    r.check(isinstance(isa_un, (set, frozenset)) and {int(x) for x in isa_un} == spec.UNARY, 'ISA_UNOP', site0, 'unary set == reference',
            '_ISA_UNOP is %s, reference %s' % (sorted(opn(int(x)) for x in (isa_un or [])), sorted(opn(x) for x in spec.UNARY)))
    r.check(isinstance(isa_bin, (set, frozenset)) and {int(x) for x in isa_bin} == spec.BINARY, 'ISA_BINOP', site0, 'binary set == reference',
            '_ISA_BINOP is %s, reference %s' % (sorted(opn(int(x)) for x in (isa_bin or [])), sorted(opn(x) for x in spec.BINARY)))
    fu, un = helper_summary(it, '_UnaryOp', sorted(spec.UNARY))
    fb, bi = helper_summary(it, '_BinOp', sorted(spec.BINARY))
    ctx.extra['_helpers'] = (fu, un, fb, bi)
    for v, (wreq, wdeltas) in sorted(spec.ARITY.items()):
        key = opn(v)
        if v in un or v in bi:
            req, deltas, probs, paths = (un if v in un else bi)[v]
            fi = fu if v in un else fb
            site = fi.site
            if not deltas:
                r.violated(key, site, '%s has no completing path in %s (falls into the "unknown opcode" default)' % (key, fi.name))
                continue
            # the dispatch arm must hand the opcode to this helper
            handed = any(re.search(r'%s\(' % fi.name, norm(s)) for p in rows[(v, True)] for s in p.stmts())
            if not handed:
                r.violated(key, site0, '%s is not dispatched to %s' % (key, fi.name))
                continue
        else:
            req, deltas, alts = 0, set(), set()
            for p in rows[(v, True)]:
                if p.end == 'raise':
                    continue
                st = effects(it, p)
                req = max(req, st['stack']['required'])
                deltas.add(st['stack']['delta'])
            site = site0
            if not deltas:
                r.violated(key, site, '%s has no completing path when executed' % key)
                continue
        # VERIFY-type opcodes: the failing path raises, the reference delta is that of the succeeding path
        ok = req == wreq and deltas == set(wdeltas)
        r.check(ok, key, site, 'requires %d, delta %s' % (req, sorted(deltas)),
                '%s: requires %d item(s) and changes the stack by %s; reference: requires %d, delta %s' % (key, req, sorted(deltas), wreq, sorted(wdeltas)))
    # altstack / vfExec effects
    def seq_effect(v, ex, seq):
        out = set()
        for p in rows[(v, ex)]:
            if p.end == 'raise':
                continue
            st = effects(it, p)
            out.add((st[seq]['required'], st[seq]['delta']))
        return out
    want = {
        ('OP_TOALTSTACK', True, 'altstack'): {(0, 1)}, ('OP_FROMALTSTACK', True, 'altstack'): {(1, -1)},
        ('OP_IF', True, 'vfExec'): {(0, 1)}, ('OP_IF', False, 'vfExec'): {(0, 1)}, ('OP_NOTIF', True, 'vfExec'): {(0, 1)}, ('OP_NOTIF', False, 'vfExec'): {(0, 1)},
        ('OP_ELSE', True, 'vfExec'): {(1, 0)}, ('OP_ELSE', False, 'vfExec'): {(1, 0)}, ('OP_ENDIF', True, 'vfExec'): {(1, -1)}, ('OP_ENDIF', False, 'vfExec'): {(1, -1)},
        ('OP_IF', True, 'stack'): {(1, -1)}, ('OP_IF', False, 'stack'): {(0, 0)}, ('OP_NOTIF', True, 'stack'): {(1, -1)}, ('OP_NOTIF', False, 'stack'): {(0, 0)},
    }
    for (n, ex, seq), w in sorted(want.items()):
        got = seq_effect(O[n], ex, seq)
        r.check(got == w, '%s:%s:%s' % (n, 'exec' if ex else 'skip', seq), site0, '%s (required, delta) = %s' % (seq, sorted(got)),
                '%s %s: (required, delta) on %s is %s, reference %s' % (n, 'executing' if ex else 'not executing', seq, sorted(got), sorted(w)))


# ------------------------------------------------------------------------------------------------ B1 boolean pushes
def rule_bool_pushes(ctx, repo, it):
    r = ctx.rule('C06.B1', 'boolean results are pushed only as 01 (true) or the empty vector (false)', engine='CONST', floor=8)
    n = 0
    for q in ('bitcoin.core.scripteval._EvalScript', 'bitcoin.core.scripteval._CheckMultiSig'):
        fi = repo.get_function(q)
        for c in common.iter_calls(fi.node):
            if isinstance(c.func, ast.Attribute) and c.func.attr == 'append' and norm(c.func.value) == 'stack' and len(c.args) == 1:
                alts = [c.args[0]]
                if isinstance(c.args[0], ast.IfExp):
                    alts = [c.args[0].body, c.args[0].orelse]  # stack.append(b'\x01' if ok else b'')
                for a in alts:
                    v = repo.fold(a, fi.module)
                    if isinstance(v, bytes):
                        n += 1
                        r.check(v in (b'\x01', b''), '%s:%d:%r' % (fi.name, n, v), common.site_of(fi, c), 'pushes %r' % (v,),
                                'a boolean result is pushed as %r; the reference pushes 01 for true and the empty vector for false (observable through SIZE/EQUAL and the final stack)' % (v,))


# ------------------------------------------------------------------------------------------------ L1 limits
def rule_limits(ctx, repo, it):
    r = ctx.rule('C06.L1', 'limits: script 10000, push 520, 201 counted ops (multisig keys added first), 1000 stack items, 4-byte numbers, key/sig counts, NULLDUMMY',
                 engine='RULES', floor=10)
    L = spec.LIMITS
    for n, v in L.items():
        if n in ('MAX_KEYS',):
            continue
        m = it.mod if n in ('MAX_NUM_SIZE', 'MAX_STACK_ITEMS') else repo.get_module('bitcoin.core.script')
        got = repo.module_value(m, n)
        r.check(got == v, 'const:%s' % n, m.relpath + ':0', '%s = %d' % (n, v), '%s is %r, reference %d' % (n, got, v))
    nr = ['err_raiser']
    ev = it.fi
    sv = it.script_var
    check_rule(r, 'script-size', ev, repo, ['len(%s) > 10000' % sv], 'len(%s)' % sv, 'scripts above 10000 bytes fail', noreturn=nr)
    check_rule(r, 'push-size', ev, repo, ['len(%s) > 520' % it.v_data], 'len(%s)' % it.v_data, 'pushes above 520 bytes fail', noreturn=nr)
    check_rule(r, 'op-count', ev, repo, ['nOpCount[0] > 201'], 'nOpCount', 'more than 201 counted operations fail', noreturn=nr)
    check_rule(r, 'stack-size', ev, repo, ['len(stack) + len(altstack) > 1000', 'len(altstack) + len(stack) > 1000'], 'len(stack) +', 'more than 1000 stack+altstack items fail', noreturn=nr)
    cb = repo.get_function('bitcoin.core.scripteval._CastToBigNum')
    check_rule(r, 'num-size', cb, repo, ['len(%s) > 4' % cb.params[0]], 'MAX_NUM_SIZE' if False else cb.params[0], 'numeric operands above 4 bytes fail (by byte length)', noreturn=nr)
    # ... and it converts with vch2bn of the same operand
    conv = [norm(c) for c in common.iter_calls(cb.node) if norm(c.func).endswith('vch2bn')]
    r.check(conv == ['bitcoin.core._bignum.vch2bn(%s)' % cb.params[0]], 'num-decode', cb.site, 'vch2bn(operand)', 'number decoding calls are %s' % conv)
    ms = repo.get_function('bitcoin.core.scripteval._CheckMultiSig')
    check_rule(r, 'key-count', ms, repo, ['keys_count < 0 or keys_count > 20'], 'keys_count', 'key count outside 0..20 fails', noreturn=nr)
    check_rule(r, 'sig-count', ms, repo, ['sigs_count < 0 or sigs_count > keys_count'], 'sigs_count', 'signature count outside 0..keys fails', noreturn=nr)
    g = check_rule(r, 'multisig-op-count', ms, repo, ['nOpCount[0] > 201'], 'nOpCount', 'key count is charged against the 201-operation limit', noreturn=nr)
    multisig_order_check(r, repo, ms)
    # NULLDUMMY: the raising guards whose condition (with the enclosing ifs) names the flag; what they ask of the dummy
    def cond_of(n):
        parts = [n.test]
        cur, child = getattr(n, '_parent', None), n
        while cur is not None and not isinstance(cur, (ast.FunctionDef, ast.AsyncFunctionDef)):
            if isinstance(cur, ast.If) and any(child is x for x in cur.body):
                parts.append(cur.test)
            child, cur = cur, getattr(cur, '_parent', None)
        out = []
        for p_ in parts:
            out.extend(p_.values if isinstance(p_, ast.BoolOp) and isinstance(p_.op, ast.And) else [p_])
        return out
    cands = []
    for n in walk_no_nested(ms.node):
        if isinstance(n, ast.If) and flow.always_raises(n.body, nr):
            cj = cond_of(n)
            if any('SCRIPT_VERIFY_NULLDUMMY in flags' == norm(c_) for c_ in cj):
                cands.append((n, [norm(c_) for c_ in cj if 'SCRIPT_VERIFY_NULLDUMMY' not in norm(c_) and norm(c_) not in ('len(stack)', 'stack', 'len(stack) > 0', 'len(stack) != 0', 'len(stack) >= 1')]))
    mentions = [n for n in walk_no_nested(ms.node) if isinstance(n, ast.If) and 'SCRIPT_VERIFY_NULLDUMMY' in norm(n.test)]
    good = {"stack[-1] != b''", "len(stack[-1]) != 0", "len(stack[-1]) > 0", "stack[-1]", "len(stack[-1])", "b'' != stack[-1]", "len(stack[-1]) >= 1", "not stack[-1] == b''"}
    if not mentions:
        r.violated('nulldummy', ms.site, 'no NULLDUMMY check in _CheckMultiSig')
    elif len(cands) == 1 and len(cands[0][1]) == 1 and cands[0][1][0] in good:
        r.ok('nulldummy', common.site_of(ms, cands[0][0]), 'dummy must be the empty vector: `%s`' % cands[0][1][0])
    elif len(cands) == 1 and len(cands[0][1]) == 1 and re.match(r"^(stack\[-1\] (!=|==) b'.*'|stack\[-1\] (!=|==|is|is not) (-?\d+|None|True|False|'.*')|len\(stack\[-1\]\) (!=|==|>|<|>=|<=) \d+|not stack\[-1\]|stack\[-[02-9]\].*|(not )?_CastToBool\(stack\[-1\]\))$", cands[0][1][0]):
        r.violated('nulldummy', common.site_of(ms, cands[0][0]), 'NULLDUMMY requires the dummy element to be the empty byte vector; the test is `%s`%s' % (cands[0][1][0],
                   ' (a stack element is a byte string: compared with a value of another type the answer never changes)' if re.search(r"(!=|==|is|is not) (-?\d+|None|True|False|'.*')$", cands[0][1][0]) else ''))
    elif not cands and all(not any(isinstance(x, (ast.Raise, ast.Call)) for b_ in m_.body for x in ast.walk(b_)) for m_ in mentions):
        r.violated('nulldummy', common.site_of(ms, mentions[0]), 'NULLDUMMY branch never fails')
    else:
        r.undecided('nulldummy', common.site_of(ms, mentions[0]), 'what the NULLDUMMY check asks of the dummy element was not recognised: %s' % [c_[1] for c_ in cands])


def multisig_order_check(r, repo, ms):
    # order: range check of the key count, then += keys_count, then the limit comparison
    body = ms.node.body
    idx = {}
    for k, s in enumerate(body):
        t = norm(s)
        if isinstance(s, ast.If) and 'keys_count > 20' in canon_guard(s.test, repo, ms.module):
            idx['range'] = k
        if isinstance(s, ast.AugAssign) and t.startswith('nOpCount[0] += keys_count'):
            idx['add'] = k
        if isinstance(s, ast.If) and canon_guard(s.test, repo, ms.module) == 'nOpCount[0] > 201':
            idx['limit'] = k
    ok = set(idx) == {'range', 'add', 'limit'} and idx['range'] < idx['add'] < idx['limit']
    r.check(ok, 'multisig-op-count:order', ms.site, 'range check, then nOpCount += keys, then the comparison',
            'order in _CheckMultiSig is %s; reference: validate the key count (0..20), add it to the operation count, then compare with 201 (an unvalidated count must never be charged)' % sorted(idx.items(), key=lambda kv: kv[1]))


# ------------------------------------------------------------------------------------------------ L2
def rule_stack_limit_path(ctx, repo, it):
    r = ctx.rule('C06.L2', 'every completing path through one interpreter iteration passes the stack-size guard', engine='DOM', floor=256)
    rows = it.rows()
    site0 = common.site_of(it.fi, it.loop)
    for v in range(256):
        bad = []
        for ex in (True, False):
            for p in rows[(v, ex)]:
                if p.end == 'raise':
                    continue
                i = it.path_info(p)
                changes = touches_state(it, p)
                if not i['limit_checked'] and changes and 'stack' in changes and 'vfExec' not in changes:
                    bad.append((ex, p.end, changes))
        if bad:
            ex, end, ch = bad[0]
            r.violated(opn(v), site0, '%s: after `%s` the iteration ends with `%s` without the stack+altstack > 1000 check' % (opn(v), ch, end))
        else:
            r.ok(opn(v), site0, 'limit guard passed on every completing path that changes a stack')


# ------------------------------------------------------------------------------------------------ O1 operators
def final_expr(p, var, stackparam):
    """symbolic value of `var` at the end of a helper path, in terms of a = stack[-2], b = stack[-1], x = stack[-1]"""
    env = {}
    for s in p.stmts():
        if isinstance(s, ast.Assign) and len(s.targets) == 1 and isinstance(s.targets[0], ast.Name):
            env[s.targets[0].id] = subst_expr(s.value, env)
        elif isinstance(s, ast.AugAssign) and isinstance(s.target, ast.Name):
            cur = env.get(s.target.id, ast.Name(id=s.target.id, ctx=ast.Load()))
            env[s.target.id] = ast.BinOp(left=cur, op=s.op, right=subst_expr(s.value, env))
    return env


def subst_expr(e, env):
    class T(ast.NodeTransformer):
        def visit_Name(s, n):
            if n.id in env:
                return env[n.id]
            return n
    return T().visit(ast.parse(ast.unparse(e), mode='eval').body)


def operand_names(e, stackparam):
    """replace _CastToBigNum(stack[-k], err_raiser) by operand letters"""
    t = ast.unparse(e)
    t = re.sub(r'_CastToBigNum\(%s\[-1\], \w+\)' % stackparam, 'TOP', t)
    t = re.sub(r'_CastToBigNum\(%s\[-2\], \w+\)' % stackparam, 'SECOND', t)
    t = re.sub(r'_CastToBigNum\(%s\[-3\], \w+\)' % stackparam, 'THIRD', t)
    return t


def rule_operators(ctx, repo, it):
    r = ctx.rule('C06.O1', 'arithmetic/comparison operators and operand order equal the reference (a = second from top, b = top)', engine='CONST', floor=19)
    fu, un, fb, bi = ctx.extra.pop('_helpers')
    ref_bin = {
        'OP_ADD': {'SECOND + TOP', 'TOP + SECOND'}, 'OP_SUB': {'SECOND - TOP'},
        'OP_BOOLAND': {'int(SECOND != 0 and TOP != 0)', 'int(TOP != 0 and SECOND != 0)'}, 'OP_BOOLOR': {'int(SECOND != 0 or TOP != 0)', 'int(TOP != 0 or SECOND != 0)'},
        'OP_NUMEQUAL': {'int(SECOND == TOP)', 'int(TOP == SECOND)'}, 'OP_NUMEQUALVERIFY': {'int(SECOND == TOP)', 'int(TOP == SECOND)'},
        'OP_NUMNOTEQUAL': {'int(SECOND != TOP)', 'int(TOP != SECOND)'},
        'OP_LESSTHAN': {'int(SECOND < TOP)', 'int(TOP > SECOND)'}, 'OP_GREATERTHAN': {'int(SECOND > TOP)', 'int(TOP < SECOND)'},
        'OP_LESSTHANOREQUAL': {'int(SECOND <= TOP)', 'int(TOP >= SECOND)'}, 'OP_GREATERTHANOREQUAL': {'int(SECOND >= TOP)', 'int(TOP <= SECOND)'},
    }
    ref_un = {'OP_1ADD': {'TOP + 1', '1 + TOP'}, 'OP_1SUB': {'TOP - 1'}, 'OP_NEGATE': {'-TOP'}, 'OP_NOT': {'int(TOP == 0)', 'int(0 == TOP)'},
              'OP_0NOTEQUAL': {'int(TOP != 0)', 'int(0 != TOP)'}}
    sp = fb.params[1]
    for n, accepted in sorted(ref_bin.items()):
        v = O[n]
        req, deltas, probs, paths = bi.get(v, (0, set(), [], []))
        got = set()
        for p in paths:
            if p.end == 'raise':
                continue
            env = final_expr(p, 'bn', sp)
            if 'bn' in env:
                got.add(operand_names(env['bn'], sp))
        r.check(bool(got) and got <= accepted, n, fb.site, '%s' % sorted(got), '%s computes %s; reference: %s' % (n, sorted(got), sorted(accepted)[0]))
    for n, want in (('OP_MIN', 'min'), ('OP_MAX', 'max')):
        v = O[n]
        paths = bi.get(v, (0, set(), [], []))[3]
        sem = set()
        for p in paths:
            if p.end == 'raise':
                continue
            env = final_expr(p, 'bn', sp)
            res = operand_names(env['bn'], sp) if 'bn' in env else '?'
            conds = {operand_names(subst_expr(ast.parse(k, mode='eval').body, {kk: vv for kk, vv in env.items() if kk != 'bn'}), sp): val for k, val in p.assume.items()
                     if 'len(' not in k}
            sem.add((tuple(sorted(conds.items())), res))
        ok = minmax_ok(sem, want)
        r.check(ok, n, fb.site, 'selects the %s operand' % want, '%s does not select the %simum of its operands: %s' % (n, want, sorted(sem)))
    sp = fu.params[1]
    for n, accepted in sorted(ref_un.items()):
        v = O[n]
        paths = un.get(v, (0, set(), [], []))[3]
        got = set()
        for p in paths:
            if p.end == 'raise':
                continue
            env = final_expr(p, 'bn', sp)
            if 'bn' in env:
                got.add(operand_names(env['bn'], sp))
        r.check(bool(got) and got <= accepted, n, fu.site, '%s' % sorted(got), '%s computes %s; reference: %s' % (n, sorted(got), sorted(accepted)[0]))
    # ABS
    paths = un.get(O['OP_ABS'], (0, set(), [], []))[3]
    sem = set()
    for p in paths:
        if p.end == 'raise':
            continue
        env = final_expr(p, 'bn', sp)
        conds = tuple(sorted((operand_names(subst_expr(ast.parse(k, mode='eval').body, {}), sp).replace('bn', 'TOP'), val) for k, val in p.assume.items() if 'len(' not in k))
        sem.add((conds, operand_names(env['bn'], sp) if 'bn' in env else '?'))
    ok = sem == {((('TOP < 0', True),), '-TOP'), ((('TOP < 0', False),), 'TOP')} or sem == {((), 'abs(TOP)')}
    r.check(ok, 'OP_ABS', fu.site, 'absolute value', 'OP_ABS computes %s' % sorted(sem))
    # WITHIN: THIRD is x, SECOND is min, TOP is max: min <= x < max
    rows = it.rows()
    got = set()
    for p in rows[(O['OP_WITHIN'], True)]:
        if p.end == 'raise':
            continue
        env = final_expr(p, 'v', 'stack')
        if 'v' in env:
            got.add(operand_names(env['v'], 'stack'))
    if not got:
        # no flag variable: the condition is the one under which b'\x01' (and not b'') is what the operation pushes
        sem = set()
        for p in rows[(O['OP_WITHIN'], True)]:
            if p.end == 'raise':
                continue
            env = final_expr(p, None, 'stack')
            pushes = [s_.value.args[0] for s_ in p.stmts() if isinstance(s_, ast.Expr) and isinstance(s_.value, ast.Call) and norm(s_.value.func) == 'stack.append' and s_.value.args]
            if not pushes:
                sem.add(None)
                continue
            x = subst_expr(pushes[-1], env)
            conds = [(operand_names(subst_expr(ast.parse(k_, mode='eval').body, env), 'stack'), val) for k_, val in p.assume.items() if 'len(' not in k_]
            conds = [c_ for c_ in conds if re.search(r'\b(TOP|SECOND|THIRD)\b', c_[0])]
            if isinstance(x, ast.IfExp) and isinstance(x.body, ast.Constant) and isinstance(x.orelse, ast.Constant) and not conds:
                t_ = operand_names(x.test, 'stack')
                sem.add((t_, True, x.body.value))
                sem.add((t_, False, x.orelse.value))
            elif isinstance(x, ast.Constant) and len(conds) == 1:
                sem.add((conds[0][0], conds[0][1], x.value))
            else:
                sem.add(None)
        tests = {t[0] for t in sem if t is not None}
        if None not in sem and len(tests) == 1 and {(t[1], t[2]) for t in sem} == {(True, b'\x01'), (False, b'')}:
            got = tests
        elif None not in sem and len(tests) == 1 and {(t[1], t[2]) for t in sem} == {(False, b'\x01'), (True, b'')}:
            got = {'not (%s)' % next(iter(tests))}
    acc = {'SECOND <= THIRD and THIRD < TOP', 'THIRD >= SECOND and THIRD < TOP', 'SECOND <= THIRD < TOP', 'THIRD < TOP and SECOND <= THIRD'}
    if not got:
        r.undecided('OP_WITHIN', common.site_of(it.fi, it.loop), 'the condition under which OP_WITHIN pushes true was not found')
    elif got <= acc:
        r.ok('OP_WITHIN', common.site_of(it.fi, it.loop), '%s' % sorted(got))
    else:
        from ..rules import equiv
        verdicts = [equiv(g_, 'SECOND <= THIRD and THIRD < TOP') for g_ in sorted(got)]
        if all(v_ is True for v_ in verdicts):
            r.ok('OP_WITHIN', common.site_of(it.fi, it.loop), '%s' % sorted(got))
        elif any(v_ is False for v_ in verdicts):
            r.violated('OP_WITHIN', common.site_of(it.fi, it.loop), 'OP_WITHIN computes %s; reference: min <= x < max with x third from top' % sorted(got))
        else:
            r.undecided('OP_WITHIN', common.site_of(it.fi, it.loop), 'OP_WITHIN computes %s, which was not compared with min <= x < max' % sorted(got))
    # results are encoded with bn2vch
    for fi in (fu, fb):
        enc = [norm(c) for c in common.iter_calls(fi.node) if isinstance(c.func, ast.Attribute) and c.func.attr == 'append']
        r.check(enc == ['%s.append(bitcoin.core._bignum.bn2vch(bn))' % fi.params[1]], 'encode:%s' % fi.name, fi.site, 'result pushed as bn2vch(result)', 'result pushes: %s' % enc)


def minmax_ok(sem, which):
    """accepted if-else spellings of min/max over (SECOND, TOP)"""
    if sem == {((), '%s(SECOND, TOP)' % which)} or sem == {((), '%s(TOP, SECOND)' % which)}:
        return True
    tbl = {}
    for conds, res in sem:
        if len(conds) != 1:
            return False
        (c, val), = conds
        tbl[(c, val)] = res
    if len(tbl) != 2:
        return False
    for (c, val), res in tbl.items():
        m = re.match(r'^(SECOND|TOP) (<|<=|>|>=) (SECOND|TOP)$', c)
        if not m or m.group(1) == m.group(3):
            return False
        l, op, rr = m.groups()
        # which operand is the smaller one when the condition has this truth value?
        less = op in ('<', '<=')
        smaller = l if (less == val) else rr
        larger = rr if smaller == l else l
        want = smaller if which == 'min' else larger
        if res != want:
            return False
    return True


# ------------------------------------------------------------------------------------------------ H1 / H2
def _never_short(lower, upper, var):
    """upper - lower >= 64 for the first block indices"""
    try:
        lo = compile(ast.Expression(body=lower), '<lo>', 'eval')
        up = compile(ast.Expression(body=upper), '<up>', 'eval')
        return all(eval(up, {'__builtins__': {}}, {var: k}) - eval(lo, {'__builtins__': {}}, {var: k}) >= 64 for k in range(0, 6))
    except Exception:
        return False


def rule_hashes(ctx, repo, it):
    r = ctx.rule('C06.H1', 'hash opcodes call the prescribed hash functions; RIPEMD-160 tables, initial state and padding shape equal the standard', engine='CONST', floor=14)
    rows = it.rows()
    site0 = common.site_of(it.fi, it.loop)
    want = {'OP_RIPEMD160': 'ripemd160(stack.pop())', 'OP_SHA1': 'hashlib.sha1(stack.pop()).digest()', 'OP_SHA256': 'hashlib.sha256(stack.pop()).digest()',
            'OP_HASH160': 'bitcoin.core.serialize.Hash160(stack.pop())', 'OP_HASH256': 'bitcoin.core.serialize.Hash(stack.pop())'}
    for n, w in sorted(want.items()):
        got = set()
        for p in rows[(O[n], True)]:
            if p.end == 'raise':
                continue
            for s in p.stmts():
                t = norm(s)
                m = re.match(r'^stack\.append\((.*)\)$', t)
                if m:
                    got.add(m.group(1))
        r.check(got == {w}, n, site0, w, '%s pushes %s; reference: %s' % (n, sorted(got), w))
    fv = repo.fold(ast.parse('ripemd160', mode='eval').body, it.mod)
    r.check(isinstance(fv, FuncRef) and fv.info.qualname == 'bitcoin.core.contrib.ripemd160.ripemd160', 'ripemd160:binding', site0, 'pure-Python RIPEMD-160', 'ripemd160 resolves to %r' % (fv,))
    rm = repo.get_module('bitcoin.core.contrib.ripemd160')
    for t in ('ML', 'MR', 'RL', 'RR', 'KL', 'KR'):
        got = repo.module_value(rm, t)
        r.check(got == spec.RIPEMD[t], 'ripemd160:%s' % t, rm.relpath + ':0', 'table %s' % t, 'RIPEMD-160 table %s differs from the standard' % t)
    rf = repo.get_function('bitcoin.core.contrib.ripemd160.ripemd160')
    iv = None
    for n in walk_no_nested(rf.node):
        if isinstance(n, ast.Assign) and norm(n.targets[0]) == 'state' and iv is None:
            v_ = repo.fold(n.value, rm)
            if isinstance(v_, tuple):
                iv = v_
    r.check(iv == spec.RIPEMD['IV'], 'ripemd160:IV', rf.site, 'initial state', 'RIPEMD-160 initial state is %r' % (iv,))
    # padding: 0x80, zeros up to 56 mod 64, 8-byte little-endian bit length
    data = rf.params[0]
    defs = {norm(n.targets[0]): n.value for n in walk_no_nested(rf.node) if isinstance(n, ast.Assign) and len(n.targets) == 1}
    pad = defs.get('pad')
    fin = defs.get('fin')
    from ..rules import canon_arith
    # every 64-byte block is taken exactly: the calls of compress() run over <buf>[64*b : 64*(b+1)] for b in range(len(<buf>) >> 6)
    for lp_ in [n for n in walk_no_nested(rf.node) if isinstance(n, ast.For) and isinstance(n.target, ast.Name)]:
        calls_ = [c_ for c_ in ast.walk(lp_) if isinstance(c_, ast.Call) and norm(c_.func) == 'compress' and c_.args]
        for c_ in calls_:
            blk_ = c_.args[-1]
            b_ = lp_.target.id
            keyb = 'ripemd160:blocks:%s' % (norm(blk_.value) if isinstance(blk_, ast.Subscript) else '?')
            if isinstance(blk_, ast.Subscript) and isinstance(blk_.slice, ast.Slice) and blk_.slice.lower is not None and blk_.slice.upper is not None:
                lo_, up_ = canon_arith(blk_.slice.lower), canon_arith(blk_.slice.upper)
                buf_ = norm(blk_.value)
                good_lo = {canon_arith('64 * %s' % b_), canon_arith('%s << 6' % b_)}
                good_up = {canon_arith('64 * (%s + 1)' % b_), canon_arith('64 * %s + 64' % b_), canon_arith('(%s + 1) << 6' % b_)}
                rng_ok = canon_arith(lp_.iter) in {canon_arith('range(len(%s) >> 6)' % buf_), canon_arith('range(len(%s) // 64)' % buf_)}
                stride_ok = canon_arith(lp_.iter) in {canon_arith('range(0, len(%s) - 63, 64)' % buf_), canon_arith('range(0, len(%s) - 64 + 1, 64)' % buf_)} \
                    and lo_ == canon_arith(b_) and up_ == canon_arith('%s + 64' % b_)
                if (lo_ in good_lo and up_ in good_up and rng_ok) or stride_ok:
                    r.ok(keyb, common.site_of(rf, c_), 'blocks %s[64*b:64*(b+1)]' % buf_)
                elif rng_ok and lo_ in good_lo and _never_short(blk_.slice.lower, blk_.slice.upper, b_):
                    r.undecided(keyb, common.site_of(rf, c_), 'the pieces `%s` start at the block boundaries and are at least 64 bytes long (longer than a block: harmless only if compress() reads 64 bytes of them)' % norm(blk_))
                elif rng_ok and re.match(r'^[\d\s*+()<b]+$', norm(blk_.slice.lower).replace(b_, 'b')) and re.match(r'^[\d\s*+()<b]+$', norm(blk_.slice.upper).replace(b_, 'b')):
                    r.violated(keyb, common.site_of(rf, c_), 'RIPEMD-160 compresses `%s`: the 64-byte blocks are %s[64*b:64*(b+1)] (a block that starts early, ends early or overlaps its neighbour changes every digest '
                               'of an input that reaches it)' % (norm(blk_), buf_), sure=True)
                else:
                    r.undecided(keyb, common.site_of(rf, c_), 'block slicing `%s` over `%s` not recognised' % (norm(blk_), norm(lp_.iter)))
    pad_ok = pad is not None and canon_arith(pad) == canon_arith("b'\\x80' + b'\\x00' * ((119 - len(%s)) & 63)" % data)
    fin_ok = fin is not None and canon_arith(fin) == canon_arith("%s[len(%s) & ~63:] + pad + (8 * len(%s)).to_bytes(8, 'little')" % (data, data, data))
    if pad_ok and fin_ok:
        r.ok('ripemd160:padding', rf.site, '80 00* to 56 mod 64, then the 64-bit little-endian bit length')
    else:
        # an explicit one-block/two-block choice must switch at a 56-byte tail; any other boundary is wrong
        wrong = []
        for n in walk_no_nested(rf.node):
            if isinstance(n, ast.Compare) and len(n.ops) == 1 and 'len(' in norm(n.left) and isinstance(n.comparators[0], ast.Constant) and isinstance(n.comparators[0].value, int):
                k = n.comparators[0].value
                op = type(n.ops[0]).__name__
                bound = {'Lt': k, 'LtE': k + 1, 'Gt': k + 1, 'GtE': k}.get(op)
                if bound is not None and bound % 64 != 56:
                    wrong.append((n, bound))
        if wrong:
            n, bound = wrong[0]
            r.violated('ripemd160:padding', common.site_of(rf, n), 'RIPEMD-160 padding switches blocks at a tail of %d bytes (`%s`); the standard boundary is 56 (0x80, zeros up to 56 mod 64, then the 8-byte length)' % (bound, norm(n)))
        else:
            r.undecided('ripemd160:padding', rf.site, 'padding is not in the branch-free form `(119 - len) & 63`; an equivalent rewrite cannot be told from a wrong one without evaluating the arithmetic')
    rol = repo.get_function('bitcoin.core.contrib.ripemd160.rol')
    rets = [n.value for n in walk_no_nested(rol.node) if isinstance(n, ast.Return)]
    x, i = rol.params
    ok = len(rets) == 1 and c20.canon(rets[0]) == c20.canon(ast.parse('((%s << %s) | ((%s & 0xffffffff) >> (32 - %s))) & 0xffffffff' % (x, i, x, i), mode='eval').body)
    r.check(ok, 'ripemd160:rol', rol.site, '32-bit rotation', 'rol returns `%s`' % (norm(rets[0]) if rets else '?'))
    fi_ = repo.get_function('bitcoin.core.contrib.ripemd160.fi')
    rets = [norm(n.value) for n in walk_no_nested(fi_.node) if isinstance(n, ast.Return)]
    r.check(rets == ['x ^ y ^ z', 'x & y | ~x & z', '(x | ~y) ^ z', 'x & z | y & ~z', 'x ^ (y | ~z)'], 'ripemd160:f', fi_.site, 'f1..f5', 'boolean functions are %s' % rets)


# ------------------------------------------------------------------------------------------------ V1
def rule_verify(ctx, repo, it):
    r = ctx.rule('C06.V1', 'VerifyScript: every accepting path evaluates both scripts, tests non-empty/true, and runs the P2SH and CLEANSTACK steps as the reference',
                 engine='TABLE', floor=6)
    fi = repo.get_function('bitcoin.core.scripteval.VerifyScript')
    sig, pub = fi.params[0], fi.params[1]
    tr = Tracer(repo, fi.module)
    paths = tr.trace(fi.node.body, {})
    accept = [p for p in paths if p.end in ('fall', 'return')]
    if not accept:
        r.undecided('accept', fi.site, 'no accepting path')
        return
    ctx.extra['verifyscript_paths'] = len(paths)

    def seq(p):
        out = []
        for ev in p.events:
            if ev[0] == 'stmt':
                out.append(('s', norm(ev[1]), ev[1]))
            else:
                t_ = norm(ev[1].test)
                taken = ev[2]
                # one spelling per test: emptiness as `len(stack) == 0`, the size test as `len(stack) != 1` (a test written the
                # other way round is read with the branch flipped)
                ct = canon_text(t_)
                for ref_ in ('len(stack) == 0', 'len(stack) != 1'):
                    if t_ in ('not stack', 'not len(stack)') and ref_ == 'len(stack) == 0':
                        t_ = ref_
                        break
                    if ct == canon_text(ref_):
                        t_ = ref_
                        break
                    if ct == canon_text(ref_, negate=True):
                        t_, taken = ref_, not taken
                        break
                out.append(('if', t_, taken, ev[1]))
        return out

    def find(evs, pred, start=0):
        for k in range(start, len(evs)):
            if pred(evs[k]):
                return k
        return -1
    problems = {}
    undecided_ = {}
    for p in accept:
        evs = seq(p)
        flag = p.assume.get('SCRIPT_VERIFY_P2SH in flags')
        p2sh = flag and p.assume.get('%s.is_p2sh()' % pub)
        clean = p.assume.get('SCRIPT_VERIFY_CLEANSTACK in flags')
        k1 = find(evs, lambda e: e[0] == 's' and e[1].startswith('EvalScript(stack, %s, ' % sig))
        k2 = find(evs, lambda e: e[0] == 's' and e[1].startswith('EvalScript(stack, %s, ' % pub), k1 + 1) if k1 >= 0 else -1
        if k1 < 0 or k2 < 0:
            problems.setdefault('both-evaluated', 'an accepting path does not evaluate scriptSig and then scriptPubKey on the same stack')
            continue
        e1 = find(evs, lambda e: e[0] == 'if' and e[1] == 'len(stack) == 0' and not e[2], k2)
        t1 = find(evs, lambda e: e[0] == 'if' and e[1] == 'not _CastToBool(stack[-1])' and not e[2], k2)
        if e1 < 0 or t1 < 0 or e1 > t1:
            problems.setdefault('nonempty-true', 'an accepting path lacks the empty-stack / false-top tests after evaluating scriptPubKey')
        last = max(t1, k2)
        if p2sh:
            # the stack kept for the redeem script: the name restored later (`stack = <name>`), bound between the two
            # evaluations to a shallow copy of the stack
            rs0 = find(evs, lambda e: e[0] == 's' and re.match(r'^stack = \w+$', e[1]) is not None, k2)
            keep = evs[rs0][1].split(' = ')[1] if rs0 >= 0 else 'stackCopy'
            COPIES = ('list(stack)', 'stack[:]', 'stack.copy()', 'copy.copy(stack)', 'list(stack[:])', '[*stack]', 'stack + []', '[] + stack', '[x for x in stack]')
            binds = [k_ for k_ in range(len(evs)) if evs[k_][0] == 's' and evs[k_][1].startswith(keep + ' = ')]
            between = [k_ for k_ in binds if k1 < k_ < k2]
            if len(between) == 1 and evs[between[0]][1][len(keep) + 3:] in COPIES:
                pass
            elif not between or (len(between) == 1 and evs[between[0]][1][len(keep) + 3:] == 'stack'):
                problems.setdefault('p2sh:copy', 'the P2SH stack copy is not taken between the two evaluations' if not between else
                                    'the stack kept for the redeem script is the evaluation stack itself (`%s`), not a copy: evaluating scriptPubKey changes it' % evs[between[0]][1])
            else:
                undecided_['p2sh:copy'] = 'the stack kept for the redeem script is bound by `%s`' % '; '.join(evs[k_][1] for k_ in between)[:100]
            po = find(evs, lambda e: e[0] == 'if' and e[1] == 'not %s.is_push_only()' % sig and not e[2], k2)
            rs = find(evs, lambda e: e[0] == 's' and e[1] == 'stack = ' + keep, k2)
            pp = find(evs, lambda e: e[0] == 's' and re.match(r'^\w+ = CScript\(stack\.pop\(\)\)$', e[1]) is not None, rs if rs >= 0 else k2)
            if po < 0:
                problems.setdefault('p2sh:push-only', 'the P2SH arm does not require a push-only scriptSig')
            if rs < 0 or pp < 0 or (po >= 0 and not (po < rs < pp)):
                problems.setdefault('p2sh:restore', 'the P2SH arm does not restore the post-scriptSig stack and pop the redeem script from it')
            else:
                var = evs[pp][1].split(' = ')[0]
                k3 = find(evs, lambda e: e[0] == 's' and e[1].startswith('EvalScript(stack, %s, ' % var), pp)
                e3 = find(evs, lambda e: e[0] == 'if' and e[1] == 'len(stack) == 0' and not e[2], k3) if k3 >= 0 else -1
                t3 = find(evs, lambda e: e[0] == 'if' and e[1] == 'not _CastToBool(stack[-1])' and not e[2], k3) if k3 >= 0 else -1
                if k3 < 0 or e3 < 0 or t3 < 0:
                    problems.setdefault('p2sh:inner', 'the P2SH arm does not evaluate the redeem script and test its result for non-empty/true')
                last = max(last, t3)
        else:
            if find(evs, lambda e: e[0] == 's' and re.match(r'^\w+ = CScript\(stack\.pop\(\)\)$', e[1]) is not None) >= 0:
                problems.setdefault('p2sh:guard', 'the redeem-script evaluation runs although the P2SH flag / is_p2sh() does not hold')
        if clean:
            cs = find(evs, lambda e: e[0] == 'if' and e[1] == 'len(stack) != 1' and not e[2], last)
            if cs < 0:
                # `len(stack) > 1` says the same where the stack is known non-empty: a not-taken `len(stack) == 0` after the
                # last evaluation with nothing but reads of the stack in between
                c2 = find(evs, lambda e: e[0] == 'if' and e[1] == 'len(stack) > 1' and not e[2], last)
                if c2 >= 0:
                    ev_ = max([k_ for k_ in range(c2) if evs[k_][0] == 's' and evs[k_][1].startswith('EvalScript(stack, ')] or [-1])
                    ne_ = [k_ for k_ in range(ev_ + 1, c2) if evs[k_][0] == 'if' and evs[k_][1] == 'len(stack) == 0' and not evs[k_][2]]
                    if ev_ >= 0 and ne_ and not any(evs[k_][0] == 's' and re.search(r'\bstack\b', evs[k_][1]) for k_ in range(ne_[-1], c2)):
                        cs = c2
                        ctx.explain(fi, evs[c2][3], 'C06.V1 cleanstack: the stack is known non-empty there, so `> 1` is `!= 1`')
            if cs < 0:
                problems.setdefault('cleanstack', 'CLEANSTACK does not require exactly one remaining stack element at the end')
    for k in ('both-evaluated', 'nonempty-true', 'p2sh:copy', 'p2sh:push-only', 'p2sh:restore', 'p2sh:inner', 'p2sh:guard', 'cleanstack'):
        if k in problems:
            r.violated(k, fi.site, 'VerifyScript: ' + problems[k])
        elif k in undecided_:
            r.undecided(k, fi.site, 'VerifyScript: ' + undecided_[k])
        else:
            r.ok(k, fi.site, 'holds on all %d accepting paths' % len(accept))
    # rejections are VerifyScriptError
    for p in paths:
        if p.end == 'raise' and isinstance(p.endnode, ast.Raise):
            exc = p.endnode.exc
            nm = norm(exc.func) if isinstance(exc, ast.Call) else norm(exc)
            if nm != 'VerifyScriptError':
                r.violated('reject-class:%s' % nm, common.site_of(fi, p.endnode), 'VerifyScript rejects with %s, not VerifyScriptError' % nm)


# ------------------------------------------------------------------------------------------------ multisig pieces that are shape-visible
def rule_multisig(ctx, repo, it):
    r = ctx.rule('C06.M1', 'CHECKMULTISIG: every tried key is consumed whether or not it matched; failure when signatures outnumber remaining keys', engine='RULES', floor=3)
    ms = repo.get_function('bitcoin.core.scripteval._CheckMultiSig')
    loops = [n for n in walk_no_nested(ms.node) if isinstance(n, ast.While) and 'sigs_count > 0' in norm(n.test)]
    if len(loops) != 1:
        r.undecided('loop', ms.site, 'matching loop `while success and sigs_count > 0` not found')
        return
    lp = loops[0]
    top = [norm(s) for s in lp.body]
    r.check('ikey += 1' in top and 'keys_count -= 1' in top, 'key-consumed', common.site_of(ms, lp), 'ikey += 1 and keys_count -= 1 on every iteration',
            'the key cursor is not advanced unconditionally on every iteration (statements at loop level: %s): a key that matched could satisfy the next signature too' % top)
    def is_checksig_test(t):
        # the call itself, or a local holding its result
        if norm(t).startswith('_CheckSig('):
            return True
        if isinstance(t, ast.Name):
            ds = [x for x in lp.body if isinstance(x, ast.Assign) and len(x.targets) == 1 and norm(x.targets[0]) == t.id]
            return len(ds) == 1 and norm(ds[0].value).startswith('_CheckSig(')
        return False
    iff = [s for s in lp.body if isinstance(s, ast.If) and is_checksig_test(s.test)]
    if not iff:
        r.undecided('sig-consumed-on-match', common.site_of(ms, lp), 'no `if _CheckSig(...)` at loop level')
    else:
        ok = len(iff) == 1 and sorted(norm(x) for x in iff[0].body) == ['isig += 1', 'sigs_count -= 1'] and not iff[0].orelse
        r.check(ok, 'sig-consumed-on-match', common.site_of(ms, lp), 'signature cursor advances only on a match', 'the signature cursor handling is %s' % ([norm(x) for x in iff[0].body] if iff else None))
    fail = [s for s in lp.body if isinstance(s, ast.If) and equiv_folded(s.test, repo, ms.module, 'sigs_count > keys_count')]
    r.check(len(fail) == 1 and any(norm(x) == 'success = False' for x in fail[0].body), 'fail-when-too-few-keys', common.site_of(ms, lp), 'fails when sigs_count > keys_count',
            'the loop does not fail when more signatures than keys remain')
    args = None
    for c in common.iter_calls(lp):
        if norm(c.func) == '_CheckSig':
            args = [norm(a) for a in c.args]
    # the operands: the signature at the signature cursor, the key at the key cursor (directly or through locals)
    def operand(a):
        if isinstance(a, ast.Name):
            ds = [x for x in lp.body if isinstance(x, ast.Assign) and len(x.targets) == 1 and norm(x.targets[0]) == a.id]
            if len(ds) == 1:
                return norm(ds[0].value)
        return norm(a)
    call_ = [c for c in common.iter_calls(lp) if norm(c.func) == '_CheckSig']
    got_ = [operand(a) for a in call_[0].args[:2]] if call_ else None
    r.check(got_ == ['stack[-isig]', 'stack[-ikey]'], 'checksig-args', common.site_of(ms, lp), '_CheckSig(stack[-isig], stack[-ikey], ...)', '_CheckSig is called with %s' % (got_ or args))
