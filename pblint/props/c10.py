"""C10 Base58/Base58Check: the structural clauses (frame, checksum, alphabet, error discipline).

The core of the first sentence - encode and decode being mutually inverse big-integer conversions - is arithmetic and
is NOT decided by this family; what is decided are necessary conditions visible in the shape of the code."""
import ast
import re

from ..model import UNKNOWN, ClassRef, FuncRef, norm, walk_no_nested
from ..layout import LayoutEngine
from ..resolve import Resolver
from ..escape import Escape, rule_entry
from ..rules import canon_guard
from .. import common, spec, flow, shape

B = 'bitcoin.base58.'


def run(ctx):
    repo = ctx.repo
    eng = LayoutEngine(repo)
    rule_alphabet(ctx, repo)
    rule_codec_shape(ctx, repo)
    rule_frame(ctx, repo)
    rule_errors(ctx, repo, eng)
    ctx.not_decided += ['encode/decode being mutually inverse and equal to the reference big-integer definition (arithmetic loops): not applicable to this family',
                        'the leading-zero / leading-1 bookkeeping beyond its shape (counts with break, pad applied on the left)']
    ctx.assume('binascii.hexlify/unhexlify and int(.., 16) are exact')


def rule_alphabet(ctx, repo):
    r = ctx.rule('C10.C1', 'alphabet: the 58 Bitcoin base58 characters, all distinct; both directions use base len(alphabet)', engine='CONST', floor=3)
    m = repo.get_module('bitcoin.base58')
    a = repo.module_value(m, 'B58_DIGITS')
    r.check(a == spec.BASE58_ALPHABET and len(set(a)) == 58, 'alphabet', m.relpath + ':0', a, 'B58_DIGITS is %r' % (a,))
    enc = repo.get_function(B + 'encode')
    dec = repo.get_function(B + 'decode')
    bases = []
    for c in common.iter_calls(enc.node):
        if norm(c.func) == 'divmod' and len(c.args) == 2:
            bases.append(('encode', repo.fold(c.args[1], enc.module), c, enc))
    for n in walk_no_nested(dec.node):
        if isinstance(n, ast.AugAssign) and isinstance(n.op, ast.Mult):
            bases.append(('decode', repo.fold(n.value, dec.module), n, dec))
        elif isinstance(n, ast.Assign) and isinstance(n.targets[0], ast.Name):
            # n = n * 58 + digit
            for m_ in ast.walk(n.value):
                if isinstance(m_, ast.BinOp) and isinstance(m_.op, ast.Mult):
                    for a_, b_ in ((m_.left, m_.right), (m_.right, m_.left)):
                        if norm(a_) == n.targets[0].id and isinstance(repo.fold(b_, dec.module), int):
                            bases.append(('decode', repo.fold(b_, dec.module), n, dec))
    for which, v, node, fi in bases:
        r.check(v == 58, 'base:%s' % which, common.site_of(fi, node), 'base 58', '%s works in base %r, the alphabet has 58 characters' % (which, v))
    if len(bases) < 2:
        r.undecided('base', m.relpath + ':0', 'divmod / multiply step not found in both directions')


def float_constructs(fi):
    out = []
    for n in ast.walk(fi.node):
        if isinstance(n, ast.BinOp) and isinstance(n.op, ast.Div):
            out.append((n, 'true division'))
        if isinstance(n, ast.Call) and (norm(n.func).startswith('math.') or norm(n.func) in ('float', 'round')):
            out.append((n, 'call of %s' % norm(n.func)))
        if isinstance(n, ast.Constant) and isinstance(n.value, float):
            out.append((n, 'float literal'))
    return out


def rule_codec_shape(ctx, repo):
    r = ctx.rule('C10.A1', 'encode/decode: exact integer arithmetic only; digit loop, zero-prefix count with break, pad applied on the left; alphabet membership guards the digit lookup',
                 engine='RULES', floor=8)
    enc = repo.get_function(B + 'encode')
    dec = repo.get_function(B + 'decode')
    for fi in (enc, dec):
        fl = float_constructs(fi)
        if fl:
            n, what = fl[0]
            r.violated('exact:%s' % fi.name, common.site_of(fi, n), '%s uses floating-point arithmetic (%s in `%s`) in an exact big-integer conversion: results are wrong for some inputs of 6+ bytes' % (fi.name, what, norm(n)[:60]))
        else:
            r.ok('exact:%s' % fi.name, fi.site, 'integer and string operations only')
    # encode: digits appended least significant first, then reversed
    b = enc.params[0]
    const_locals = {}
    for fi_ in (enc, dec):
        for k_, v_ in common.local_defs(fi_).items():
            fv = repo.fold(v_, fi_.module)
            if isinstance(fv, (int, str, bytes)) and not isinstance(fv, bool):
                const_locals[(fi_.name, k_)] = fv
    wl = [n for n in walk_no_nested(enc.node) if isinstance(n, ast.While)]
    digits_ok = False
    acc = None
    if len(wl) == 1:
        w = wl[0]
        dm = [c for c in common.iter_calls(w) if norm(c.func) == 'divmod' and len(c.args) == 2]
        app = [c for c in common.iter_calls(w) if isinstance(c.func, ast.Attribute) and c.func.attr in ('append', 'insert')]
        if len(dm) == 1 and len(app) == 1 and isinstance(dm[0].args[0], ast.Name):
            num = dm[0].args[0].id
            acc = norm(app[0].func.value)
            tgt = getattr(dm[0], '_parent', None)
            rem = tgt.targets[0].elts[1].id if isinstance(tgt, ast.Assign) and isinstance(tgt.targets[0], ast.Tuple) and len(tgt.targets[0].elts) == 2 \
                and norm(tgt.targets[0].elts[0]) == num and isinstance(tgt.targets[0].elts[1], ast.Name) else None
            from ..rules import equiv as _eq
            looks = rem is not None and norm(app[0].args[-1]) == 'B58_DIGITS[%s]' % rem and _eq(norm(w.test), '%s > 0' % num, domain={num: (0, None)}) is True
            digits_ok = bool(looks)
    if digits_ok:
        r.ok('encode:digits', common.site_of(enc, wl[0]), 'while n > 0: n, r = divmod(n, base); append alphabet[r]')
    else:
        r.undecided('encode:digits', enc.site, 'digit loop has an unrecognised shape')
    # what is returned: <zero digit> * <count> on the left of the digits, digits most significant first
    from ..rules import canon_arith
    defs = {}
    for n in walk_no_nested(enc.node):
        if isinstance(n, ast.Assign) and len(n.targets) == 1:
            defs.setdefault(norm(n.targets[0]), []).append(n.value)
    rets = [n for n in walk_no_nested(enc.node) if isinstance(n, ast.Return)]

    def split_pad(fi, ret, zero, body_hint):
        """return value = pad-part (+) body-part -> ('left'|'right', count expr, body expr) or None"""
        v = ret.value
        if not (isinstance(v, ast.BinOp) and isinstance(v.op, ast.Add)):
            return None
        for side, padpart, body in (('left', v.left, v.right), ('right', v.right, v.left)):
            cnt = None
            if isinstance(padpart, ast.BinOp) and isinstance(padpart.op, ast.Mult):
                for a_, b_ in ((padpart.left, padpart.right), (padpart.right, padpart.left)):
                    if repo.fold(a_, fi.module) == zero:
                        cnt = b_
            elif isinstance(padpart, ast.Call) and norm(padpart.func) == 'bytes' and len(padpart.args) == 1 and zero == b'\x00':
                cnt = padpart.args[0]
            if cnt is not None:
                return side, cnt, body
        return None

    def count_kind(fi, cnt, seq_ok, marker):
        """is `cnt` the number of leading `marker` elements of the sequence? -> ('ok'|'bad'|'unknown', why)"""
        e = cnt
        loopvar = None
        if isinstance(e, ast.Name):
            loopvar = e.id
            ds = [n for n in walk_no_nested(fi.node) if isinstance(n, ast.Assign) and len(n.targets) == 1 and norm(n.targets[0]) == e.id]
            # pad = count (copy of another counter)
            if ds and isinstance(ds[-1].value, ast.Name) and ds[-1].value.id != e.id:
                return count_kind(fi, ds[-1].value, seq_ok, marker)
            if len(ds) == 1 and not (isinstance(ds[0].value, ast.Constant) and ds[0].value.value == 0):
                e = ds[0].value
                loopvar = None
        if loopvar is not None:
            loops = [n for n in walk_no_nested(fi.node) if isinstance(n, ast.For) and any(
                isinstance(x, ast.AugAssign) and norm(x.target) == loopvar for x in ast.walk(n))]
            if len(loops) != 1 or not isinstance(loops[0].target, ast.Name):
                return 'unknown', 'no single counting loop for `%s`' % loopvar
            lp = loops[0]
            c = lp.target.id
            sq = seq_ok(lp.iter)
            if sq is not True:
                return ('bad', sq) if isinstance(sq, str) else ('unknown', 'counts over `%s`' % norm(lp.iter))

            def atom(ex, path):
                if isinstance(ex, ast.Compare) and len(ex.ops) == 1 and isinstance(ex.ops[0], (ast.Eq, ast.NotEq)):
                    l_, r_ = ex.left, ex.comparators[0]
                    other = r_ if norm(l_) == c else (l_ if norm(r_) == c else None)
                    if other is not None:
                        ov = repo.fold(other, fi.module, env=dict({k2: v2 for (f2, k2), v2 in const_locals.items() if f2 == fi.name}, **path.env))
                        if ov == marker:
                            eqv = path.env.get('$eq')
                            return eqv if isinstance(ex.ops[0], ast.Eq) else (not eqv)
                return None
            from ..table import Tracer
            outcome = {}
            for eqv in (True, False):
                tr = Tracer(repo, fi.module, atom=atom)
                ps = tr.trace(lp.body, {'$eq': eqv, 'czero': 0} if False else {'$eq': eqv})
                if len(ps) != 1:
                    return 'unknown', 'the counting loop body does not fold on "element %s marker"' % ('==' if eqv else '!=')
                incs = [x for x in ps[0].stmts() if isinstance(x, ast.AugAssign) and norm(x.target) == loopvar]
                ok_inc = len(incs) == 1 and isinstance(incs[0].op, ast.Add) and repo.fold(incs[0].value, fi.module) == 1
                outcome[eqv] = (ps[0].end, len(incs), ok_inc)
            if outcome[True][0] in ('fall', 'continue') and outcome[True][2] and outcome[False][0] == 'break' and outcome[False][1] == 0:
                return 'ok', 'counted up to the first other element'
            if outcome[False][0] != 'break' and outcome[True][2]:
                return 'bad', 'the count does not stop at the first other element (every occurrence is counted, not the leading run)'
            return 'unknown', 'counting loop outcomes %s' % outcome
        # sum(1 for _ in itertools.takewhile(lambda c: c == M, SEQ))
        if isinstance(e, ast.Call) and norm(e.func) == 'sum' and len(e.args) == 1 and isinstance(e.args[0], ast.GeneratorExp):
            g = e.args[0]
            it = g.generators[0].iter if len(g.generators) == 1 and not g.generators[0].ifs else None
            if repo.fold(g.elt, fi.module) == 1 and isinstance(it, ast.Call) and norm(it.func).endswith('takewhile') and len(it.args) == 2 and isinstance(it.args[0], ast.Lambda):
                lam = it.args[0]
                sq = seq_ok(it.args[1])
                if sq is not True:
                    return ('bad', sq) if isinstance(sq, str) else ('unknown', 'counts over `%s`' % norm(it.args[1]))
                b_ = lam.body
                if len(lam.args.args) == 1 and isinstance(b_, ast.Compare) and len(b_.ops) == 1 and isinstance(b_.ops[0], ast.Eq):
                    a_ = lam.args.args[0].arg
                    other = b_.comparators[0] if norm(b_.left) == a_ else (b_.left if norm(b_.comparators[0]) == a_ else None)
                    if other is not None and repo.fold(other, fi.module) == marker:
                        return 'ok', 'takewhile over the leading run'
        # len(X) - len(X.lstrip(M)): the leading run;  .strip / .rstrip count (also) the trailing run
        if isinstance(e, ast.BinOp) and isinstance(e.op, ast.Sub) and isinstance(e.left, ast.Call) and norm(e.left.func) == 'len' and isinstance(e.right, ast.Call) \
                and norm(e.right.func) == 'len' and len(e.right.args) == 1 and isinstance(e.right.args[0], ast.Call) and isinstance(e.right.args[0].func, ast.Attribute) \
                and e.right.args[0].func.attr in ('lstrip', 'strip', 'rstrip') and len(e.left.args) == 1 and norm(e.left.args[0]) == norm(e.right.args[0].func.value):
            how = e.right.args[0].func.attr
            mk = repo.fold(e.right.args[0].args[0], fi.module) if e.right.args[0].args else None
            sq = seq_ok(e.left.args[0])
            if how == 'lstrip' and mk in (marker, bytes([marker]) if isinstance(marker, int) else marker) and sq is True:
                return 'ok', 'length of the leading run (lstrip)'
            if how in ('strip', 'rstrip'):
                return 'bad', 'the count `%s` includes the run at the END of the value: every trailing marker adds a spurious leading one' % norm(e)[:60]
        return 'unknown', 'count is `%s`' % norm(e)[:70]

    def pad_rule(fi, which, zero, seq_ok, marker, what_left, what_count):
        rets_ = [n for n in walk_no_nested(fi.node) if isinstance(n, ast.Return) and n.value is not None and repo.fold(n.value, fi.module) not in (b'', '')]
        sp = [split_pad(fi, n, zero, None) for n in rets_]
        if len(rets_) != 1 or sp[0] is None:
            r.undecided('%s:pad-left' % which, fi.site, '%s returns %s: not recognisably <zero digit> * count + digits' % (which, [norm(n.value)[:60] for n in rets_]))
            r.undecided('%s:%s' % (which, 'zero-count' if which == 'encode' else 'one-count'), fi.site, 'no pad count found')
            return None
        side, cnt, body = sp[0]
        r.check(side == 'left', '%s:pad-left' % which, common.site_of(fi, rets_[0]), what_left, '%s returns `%s`: the padding is applied on the right' % (which, norm(rets_[0].value)))
        kind, why = count_kind(fi, cnt, seq_ok, marker)
        key = '%s:%s' % (which, 'zero-count' if which == 'encode' else 'one-count')
        if kind == 'ok':
            r.ok(key, fi.site, what_count)
        elif kind == 'bad':
            r.violated(key, fi.site, '%s: %s' % (which, why))
        else:
            r.undecided(key, fi.site, '%s: %s' % (which, why))
        return body
    body = pad_rule(enc, 'encode', '1', lambda it: True if norm(it) == b else None, 0,
                    "one '1' per leading zero byte, on the left", 'leading zero bytes counted up to the first non-zero byte')
    # digit order
    if body is not None and acc is not None:
        bt = body
        if isinstance(bt, ast.Name):
            ds = defs.get(bt.id, [])
            joined = [d for d in ds if isinstance(d, ast.Call) and isinstance(d.func, ast.Attribute) and d.func.attr == 'join']
            bt = joined[-1] if joined else bt
        t = norm(bt)
        inserts_front = any(isinstance(c.func, ast.Attribute) and c.func.attr == 'insert' and norm(c.func.value) == acc and repo.fold(c.args[0], enc.module) == 0 for c in common.iter_calls(enc.node))
        if t in ("''.join(%s[::-1])" % acc, "''.join(reversed(%s))" % acc) or (t == "''.join(%s)" % acc and (inserts_front or any(norm(c) == '%s.reverse()' % acc for c in common.iter_calls(enc.node)))):
            r.ok('encode:reversed', enc.site, 'digits reversed (most significant first)')
        elif t == "''.join(%s)" % acc:
            r.violated('encode:reversed', enc.site, 'the digits are joined in the order they were produced (least significant first): `%s`' % t)
        else:
            r.undecided('encode:reversed', enc.site, 'digit order handling: `%s`' % t[:70])
    else:
        r.undecided('encode:reversed', enc.site, 'digit list not identified')
    # decode: membership guard dominates the index lookup, raises InvalidBase58Error
    s = dec.params[0]
    # ... and it is the text as given that is walked: a rebinding of the parameter (strip, lower, replace, a slice) decides
    # about characters before the membership test sees them
    reb = [n for n in walk_no_nested(dec.node) if isinstance(n, (ast.Assign, ast.AugAssign)) and any(isinstance(t, ast.Name) and t.id == s for t in (n.targets if isinstance(n, ast.Assign) else [n.target]))]
    if reb:
        v_ = reb[0].value
        lossy = isinstance(v_, ast.Call) and isinstance(v_.func, ast.Attribute) and v_.func.attr in ('strip', 'lstrip', 'rstrip', 'replace', 'lower', 'upper', 'translate', 'split', 'casefold') \
            and any(isinstance(x, ast.Name) and x.id == s for x in ast.walk(v_.func.value))
        if lossy:
            r.violated('decode:text-as-given', common.site_of(dec, reb[0]), 'decode rebinds its text with `%s` before looking at the characters: characters outside the alphabet (white space, '
                       'for `strip`) are dropped instead of raising InvalidBase58Error' % norm(reb[0]), sure=True)
        else:
            r.undecided('decode:text-as-given', common.site_of(dec, reb[0]), 'decode rebinds its text: `%s`' % norm(reb[0])[:80])
    else:
        r.ok('decode:text-as-given', dec.site, 'the parameter is not rebound before the character loop')
    idx = [c for c in common.iter_calls(dec.node) if norm(c.func) in ('B58_DIGITS.index', 'B58_DIGITS.find')]
    if not idx:
        # a reverse table indexed by the character code: the index is unbounded for text (ord up to 0x10FFFF) unless a
        # bound or membership test dominates the lookup
        tabs = [n for n in walk_no_nested(dec.node) if isinstance(n, ast.Subscript) and isinstance(n.ctx, ast.Load) and isinstance(n.value, ast.Name)
                and isinstance(n.slice, ast.Call) and norm(n.slice.func) == 'ord' and n.value.id in dec.module.bindings]
        if tabs:
            t_ = tabs[0]
            ch = norm(t_.slice.args[0])

            def cond2(test, ch=ch, tab=t_.value.id):
                t = norm(test)
                if t in ('%s not in B58_DIGITS' % ch, 'ord(%s) >= len(%s)' % (ch, tab), 'ord(%s) > 255' % ch, 'ord(%s) >= 256' % ch):
                    return frozenset(['bad']), frozenset(['bounded'])
                if t in ('%s in B58_DIGITS' % ch, 'ord(%s) < len(%s)' % (ch, tab), 'ord(%s) < 256' % ch, 'ord(%s) <= 255' % ch):
                    return frozenset(['bounded']), frozenset(['bad'])
                return frozenset(), frozenset()
            mf2 = flow.run_must(dec.node, cond=cond2)
            st2 = t_
            while not isinstance(st2, ast.stmt):
                st2 = st2._parent
            f2 = mf2.at.get(id(st2))
            r.check(f2 is not None and 'bounded' in f2, 'decode:lookup', common.site_of(dec, t_), 'table lookup only for characters inside the table',
                    'the digit lookup `%s` indexes a table by the character code without a bound: a character above the table size (any non-Latin-1 character) raises IndexError instead of InvalidBase58Error' % norm(t_))
        else:
            r.undecided('decode:lookup', dec.site, 'no alphabet lookup')
    for c in idx:
        var = norm(c.args[0])

        def cond(test, var=var):
            t = norm(test)
            if t == '%s not in B58_DIGITS' % var:
                return frozenset(['bad']), frozenset(['member'])
            if t == '%s in B58_DIGITS' % var:
                return frozenset(['member']), frozenset(['bad'])
            return frozenset(), frozenset()
        mf = flow.run_must(dec.node, cond=cond)
        st = c
        while not isinstance(st, ast.stmt):
            st = st._parent
        f = mf.at.get(id(st))
        r.check(f is not None and 'member' in f, 'decode:membership-guard', common.site_of(dec, c), 'digit lookup only for characters of the alphabet',
                'the digit lookup `%s` is not dominated by a per-character membership test: a character outside the alphabet (for instance a trailing newline that a `$`-anchored pattern lets through) raises ValueError instead of InvalidBase58Error' % norm(c))
        bad = [(k, n, ff) for k, n, ff in mf.exits if 'bad' in ff]
        okc = bad and all(k == 'raise' and isinstance(n, ast.Raise) and isinstance(n.exc, ast.Call) and norm(n.exc.func) == 'InvalidBase58Error' for k, n, ff in bad)
        r.check(bool(okc), 'decode:invalid-character', dec.site, 'a character outside the alphabet raises InvalidBase58Error', 'a character outside the alphabet does not raise InvalidBase58Error')
    def dec_seq(it):
        t = norm(it)
        if t == '%s[:-1]' % s:
            return True
        if t == s:
            return "the leading '1's are counted over the whole string: for a string of only '1's the last character is counted twice (once as padding, once as the digit of the integer 0)"
        return None
    pad_rule(dec, 'decode', b'\x00', dec_seq, '1', 'one zero byte per leading 1, on the left',
             "leading '1's counted over s[:-1] up to the first other character (the last character is the integer's own digit)")


def rule_frame(ctx, repo):
    r = ctx.rule('C10.L1', 'Base58Check frame: version byte, payload, first four bytes of SHA256d(version+payload); written and parsed consistently', engine='LAYOUT', floor=6)
    ci = repo.get_class(B + 'CBase58Data')
    from ..rules import canon_arith
    st = ci.methods['__str__']

    def glue(e):
        """x[a:b] + x[b:c] read as x[a:c], and x[a:c][0] / x[a:c][1:] as x[a] / x[a+1:c]: equal wherever the pieces do not
        overlap, which the rule `reader:slices-disjoint` (len >= 5) establishes for the decoded string"""
        class G(ast.NodeTransformer):
            def visit_BinOp(self, n):
                n = self.generic_visit(n)
                l_, r_ = n.left, n.right
                if isinstance(n.op, ast.Add) and isinstance(l_, ast.Subscript) and isinstance(r_, ast.Subscript) and isinstance(l_.slice, ast.Slice) and isinstance(r_.slice, ast.Slice) \
                        and norm(l_.value) == norm(r_.value) and l_.slice.step is None and r_.slice.step is None and l_.slice.upper is not None and r_.slice.lower is not None \
                        and norm(l_.slice.upper) == norm(r_.slice.lower):
                    lo = l_.slice.lower
                    if isinstance(lo, ast.Constant) and lo.value == 0:
                        lo = None
                    return ast.Subscript(value=l_.value, slice=ast.Slice(lower=lo, upper=r_.slice.upper, step=None), ctx=ast.Load())
                return n

            def visit_Subscript(self, n):
                n = self.generic_visit(n)
                inner = n.value
                if isinstance(inner, ast.Subscript) and isinstance(inner.slice, ast.Slice) and inner.slice.step is None and (inner.slice.lower is None or (isinstance(inner.slice.lower, ast.Constant) and inner.slice.lower.value == 0)):
                    # (x[:c])[0] -> x[0:1][0] ; (x[:c])[1:] -> x[1:c]
                    if isinstance(n.slice, ast.Constant) and n.slice.value == 0:
                        return ast.Subscript(value=ast.Subscript(value=inner.value, slice=ast.Slice(lower=ast.Constant(0), upper=ast.Constant(1), step=None), ctx=ast.Load()), slice=ast.Constant(0), ctx=ast.Load())
                    if isinstance(n.slice, ast.Slice) and n.slice.step is None and n.slice.upper is None and isinstance(n.slice.lower, ast.Constant) and n.slice.lower.value == 1:
                        return ast.Subscript(value=inner.value, slice=ast.Slice(lower=ast.Constant(1), upper=inner.slice.upper, step=None), ctx=ast.Load())
                return n
        return ast.fix_missing_locations(G().visit(ast.parse(ast.unparse(e), mode='eval').body))

    def ca(fi, e):
        return canon_arith(glue(common.resolved(fi, e, repo)))

    def want(fi, text):
        return canon_arith(glue(common.resolved(fi, ast.parse(text, mode='eval').body, repo)))
    rets = [n for n in walk_no_nested(st.node) if isinstance(n, ast.Return) and n.value is not None]
    if len(rets) != 1:
        r.undecided('writer:frame', st.site, '__str__ has %d returns' % len(rets))
    else:
        got = ca(st, rets[0].value)
        ref = want(st, 'encode(bytes([self.nVersion]) + self + Hash(bytes([self.nVersion]) + self)[0:4])')
        if got == ref:
            r.ok('writer:body', st.site, 'version byte then payload')
            r.ok('writer:checksum', st.site, 'first four bytes of SHA256d(body)')
            r.ok('writer:text', st.site, 'encode(body + checksum)')
        else:
            v = common.resolved(st, rets[0].value, repo)
            names = {n.id for n in ast.walk(v) if isinstance(n, ast.Name)} | {n.attr for n in ast.walk(v) if isinstance(n, ast.Attribute)}
            if {'encode', 'Hash', 'nVersion', 'self'} <= names:
                r.violated('writer:frame', common.site_of(st, rets[0]), '__str__ builds `%s`; the Base58Check frame is encode(version byte + payload + SHA256d(version byte + payload)[0:4])' % ast.unparse(v)[:200])
            else:
                r.undecided('writer:frame', common.site_of(st, rets[0]), '__str__ builds `%s`: not recognisably the Base58Check frame' % ast.unparse(v)[:160])
    new = ci.methods['__new__']
    s = new.params[1]
    K = 'decode(%s)' % s
    want0 = want(new, '%s[-4:]' % K)
    want1 = want(new, 'Hash(%s[0:1] + %s[1:-4])[:4]' % (K, K))

    def sides(test):
        if isinstance(test, ast.Compare) and len(test.ops) == 1 and isinstance(test.ops[0], (ast.Eq, ast.NotEq)):
            a, b_ = ca(new, test.left), ca(new, test.comparators[0])
            if {a, b_} == {want0, want1}:
                return 'eq' if isinstance(test.ops[0], ast.Eq) else 'ne'
        return None

    def cond(test):
        if isinstance(test, ast.UnaryOp) and isinstance(test.op, ast.Not):
            a, b_ = cond(test.operand)
            return b_, a
        k = sides(test)
        if k == 'ne':
            return frozenset(['mismatch']), frozenset(['match'])
        if k == 'eq':
            return frozenset(['match']), frozenset(['mismatch'])
        return frozenset(), frozenset()
    cmps = [n for n in ast.walk(new.node) if isinstance(n, ast.Compare) and sides(n)]
    if cmps:
        r.ok('reader:decode', new.site, 'the text is decoded once: %s' % K)
        r.ok('reader:slices', new.site, 'version k[0:1], payload k[1:-4], checksum k[-4:]')
        r.ok('reader:checksum', new.site, 'recomputed over version + payload')
    else:
        # what is compared instead?
        other = [n for n in ast.walk(new.node) if isinstance(n, ast.Compare) and len(n.ops) == 1 and isinstance(n.ops[0], (ast.Eq, ast.NotEq))
                 and 'Hash' in ca(new, n)]
        if other:
            n = other[0]
            r.violated('reader:checksum', common.site_of(new, n), 'the checksum test compares `%s` with `%s`; the frame needs the last four bytes of the decoded text against SHA256d(version byte + payload)[:4] = `%s` vs `%s`'
                       % (ast.unparse(common.resolved(new, n.left, repo))[:80], ast.unparse(common.resolved(new, n.comparators[0], repo))[:80], '%s[-4:]' % K, 'Hash(%s[0:1] + %s[1:-4])[:4]' % (K, K)))
        else:
            r.violated('reader:checksum', new.site, 'no comparison of the stored checksum with SHA256d(version byte + payload)[:4] in CBase58Data.__new__')
    # the three slices partition the decoded string only from five bytes up: with exactly four, k[0:1] is the first byte
    # of k[-4:] - the "version byte" is part of its own checksum, and whether such a string passes depends on SHA-256
    # alone (7415e100 does: SHA256d(74) starts 7415e100).  An object may be built only where len(k) >= 5 is known.
    kvar = next((norm(n.targets[0]) for n in walk_no_nested(new.node) if isinstance(n, ast.Assign) and len(n.targets) == 1 and isinstance(n.targets[0], ast.Name)
                 and isinstance(n.value, ast.Call) and norm(n.value.func) in ('decode', 'bitcoin.base58.decode')), None)
    if cmps and kvar:
        from ..escape import implied_at, path_condition
        for rn in [n for n in walk_no_nested(new.node) if isinstance(n, ast.Return) and n.value is not None]:
            v_ = implied_at(repo, new, rn, 'len(%s) >= 5' % kvar)
            pcs_ = [norm(t) for t, _ in path_condition(rn)]
            if v_ is True:
                r.ok('reader:slices-disjoint', common.site_of(new, rn), 'an object is built only from five bytes up')
            elif not any('len(%s)' % kvar in t for t in pcs_):
                r.violated('reader:slices-disjoint', common.site_of(new, rn), 'nothing on the way to `%s` bounds len(%s) from below: for a 4-byte string the version byte %s[0:1] is the first byte of its '
                           'own checksum %s[-4:], and the string is accepted if that byte equals the first byte of its double SHA-256 (7415e100 decodes to version 0x74 with an empty payload, '
                           'whose text form is 747415e100)' % (norm(rn.value)[:40], kvar, kvar, kvar), sure=True)
            else:
                r.undecided('reader:slices-disjoint', common.site_of(new, rn), 'whether len(%s) >= 5 where the object is built is not decided (tests: %s)' % (kvar, pcs_[:3]))
    # ... and nothing longer is refused for its length: version byte + empty payload + checksum (five bytes) is a complete frame
    if kvar:
        from ..rules import raising_guards as _rg, equiv as _eqv
        lk = 'len(%s)' % kvar
        guards_ = []
        for g0_, n_ in _rg(new.node, repo, new.module, new.cls):
            e0_ = ast.parse(g0_, mode='eval').body
            for d_ in (e0_.values if isinstance(e0_, ast.BoolOp) and isinstance(e0_.op, ast.Or) else [e0_]):
                guards_.append((ast.unparse(d_), n_))  # each disjunct of a refusal refuses on its own
        for g_, n_ in guards_:
            if lk not in g_:
                continue
            rest = re.sub(r'\d+|\b(and|or|not)\b|[<>=!()\s+-]', '', g_.replace(lk, ''))
            if rest:
                r.undecided('reader:length-refusal', common.site_of(new, n_), 'the refusal `%s` tests the length together with something else' % g_[:80])
                continue
            v_ = _eqv('(%s) or %s < 5' % (g_, lk), '%s < 5' % lk)
            if v_ is True:
                r.ok('reader:length-refusal', common.site_of(new, n_), '`%s` refuses only strings shorter than a version byte plus checksum' % g_)
            elif v_ is False:
                r.violated('reader:length-refusal', common.site_of(new, n_), 'the length refusal `%s` turns away strings of five or more bytes: a version byte with an empty payload and its checksum '
                           '(five bytes) is a complete frame, and what to_bytes/str produce for it no longer parses' % g_, sure=True)
            else:
                r.undecided('reader:length-refusal', common.site_of(new, n_), 'the length refusal `%s` was not compared with len < 5' % g_)
    mf = flow.run_must(new.node, cond=cond)
    rets = [(k, n, f) for k, n, f in mf.exits if k == 'return']
    built = want(new, 'cls.from_bytes(%s[1:-4], %s[0:1][0])' % (K, K))
    built2 = want(new, 'cls.from_bytes(%s[1:-4], %s[0])' % (K, K))
    built3 = want(new, 'cls.from_bytes(%s[1:-4], %s[0:1][-1])' % (K, K))  # the last of a one-byte slice is its first
    ok = rets and all('match' in f and ca(new, n.value) in (built, built2, built3) for k, n, f in rets)
    r.check(bool(ok), 'reader:checksum-dominates', new.site, 'an object is built only after the checksum matched, from (payload, version byte)', 'an object can be built without the checksum comparison, or from other values')
    bad = [(k, n, f) for k, n, f in mf.exits if 'mismatch' in f]
    if not bad:
        # the comparison sits inside a larger test (`len(k) < 4 or check0 != check1`): the branch that is taken whenever
        # the checksums differ is the one whose other side knows they match
        for n_ in walk_no_nested(new.node):
            if isinstance(n_, ast.If) and any(sides(c_) for c_ in ast.walk(n_.test) if isinstance(c_, ast.Compare)):
                ft_, ff_ = mf.cond_facts(n_.test)
                arm = n_.body if 'match' in ff_ else (n_.orelse if 'match' in ft_ else None)
                if arm and flow.always_raises(arm):
                    for x_ in arm:
                        if isinstance(x_, ast.Raise):
                            bad.append(('raise', x_, frozenset(['mismatch'])))
    ok = bad and all(k == 'raise' and isinstance(n.exc, ast.Call) and norm(n.exc.func) == 'Base58ChecksumError' for k, n, f in bad)
    r.check(bool(ok), 'reader:checksum-error', new.site, 'mismatch raises Base58ChecksumError', 'a checksum mismatch does not raise Base58ChecksumError')
    # memoisation: the value of a CBase58Data as bytes does not include nVersion, so a cache keyed by the object
    # (lru_cache on a method) serves the text of another version
    for nm, m_ in sorted(ci.methods.items()):
        for d in m_.decorators:
            dn = norm(d.func) if isinstance(d, ast.Call) else norm(d)
            if 'cache' in dn.lower():
                r.violated('memoised:%s' % nm, m_.site, 'CBase58Data.%s is memoised with %s: the cache key is the payload bytes (bytes equality and hash), nVersion is not part of it, so the result computed for one version is served for another' % (nm, dn))
    fb = ci.methods['from_bytes']
    gs = [canon_guard(n.test, repo, fb.module) for n in walk_no_nested(fb.node) if isinstance(n, ast.If) and flow.always_raises(n.body)]
    from ..rules import equiv as _equiv
    # accepting form `if 0 <= nVersion <= 255: ... return` followed by a raise is the same rule
    if not gs:
        for n in walk_no_nested(fb.node):
            if isinstance(n, ast.If) and not flow.always_raises(n.body):
                k_ = fb.node.body.index(n) if n in fb.node.body else -1
                if k_ >= 0 and flow.always_raises(fb.node.body[k_ + 1:]) and flow.always_exits(n.body):
                    gs = [canon_guard(n.test, repo, fb.module, negate=True)]
    r.check(len(gs) == 1 and _equiv(gs[0], 'nVersion < 0 or nVersion > 255') is True, 'version-range', fb.site, 'every version byte 0..255 is representable', 'version range rule is %s; reference: 0 <= nVersion <= 255' % gs)
    sets = [norm(n) for n in walk_no_nested(fb.node) if isinstance(n, ast.Assign)]
    r.check('self = bytes.__new__(cls, data)' in sets and 'self.nVersion = nVersion' in sets, 'from_bytes', fb.site, 'payload bytes + version attribute', 'from_bytes does %s' % sets)


def rule_errors(ctx, repo, eng):
    r = ctx.rule('C10.X1', 'decoding text lets only the Base58Error family escape; the error classes form one family', engine='ESCAPE', floor=3)
    base = repo.get_class(B + 'Base58Error')
    for n in ('InvalidBase58Error', 'Base58ChecksumError'):
        c = repo.get_class(B + n)
        r.check(repo.is_subclass(c, base), 'family:%s' % n, c.site, '%s is a Base58Error' % n, '%s does not derive from Base58Error' % n)
    res = Resolver(repo, eng)
    ee = Escape(repo, res)
    ci = repo.get_class(B + 'CBase58Data')

    def version_byte(e):
        new = ci.methods['__new__']
        calls = [c for c in common.iter_calls(new.node) if norm(c.func) == 'cls.from_bytes']
        if len(calls) != 1 or len(calls[0].args) != 2:
            return False, ''
        v = common.resolved(new, calls[0].args[1], repo)
        # one element of the decoded byte string (possibly through slices of it): an int in 0..255
        ok = isinstance(v, ast.Subscript) and not isinstance(v.slice, ast.Slice)
        base_ = v.value if ok else None
        while isinstance(base_, ast.Subscript) and isinstance(base_.slice, ast.Slice):
            base_ = base_.value
        ok = ok and isinstance(base_, ast.Call) and norm(base_.func) in ('decode', 'bitcoin.base58.decode')
        return bool(ok), 'the version passed is one byte of the decoded string (0..255)'
    just = {(B + 'CBase58Data.from_bytes', "ValueError('nVersion must be in range 0 to 255"): version_byte}
    rule_entry(r, repo, ee, ci.methods['__new__'], [base], 'CBase58Data(text)', ctx=ci, justified=just)
    rule_entry(r, repo, ee, repo.get_function(B + 'decode'), [base], 'decode')
