"""C10 Base58/Base58Check: the structural clauses (frame, checksum, alphabet, error discipline).

The core of the first sentence - encode and decode being mutually inverse big-integer conversions - is arithmetic and
is NOT decided by this family; what is decided are necessary conditions visible in the shape of the code."""
import ast
import re

from ..model import UNKNOWN, ClassRef, FuncRef, norm, walk_no_nested
from ..layout import LayoutEngine
from ..resolve import Resolver
from ..escape import Escape, rule_entry
from ..rules import canon_guard
from .. import common, spec, flow, shape

B = 'bitcoin.base58.'


def run(ctx):
    repo = ctx.repo
    eng = LayoutEngine(repo)
    rule_alphabet(ctx, repo)
    rule_codec_shape(ctx, repo)
    rule_frame(ctx, repo)
    rule_errors(ctx, repo, eng)
    ctx.not_decided += ['encode/decode being mutually inverse and equal to the reference big-integer definition (arithmetic loops): not applicable to this family',
                        'the leading-zero / leading-1 bookkeeping beyond its shape (counts with break, pad applied on the left)']
    ctx.assume('binascii.hexlify/unhexlify and int(.., 16) are exact')


def rule_alphabet(ctx, repo):
    r = ctx.rule('C10.C1', 'alphabet: the 58 Bitcoin base58 characters, all distinct; both directions use base len(alphabet)', engine='CONST', floor=3)
    m = repo.get_module('bitcoin.base58')
    a = repo.module_value(m, 'B58_DIGITS')
    r.check(a == spec.BASE58_ALPHABET and len(set(a)) == 58, 'alphabet', m.relpath + ':0', a, 'B58_DIGITS is %r' % (a,))
    enc = repo.get_function(B + 'encode')
    dec = repo.get_function(B + 'decode')
    bases = []
    for c in common.iter_calls(enc.node):
        if norm(c.func) == 'divmod' and len(c.args) == 2:
            bases.append(('encode', repo.fold(c.args[1], enc.module), c, enc))
    for n in walk_no_nested(dec.node):
        if isinstance(n, ast.AugAssign) and isinstance(n.op, ast.Mult):
            bases.append(('decode', repo.fold(n.value, dec.module), n, dec))
    for which, v, node, fi in bases:
        r.check(v == 58, 'base:%s' % which, common.site_of(fi, node), 'base 58', '%s works in base %r, the alphabet has 58 characters' % (which, v))
    if len(bases) < 2:
        r.undecided('base', m.relpath + ':0', 'divmod / multiply step not found in both directions')


def float_constructs(fi):
    out = []
    for n in ast.walk(fi.node):
        if isinstance(n, ast.BinOp) and isinstance(n.op, ast.Div):
            out.append((n, 'true division'))
        if isinstance(n, ast.Call) and (norm(n.func).startswith('math.') or norm(n.func) in ('float', 'round')):
            out.append((n, 'call of %s' % norm(n.func)))
        if isinstance(n, ast.Constant) and isinstance(n.value, float):
            out.append((n, 'float literal'))
    return out


def rule_codec_shape(ctx, repo):
    r = ctx.rule('C10.A1', 'encode/decode: exact integer arithmetic only; digit loop, zero-prefix count with break, pad applied on the left; alphabet membership guards the digit lookup',
                 engine='RULES', floor=8)
    enc = repo.get_function(B + 'encode')
    dec = repo.get_function(B + 'decode')
    for fi in (enc, dec):
        fl = float_constructs(fi)
        if fl:
            n, what = fl[0]
            r.violated('exact:%s' % fi.name, common.site_of(fi, n), '%s uses floating-point arithmetic (%s in `%s`) in an exact big-integer conversion: results are wrong for some inputs of 6+ bytes' % (fi.name, what, norm(n)[:60]))
        else:
            r.ok('exact:%s' % fi.name, fi.site, 'integer and string operations only')
    # encode: digits appended least significant first, then reversed
    b = enc.params[0]
    wl = [n for n in walk_no_nested(enc.node) if isinstance(n, ast.While)]
    ok = len(wl) == 1 and canon_guard(wl[0].test, repo, enc.module) == 'n > 0' and [norm(s) for s in wl[0].body] == ['n, r = divmod(n, 58)', 'res.append(B58_DIGITS[r])']
    if ok:
        r.ok('encode:digits', common.site_of(enc, wl[0]), 'while n > 0: n, r = divmod(n, 58); append alphabet[r]')
    else:
        r.undecided('encode:digits', enc.site, 'digit loop has an unrecognised shape')
    defs = {}
    for n in walk_no_nested(enc.node):
        if isinstance(n, ast.Assign) and len(n.targets) == 1:
            defs.setdefault(norm(n.targets[0]), []).append(norm(n.value))
    r.check("''.join(res[::-1])" in defs.get('res', []), 'encode:reversed', enc.site, 'digits reversed (most significant first)', 'digit order handling: %s' % defs.get('res'))
    rets = [norm(n.value) for n in walk_no_nested(enc.node) if isinstance(n, ast.Return)]
    r.check(rets == ['B58_DIGITS[0] * pad + res'], 'encode:pad-left', enc.site, "one '1' per leading zero byte, on the left", 'encode returns %s' % rets)
    zl = [n for n in walk_no_nested(enc.node) if isinstance(n, ast.For) and norm(n.iter) == b]
    ok = len(zl) == 1 and re.sub(r'\s+', ' ', norm(zl[0])) == 'for c in %s: if c == czero: pad += 1 else: break' % b and defs.get('czero') == ['0']
    r.check(ok, 'encode:zero-count', enc.site, 'leading zero bytes counted up to the first non-zero byte', 'leading-zero count is `%s`' % (norm(zl[0])[:80] if zl else None))
    # decode: membership guard dominates the index lookup, raises InvalidBase58Error
    s = dec.params[0]
    idx = [c for c in common.iter_calls(dec.node) if norm(c.func) in ('B58_DIGITS.index', 'B58_DIGITS.find')]
    if not idx:
        r.undecided('decode:lookup', dec.site, 'no alphabet lookup')
    for c in idx:
        var = norm(c.args[0])

        def cond(test, var=var):
            t = norm(test)
            if t == '%s not in B58_DIGITS' % var:
                return frozenset(['bad']), frozenset(['member'])
            if t == '%s in B58_DIGITS' % var:
                return frozenset(['member']), frozenset(['bad'])
            return frozenset(), frozenset()
        mf = flow.run_must(dec.node, cond=cond)
        st = c
        while not isinstance(st, ast.stmt):
            st = st._parent
        f = mf.at.get(id(st))
        r.check(f is not None and 'member' in f, 'decode:membership-guard', common.site_of(dec, c), 'digit lookup only for characters of the alphabet',
                'the digit lookup `%s` is not dominated by a per-character membership test: a character outside the alphabet (for instance a trailing newline that a `$`-anchored pattern lets through) raises ValueError instead of InvalidBase58Error' % norm(c))
        bad = [(k, n, ff) for k, n, ff in mf.exits if 'bad' in ff]
        okc = bad and all(k == 'raise' and isinstance(n, ast.Raise) and isinstance(n.exc, ast.Call) and norm(n.exc.func) == 'InvalidBase58Error' for k, n, ff in bad)
        r.check(bool(okc), 'decode:invalid-character', dec.site, 'a character outside the alphabet raises InvalidBase58Error', 'a character outside the alphabet does not raise InvalidBase58Error')
    rets = [norm(n.value) for n in walk_no_nested(dec.node) if isinstance(n, ast.Return)]
    r.check("b'\\x00' * pad + res" in rets, 'decode:pad-left', dec.site, 'one zero byte per leading 1, on the left', 'decode returns %s' % rets)
    pl = [n for n in walk_no_nested(dec.node) if isinstance(n, ast.For) and norm(n.iter).startswith(s + '[')]
    ok = len(pl) == 1 and norm(pl[0].iter) == '%s[:-1]' % s and re.sub(r'\s+', ' ', norm(pl[0])) == 'for c in %s[:-1]: if c == B58_DIGITS[0]: pad += 1 else: break' % s
    r.check(ok, 'decode:one-count', dec.site, "leading '1's counted over s[:-1] up to the first other character (the last character is the integer's own digit)", "leading-'1' count is `%s`" % (norm(pl[0])[:80] if pl else None))


def rule_frame(ctx, repo):
    r = ctx.rule('C10.L1', 'Base58Check frame: version byte, payload, first four bytes of SHA256d(version+payload); written and parsed consistently', engine='LAYOUT', floor=6)
    ci = repo.get_class(B + 'CBase58Data')
    st = ci.methods['__str__']
    defs = {norm(n.targets[0]): norm(n.value) for n in walk_no_nested(st.node) if isinstance(n, ast.Assign)}
    rets = [norm(n.value) for n in walk_no_nested(st.node) if isinstance(n, ast.Return)]
    r.check(defs.get('vs') == 'bytes([self.nVersion]) + self', 'writer:body', st.site, 'version byte then payload', 'body is %s' % defs.get('vs'))
    r.check(defs.get('check') == 'bitcoin.core.Hash(vs)[0:4]', 'writer:checksum', st.site, 'first four bytes of SHA256d(body)', 'checksum is %s' % defs.get('check'))
    r.check(rets == ['encode(vs + check)'], 'writer:text', st.site, 'encode(body + checksum)', '__str__ returns %s' % rets)
    new = ci.methods['__new__']
    s = new.params[1]
    defs = {norm(n.targets[0]): norm(n.value) for n in walk_no_nested(new.node) if isinstance(n, ast.Assign)}
    r.check(defs.get('k') == 'decode(%s)' % s, 'reader:decode', new.site, 'k = decode(text)', 'decoded as %s' % defs.get('k'))
    r.check(defs.get('(verbyte, data, check0)') == '(k[0:1], k[1:-4], k[-4:])', 'reader:slices', new.site, 'version k[0:1], payload k[1:-4], checksum k[-4:]', 'slices are %s' % defs.get('(verbyte, data, check0)'))
    r.check(defs.get('check1') == 'bitcoin.core.Hash(verbyte + data)[:4]', 'reader:checksum', new.site, 'recomputed over version + payload', 'recomputed checksum is %s' % defs.get('check1'))

    def cond(test):
        t = norm(test)
        if t in ('check0 != check1', 'check1 != check0'):
            return frozenset(['mismatch']), frozenset(['match'])
        if t in ('check0 == check1', 'check1 == check0'):
            return frozenset(['match']), frozenset(['mismatch'])
        return frozenset(), frozenset()
    mf = flow.run_must(new.node, cond=cond)
    rets = [(k, n, f) for k, n, f in mf.exits if k == 'return']
    ok = rets and all('match' in f and norm(n.value) == 'cls.from_bytes(data, verbyte[0])' for k, n, f in rets)
    r.check(bool(ok), 'reader:checksum-dominates', new.site, 'an object is built only after the checksum matched, from (payload, version byte)', 'an object can be built without the checksum comparison, or from other values')
    bad = [(k, n, f) for k, n, f in mf.exits if 'mismatch' in f]
    ok = bad and all(k == 'raise' and isinstance(n.exc, ast.Call) and norm(n.exc.func) == 'Base58ChecksumError' for k, n, f in bad)
    r.check(bool(ok), 'reader:checksum-error', new.site, 'mismatch raises Base58ChecksumError', 'a checksum mismatch does not raise Base58ChecksumError')
    fb = ci.methods['from_bytes']
    gs = [canon_guard(n.test, repo, fb.module) for n in walk_no_nested(fb.node) if isinstance(n, ast.If) and flow.always_raises(n.body)]
    r.check(gs == ['nVersion < 0 or nVersion > 255'], 'version-range', fb.site, 'every version byte 0..255 is representable', 'version range rule is %s; reference: 0 <= nVersion <= 255' % gs)
    sets = [norm(n) for n in walk_no_nested(fb.node) if isinstance(n, ast.Assign)]
    r.check('self = bytes.__new__(cls, data)' in sets and 'self.nVersion = nVersion' in sets, 'from_bytes', fb.site, 'payload bytes + version attribute', 'from_bytes does %s' % sets)


def rule_errors(ctx, repo, eng):
    r = ctx.rule('C10.X1', 'decoding text lets only the Base58Error family escape; the error classes form one family', engine='ESCAPE', floor=3)
    base = repo.get_class(B + 'Base58Error')
    for n in ('InvalidBase58Error', 'Base58ChecksumError'):
        c = repo.get_class(B + n)
        r.check(repo.is_subclass(c, base), 'family:%s' % n, c.site, '%s is a Base58Error' % n, '%s does not derive from Base58Error' % n)
    res = Resolver(repo, eng)
    ee = Escape(repo, res)
    ci = repo.get_class(B + 'CBase58Data')

    def version_byte(e):
        new = ci.methods['__new__']
        calls = [norm(c) for c in common.iter_calls(new.node) if norm(c.func) == 'cls.from_bytes']
        return calls == ['cls.from_bytes(data, verbyte[0])'], 'the version passed is one byte of the decoded string (0..255)'
    just = {(B + 'CBase58Data.from_bytes', "ValueError('nVersion must be in range 0 to 255"): version_byte}
    rule_entry(r, repo, ee, ci.methods['__new__'], [base], 'CBase58Data(text)', ctx=ci, justified=just)
    rule_entry(r, repo, ee, repo.get_function(B + 'decode'), [base], 'decode')
