"""C04 BIP143 witness-v0 signature hash equals the spec over the full field range."""
import ast
import copy

from ..model import UNKNOWN, ClassRef, FuncRef, norm, walk_no_nested
from ..layout import LayoutEngine, Undecided, Comparator, _WState, normalise, finalise_writer, fmt_info
from ..sighash import Bip143, hash_kind
from ..resolve import Resolver
from ..own import ReadOnly
from .. import common, spec


def run(ctx):
    repo = ctx.repo
    eng = LayoutEngine(repo)
    b = Bip143(repo)
    r0 = ctx.rule('C04.A0', 'anchor: SignatureHash has a witness-v0 branch', engine='MODEL', floor=1)
    if b.branch is None:
        r0.undecided('witness-branch', b.fi.site, 'no `if sigversion == SIGVERSION_WITNESS_V0:` branch found in SignatureHash')
        return
    r0.ok('witness-branch', common.site_of(b.fi, b.branch), 'branch found')
    # the two digest forms are told apart by these two values, and the default is the legacy form
    sb = repo.module_value(b.fi.module, 'SIGVERSION_BASE')
    sw = repo.module_value(b.fi.module, 'SIGVERSION_WITNESS_V0')
    r0.check(sb == 0 and sw == 1, 'sigversion-values', b.fi.module.relpath + ':0', 'BASE = 0, WITNESS_V0 = 1',
             'SIGVERSION_BASE = %r, SIGVERSION_WITNESS_V0 = %r (0 and 1): with equal values the default call SignatureHash(script, tx, i, hashtype) takes the witness branch; other values change what callers that pass 0 / 1 get' % (sb, sw), sure=True)
    common.rule_defaults(r0, repo, [('bitcoin.core.script.SignatureHash', 'sigversion', 0, 'the four-argument call computes the witness digest (or fails on the missing amount) instead of the legacy one')])
    rule_L1(ctx, repo, eng, b)
    rule_D1(ctx, repo, b)
    rule_X1(ctx, repo, b)
    rule_RO(ctx, repo, eng, b)
    common_hash_rule(ctx, repo, 'C04.H1')
    # every transaction whose fields lie in their wire ranges can be built, copied, parsed and serialised (C01): the digest
    # is defined for all of them, and "what goes on the wire" is what C01 says
    from . import c01
    from .. import escape as _esc
    common.retag(ctx, 'C04.S1', c01.rule_L1, repo, eng, title='the transaction whose fields are hashed serialises as the wire format')
    common.retag(ctx, 'C04.S2', c01.rule_R1, repo, eng)
    common.retag(ctx, 'C04.S3', _esc.rule_C01_E2, repo)
    ctx.not_decided += ['the SHA-256 compression function (hashlib, trusted)', 'serialisation of the nested outpoint/outputs (decided under C01)']
    ctx.assume('struct/hashlib semantics; COutPoint and CTxOut layouts as decided by C01')


def common_hash_rule(ctx, repo, rid):
    r = ctx.rule(rid, 'Hash is SHA256(SHA256(x)); Hash160 is RIPEMD160(SHA256(x))', engine='MODEL', floor=2)
    fi = repo.get_function('bitcoin.core.serialize.Hash')
    body = [s for s in fi.node.body if not (isinstance(s, ast.Expr) and isinstance(s.value, ast.Constant))]
    p = fi.params[0] if fi.params else 'msg'
    ok = len(body) == 1 and isinstance(body[0], ast.Return) and norm(body[0].value) == 'hashlib.sha256(hashlib.sha256(%s).digest()).digest()' % p
    r.check(ok, 'Hash', fi.site, 'double SHA-256', 'Hash() is `%s`, not SHA256(SHA256(x))' % (norm(body[-1]) if body else ''))
    fi = repo.get_function('bitcoin.core.serialize.Hash160')
    body = [s for s in fi.node.body if not (isinstance(s, ast.Expr) and isinstance(s.value, ast.Constant))]
    p = fi.params[0] if fi.params else 'msg'
    ok = len(body) == 1 and isinstance(body[0], ast.Return) and norm(body[0].value) == 'ripemd160(hashlib.sha256(%s).digest())' % p
    r.check(ok, 'Hash160', fi.site, 'RIPEMD160(SHA256(x))', 'Hash160() is `%s`' % (norm(body[-1]) if body else ''))


def preimage_items(repo, eng, b):
    """layout written to the local BytesIO of the witness branch"""
    fi = b.fi
    ws = _WState(eng, fi, '$none', {}, None, 0)
    ws.streams = set()
    items = ws.block(b.branch.body)
    ret = [i for i in items if i.kind == 'buffer']
    if len(ret) != 1:
        raise Undecided('the witness-v0 branch does not end in `return Hash(<stream>.getvalue())`')
    return finalise_writer(normalise(ret)), ret[0]


def rule_L1(ctx, repo, eng, b):
    r = ctx.rule('C04.L1', 'the witness-v0 pre-image layout equals the BIP143 table (formats carry the full wire range)', engine='LAYOUT', floor=10)
    fi = b.fi
    try:
        items, ret = preimage_items(repo, eng, b)
    except Undecided as e:
        r.undecided('preimage', common.site_of(fi, e.node) if e.node is not None else common.site_of(fi, b.branch), str(e))
        return
    # the digest is the library's double SHA-256 of exactly that buffer
    wrapped = ret.get('wrapped') or ''
    retnode = ret.node
    hk = hash_kind(repo, retnode.value, fi) if isinstance(retnode, ast.Return) else None
    r.check(hk == 'Hash' and len(retnode.value.args) == 1 and norm(retnode.value.args[0]).endswith('.getvalue()'), 'digest', common.site_of(fi, retnode),
            'digest = Hash(pre-image)', 'the branch returns `%s`, not the double SHA-256 of the pre-image' % wrapped)

    def width_of(item):
        # hashPrevouts / hashSequence / hashOutputs: every assignment in the branch is a 32-byte constant or Hash(...)
        name = item.field
        vals = []
        for st in ast.walk(b.branch):
            if isinstance(st, ast.Assign) and len(st.targets) == 1 and norm(st.targets[0]) == name:
                v = repo.fold(st.value, fi.module)
                if isinstance(v, bytes):
                    vals.append(len(v))
                elif hash_kind(repo, st.value, fi) == 'Hash':
                    vals.append(32)
                else:
                    vals.append(None)
        if vals and all(v == 32 for v in vals):
            return 32
        return None
    c = Comparator(width_of=width_of, left='pre-image', right='BIP143')
    c.seq(list(items), copy.deepcopy(spec.BIP143_PREIMAGE))
    if c.diffs:
        for d in c.diffs:
            r.violated(common.diff_key('preimage', d), common.diff_site(fi, None, d) if d.w is not None else common.site_of(fi, b.branch),
                       'BIP143 pre-image: %s' % d.msg)
    else:
        for it, sp in zip(items, spec.BIP143_PREIMAGE):
            r.ok('preimage:%s' % sp.field, common.site_of(fi, it.node), common.describe(it))
    # the outpoint / sequence are those of the signed input
    for it in items:
        if it.kind == 'sub' and it.field and it.field.endswith('prevout'):
            r.check(it.field == 'txTo.vin[inIdx].prevout', 'preimage:own-outpoint', common.site_of(fi, it.node), 'outpoint of the signed input',
                    'the outpoint written is `%s`, not that of the signed input' % it.field)
        if it.kind == 'int' and it.field and it.field.endswith('nSequence'):
            r.check(it.field == 'txTo.vin[inIdx].nSequence', 'preimage:own-sequence', common.site_of(fi, it.node), 'sequence of the signed input',
                    'the sequence written is `%s`, not that of the signed input' % it.field)
        if it.kind == 'int' and it.field in ('txTo.nVersion', 'txTo.nLockTime', 'amount', 'hashtype'):
            pass
    want_src = {'nVersion': 'txTo.nVersion', 'nLockTime': 'txTo.nLockTime', 'amount': 'amount', 'hashtype': 'hashtype', 'script': 'script'}
    for it in items:
        last = (it.field or '').split('.')[-1]
        if last in want_src and it.kind in ('int', 'varbytes'):
            r.check(it.field == want_src[last], 'preimage:source:%s' % last, common.site_of(fi, it.node), 'field taken from `%s`' % it.field,
                    'pre-image field %s is taken from `%s`' % (last, it.field))


def rule_D1(ctx, repo, b):
    r = ctx.rule('C04.D1', 'hashPrevouts/hashSequence/hashOutputs selection for all 256 hash types x index orderings equals BIP143', engine='TABLE', floor=18)
    groups = {}
    rows = 0
    from ..sighash import WIDE_HASHTYPES
    for ht in list(range(256)) + WIDE_HASHTYPES:
        base = ht & 0x1f
        cls = {2: 'NONE', 3: 'SINGLE'}.get(base, 'ALL-like')
        for oname, idx, nout in (('idx<nout', 1, 2), ('idx=nout', 2, 2), ('idx>nout', 3, 2)):
            rows += 1
            key = '%s%s:%s' % (cls, '|ACP' if ht & 0x80 else '', oname)
            g = groups.setdefault(key, {'n': 0, 'bad': [], 'und': []})
            g['n'] += 1
            sym = b.row(ht, idx, nout)
            if isinstance(sym, str):
                g['und'].append((ht, sym))
                continue
            want = b.reference(ht, idx, nout)
            for var, w in want.items():
                got = b.classify(sym.get(var))
                if got != w:
                    g['bad'].append((ht, var, got, w))
    site = common.site_of(b.fi, b.branch)
    for key in sorted(groups):
        g = groups[key]
        if g['bad']:
            ht, var, got, w = g['bad'][0]
            r.violated(key, site, '%d of %d rows wrong; first: hashtype 0x%02x: %s is %s, BIP143 prescribes %s' % (len(g['bad']), g['n'], ht, var, got, w))
        elif g['und']:
            r.undecided(key, site, g['und'][0][1])
        else:
            r.ok(key, site, '%d rows agree' % g['n'])
    ctx.extra['decision_rows'] = rows
    ctx.extra['exhaustive_domain'] = '256 hash-type bytes x 3 orderings of inIdx against len(vout)'


def rule_X1(ctx, repo, b):
    r = ctx.rule('C04.X1', 'the witness-v0 branch is defined for every field value: no value-dependent rejection', engine='ESCAPE', floor=1)
    fi = b.fi
    n = 0
    # everything that runs on the way to the digest: the statements before the branch and the branch itself
    before = fi.node.body[:fi.node.body.index(b.branch)] if b.branch in fi.node.body else []
    region = [x for st0 in before for x in ast.walk(st0)] + list(ast.walk(b.branch))
    for st in region:
        if isinstance(st, (ast.Raise, ast.Assert)):
            n += 1
            guard = getattr(st, '_parent', None)
            gtxt = norm(guard.test) if isinstance(guard, ast.If) else (norm(st.test) if isinstance(st, ast.Assert) else '')
            if 'isinstance' in gtxt:
                r.ok('reject:%s' % gtxt, common.site_of(fi, st), 'argument-type contract')
            else:
                r.violated('reject:%s' % gtxt, common.site_of(fi, st),
                           'the witness-v0 branch rejects some inputs (`%s`): BIP143 defines the digest for the whole wire range' % (gtxt or norm(st)[:60]))
    if n == 0:
        r.ok('no-rejection', common.site_of(fi, b.branch), 'no raise/assert in the branch')


def rule_RO(ctx, repo, eng, b):
    r = ctx.rule('C04.RO', 'SignatureHash never stores through the transaction it is given', engine='OWN', floor=1)
    res = Resolver(repo, eng)
    ro = ReadOnly(repo, res)
    fi = b.fi
    ws = ro.writes(fi, 'txTo')
    for f, node, text, path in ws:
        r.violated('write:%s:%s' % (f.qualname.replace('bitcoin.', ''), text), common.site_of(f, node),
                   'the caller\'s transaction is modified: %s in %s' % (text, f.qualname), path=list(path))
    if not ws:
        r.ok('txTo-read-only', fi.site, 'no store/delete/mutating call through txTo in %d reachable functions' % len(set(ro.visited)))
    for f, n in ro.unresolved:
        r.note('unresolved call (receiver type unknown): %s in %s' % (norm(n)[:60], f.qualname))
    for q in sorted(set(ro.visited)):
        r.consult(q)
