"""C01 Transaction/block wire format: exact bytes, lossless round trip, clean errors (DESIGN.md section 5, C01)."""
import ast
import struct as _struct

from ..model import UNKNOWN, ClassRef, FuncRef, ClassInfo, AnalysisError, norm, walk_no_nested
from ..layout import LayoutEngine, Undecided, fmt_info, fmt_str, split_fmt
from .. import common, spec, flow

CORE_FILES = {'bitcoin/core/serialize.py', 'bitcoin/core/__init__.py', 'bitcoin/core/script.py'}

CLASSES = [
    'bitcoin.core.COutPoint', 'bitcoin.core.CTxIn', 'bitcoin.core.CTxOut', 'bitcoin.core.CTxInWitness',
    'bitcoin.core.CTxWitness', 'bitcoin.core.script.CScriptWitness', 'bitcoin.core.CTransaction',
    'bitcoin.core.CBlockHeader', 'bitcoin.core.CBlock',
]
TWINS = {
    'bitcoin.core.CMutableOutPoint': 'bitcoin.core.COutPoint',
    'bitcoin.core.CMutableTxIn': 'bitcoin.core.CTxIn',
    'bitcoin.core.CMutableTxOut': 'bitcoin.core.CTxOut',
    'bitcoin.core.CMutableTransaction': 'bitcoin.core.CTransaction',
}


def run(ctx):
    repo = ctx.repo
    eng = LayoutEngine(repo)
    rule_L1(ctx, repo, eng)
    rule_L2(ctx, repo, eng)
    rule_compactsize(ctx, repo, eng)
    rule_L3(ctx, repo, eng)
    rule_E1(ctx, repo, eng)
    rule_E3(ctx, repo, eng)
    rule_R1(ctx, repo, eng)
    from .. import escape
    escape.rule_C01_E2(ctx, repo)
    rc = ctx.rule('C01.K1', 'the element size limit is 0x02000000 bytes (what a reader accepts equals what Bitcoin Core accepts)', engine='CONST', floor=1)
    ms_ = repo.module_value(repo.get_module('bitcoin.core.serialize'), 'MAX_SIZE')
    rc.check(ms_ == 0x02000000, 'MAX_SIZE', 'bitcoin/core/serialize.py:0', '0x02000000', 'MAX_SIZE is %r' % (ms_,), sure=True)
    rd = ctx.rule('C01.F1', 'defaults of the wire classes: serialisation includes the witness unless told otherwise; default header hashes are 32 bytes', engine='CONST', floor=6)
    Z32 = b'\x00' * 32
    common.rule_defaults(rd, repo, [
        ('bitcoin.core.CTransaction.stream_serialize', 'include_witness', True, 'serialize() of a transaction with witness data silently drops the witness (not the BIP144 form; the round trip loses it)'),
        ('bitcoin.core.CBlock.stream_serialize', 'include_witness', True, 'serialize() of a block silently drops every witness (round trip loses them; the weight becomes 4x the stripped size)'),
        ('bitcoin.core.CBlockHeader.__init__', 'hashPrevBlock', Z32, 'a header built without the argument cannot be constructed (the constructor asserts 32 bytes) or serialises to 79/81 bytes'),
        ('bitcoin.core.CBlockHeader.__init__', 'hashMerkleRoot', Z32, 'a header built without the argument cannot be constructed (the constructor asserts 32 bytes) or serialises to 79/81 bytes'),
        ('bitcoin.core.CBlock.__init__', 'hashPrevBlock', Z32, 'a block built without the argument cannot be constructed'),
        ('bitcoin.core.CBlock.__init__', 'hashMerkleRoot', Z32, 'a block built without the argument is not recognised as "root to be computed"'),
    ])
    ctx.not_decided += [
        'the byte values themselves (follow from layout + struct semantics, trusted)',
        'behaviour of io.BytesIO', 'encodings larger than MAX_SIZE',
    ]
    ctx.assume('struct format semantics, bytes slicing and io.BytesIO behave as documented')
    ctx.assume('precondition of the property: one witness stack per input (writer loop count len(wit.vtxinwit) == reader count len(vin))')


# ----------------------------------------------------------------------------------------------- L1
def rule_L1(ctx, repo, eng):
    r = ctx.rule('C01.L1', 'writer/reader layout agreement for the nine wire classes, helper serializers and mutable twins',
                 engine='LAYOUT', floor=12)
    ctx.extra['layouts'] = {}
    for q in CLASSES:
        ci = repo.get_class(q)
        c = common.rule_agreement(r, repo, eng, ci)
        if c is not None and ci.name == 'CTransaction':
            ctx.extra['_tx_cmp'] = c
    # helper serializers: the generic Vector/Bytes helpers are inlined into every layout above; their own
    # writer/reader pairs are compared here as well
    for q in ('bitcoin.core.serialize.BytesSerializer', 'bitcoin.core.serialize.VectorSerializer',
              'bitcoin.core.serialize.VarStringSerializer', 'bitcoin.core.serialize.uint256VectorSerializer',
              'bitcoin.core.serialize.intVectorSerializer'):
        ci = repo.get_class(q)
        common.rule_agreement(r, repo, eng, ci)
    # mutable twins resolve to the same serialisation code (or to an equal layout)
    for tq, bq in TWINS.items():
        t, b = repo.get_class(tq), repo.get_class(bq)
        same = True
        for m in ('stream_serialize', 'stream_deserialize'):
            if repo.lookup_method(t, m) is not repo.lookup_method(b, m):
                same = False
        if same:
            # the reader builds the object through the twin's own constructor: parameter -> slot binding must exist
            fr = repo.lookup_method(t, 'stream_deserialize')
            init, slots = eng.param_slots(t)
            binit, bslots = eng.param_slots(b)
            missing = [p for p in (binit.params[1:] if binit else []) if bslots.get(p) != slots.get(p)]
            r.check(not missing, 'twin:' + t.name, t.site,
                    'inherits the serialisation code of %s; constructor binds the same slots' % b.name,
                    '%s.__init__ binds constructor parameters %s to different slots than %s.__init__' % (t.name, missing, b.name))
        else:
            common.rule_agreement(r, repo, eng, t, label='twin:' + t.name)


# ----------------------------------------------------------------------------------------------- L2
def rule_L2(ctx, repo, eng):
    r = ctx.rule('C01.L2', 'writer and reader layouts equal the Bitcoin wire-format table', engine='LAYOUT', floor=18)
    for q in CLASSES:
        ci = repo.get_class(q)
        common.rule_vs_spec(r, repo, eng, ci, spec.WIRE[ci.name])
    # the header layout sums to 80 bytes
    ci = repo.get_class('bitcoin.core.CBlockHeader')
    try:
        fw, fr, W, R, _ = common.layouts_of(repo, eng, ci, 'stream_serialize', 'stream_deserialize')
        from ..layout import fixed_width
        r.check(fixed_width(W) == spec.HEADER_BYTES, 'CBlockHeader:80-bytes:writer', fw.site, 'header writer emits 80 bytes',
                'header writer emits %s bytes, not 80' % fixed_width(W))
        r.check(fixed_width(R) == spec.HEADER_BYTES, 'CBlockHeader:80-bytes:reader', fr.site, 'header reader consumes 80 bytes',
                'header reader consumes %s bytes, not 80' % fixed_width(R))
    except Undecided as e:
        r.undecided('CBlockHeader:80-bytes', ci.site, str(e))


# ----------------------------------------------------------------------------------------------- CompactSize
def threshold_chain(fnode, var):
    """if/elif chain on `var` -> list of (test, body) ; else body last with test None"""
    chain = []
    cur = None
    for s in fnode.body:
        if isinstance(s, ast.If):
            cur = s
            break
    while cur is not None:
        chain.append((cur.test, cur.body))
        if len(cur.orelse) == 1 and isinstance(cur.orelse[0], ast.If):
            cur = cur.orelse[0]
        else:
            if cur.orelse:
                chain.append((None, cur.orelse))
            cur = None
    return chain


def upper_bound(test, var, repo, mod):
    """`var < c` -> c-1 ; `var <= c` -> c ; `var == c` -> ('eq', c)"""
    if isinstance(test, ast.Compare) and len(test.ops) == 1 and norm(test.left) == var:
        c = repo.fold(test.comparators[0], mod)
        if isinstance(c, int):
            if isinstance(test.ops[0], ast.Lt):
                return ('le', c - 1)
            if isinstance(test.ops[0], ast.LtE):
                return ('le', c)
            if isinstance(test.ops[0], ast.Eq):
                return ('eq', c)
    return None


def _compact_expect(v):
    """(prefix or None, struct code) the protocol prescribes for the count v"""
    for ub, prefix, code in spec.COMPACT_SIZE:
        if ub is None or v <= ub:
            return prefix, code


def rule_compactsize(ctx, repo, eng):
    """Decided on boundary representatives: the encoding is a piecewise-constant function of the count whose breakpoints
    are the integers the code compares with, so its value at c-1, c, c+1 for every such integer (and for the protocol's
    own boundaries) decides it on all counts.  Each representative is traced through the writer (all guards fold), the
    statements on that path are read off by the LAYOUT engine, and the result is compared with the protocol table."""
    from ..table import Tracer, comparison_constants, representatives
    from ..layout import _WState, _RState, normalise
    r = ctx.rule('C01.T1', 'CompactSize thresholds, prefixes and formats on both sides equal the protocol table',
                 engine='TABLE', floor=8)
    ci = repo.get_class('bitcoin.core.serialize.VarIntSerializer')
    w = repo.lookup_method(ci, 'stream_serialize')
    rd = repo.lookup_method(ci, 'stream_deserialize')
    var = w.params[1]
    proto = [0, 0xfc, 0xfd, 0xffff, 0x10000, 0xffffffff, 0x100000000, 0xffffffffffffffff]
    pts = representatives(comparison_constants(repo, w), extra=proto, lo=-2, hi=0xffffffffffffffff)
    groups = {}  # arm key -> [ok?, site, details]
    for v in pts:
        tr = Tracer(repo, w.module, cls=ci)
        try:
            paths = tr.trace(w.node.body, env={var: v})
        except OverflowError:
            r.undecided('writer:paths', w.site, 'path explosion in the CompactSize writer')
            break
        if len(paths) != 1:
            r.undecided('writer:n=%#x' % v, w.site, 'the writer path for the count %#x depends on something other than the count (%d paths)' % (v, len(paths)))
            continue
        p = paths[0]
        if v < 0:
            key = 'writer:negative-rejected'
            ok = p.end == 'raise'
            msg = 'negative counts are rejected' if ok else 'the CompactSize writer accepts the negative value %d' % v
            site = common.site_of(w, p.endnode) if p.endnode is not None else w.site
        else:
            prefix, code = _compact_expect(v)
            key = 'writer:arm%d' % [c for _, _, c in spec.COMPACT_SIZE].index(code)
            site = common.site_of(w, p.stmts()[-1]) if p.stmts() else w.site
            if p.end == 'raise':
                ok, msg = False, 'the count %#x is refused' % v
            else:
                try:
                    ws = _WState(eng, w, w.params[2], {}, ci, 0)
                    ws.venv = {k: x for k, x in p.env.items() if not k.startswith('?')}
                    ws.venv.pop(var, None)
                    items = normalise(ws.block([s_ for s_ in p.stmts() if not isinstance(s_, (ast.Return, ast.Assign))]))
                except Undecided as e:
                    r.undecided(key + ':n=%#x' % v, site, str(e))
                    continue
                got = []
                for it in items:
                    if it.kind == 'const':
                        got.extend(('const', b) for b in it.value)
                    elif it.kind == 'int':
                        got.append(('int', it.fmt, it.get('field')))
                    else:
                        got.append((it.kind,))
                want = ([('const', prefix)] if prefix is not None else []) + [('int', code, var)]
                norm_got = [(g[0], g[1][-1] if g[0] == 'int' else g[1]) + ((g[2],) if g[0] == 'int' else ()) for g in got if len(g) > 1]
                endian_ok = all(g[1][0] == '<' or g[1] in ('B', '<B', '>B', '=B', '!B') for g in got if g[0] == 'int')
                ok = norm_got == [(x[0], x[1]) + ((x[2],) if x[0] == 'int' else ()) for x in want] and endian_ok and len(norm_got) == len(got)
                msg = ('n = %#x -> %s' % (v, want)) if ok else 'the count %#x is written as %s, protocol: prefix %s then little-endian %s' % (
                    v, got, ('0x%02x' % prefix) if prefix is not None else 'none', code)
        g = groups.setdefault(key, [True, site, []])
        if not ok:
            g[0] = False
            g[1] = site
            g[2].append(msg)
        elif g[0]:
            g[2] = [msg]
    for key in sorted(groups):
        ok, site, msgs = groups[key]
        r.check(ok, key, site, msgs[0] if msgs else '', '; '.join(msgs[:3]))
    # reader: first byte, then what each discriminator value makes it read
    first = None
    for s in rd.node.body:
        if isinstance(s, ast.Assign) and isinstance(s.targets[0], ast.Name):
            first = s
            break
    if first is None:
        r.undecided('reader:first-byte', rd.site, 'no first-byte read found')
        return
    rv = first.targets[0].id
    ok_first = norm(first.value) in ('ser_read(f, 1)[0]', "struct.unpack(b'B', ser_read(f, 1))[0]", "struct.unpack('B', ser_read(f, 1))[0]", "struct.unpack(b'<B', ser_read(f, 1))[0]", "struct.unpack('<B', ser_read(f, 1))[0]", "ord(ser_read(f, 1))", "int.from_bytes(ser_read(f, 1), 'little')")
    if ok_first:
        r.ok('reader:first-byte', common.site_of(rd, first), 'discriminator is one byte')
    else:
        try:
            rs = _RState(eng, rd, rd.params[1], {}, ci, 0)
            its = normalise(rs.block([first]))
            good = len(its) == 1 and its[0].kind == 'int' and its[0].fmt[-1] == 'B'
            r.check(good, 'reader:first-byte', common.site_of(rd, first), 'discriminator is one byte', 'discriminator read is %s' % norm(first.value))
        except Undecided as e:
            r.undecided('reader:first-byte', common.site_of(rd, first), 'discriminator read `%s`: %s' % (norm(first.value), e))
    rest = rd.node.body[rd.node.body.index(first) + 1:]
    groups = {}
    for v in sorted(set(representatives(comparison_constants(repo, rd), extra=[0, 0xfc, 0xfd, 0xfe, 0xff], lo=0, hi=0xff))):
        tr = Tracer(repo, rd.module, cls=ci)
        paths = tr.trace(rest, env={rv: v})
        key = 'reader:arm%d' % (0 if v < 0xfd else v - 0xfc)
        if len(paths) != 1 or paths[0].end != 'return':
            g = groups.setdefault(key, [True, rd.site, []])
            g[0] = False
            g[2].append('discriminator %#x does not lead to exactly one return (%d paths)' % (v, len(paths)))
            continue
        p = paths[0]
        ret = p.endnode
        site = common.site_of(rd, ret)
        if v < 0xfd:
            ok = ret.value is not None and norm(ret.value) == rv and len(p.stmts()) == 1
            msg = 'values below 0xfd are returned directly' if ok else 'discriminator %#x returns `%s`' % (v, norm(ret.value))
        else:
            code = spec.COMPACT_SIZE[v - 0xfc][2]
            try:
                rs = _RState(eng, rd, rd.params[1], {}, ci, 0)
                rs.venv = {k: x for k, x in p.env.items() if not k.startswith('?') and k != rv}
                its = [it for it in normalise(rs.block(p.stmts())) if it.kind not in ('return',)]
            except Undecided as e:
                r.undecided(key, site, str(e))
                continue
            ok = (len(its) == 1 and its[0].kind == 'int' and its[0].fmt[-1] == code and its[0].fmt[0] == '<'
                  and its[0].get('read_n') == _struct.calcsize('<' + code))
            msg = ('prefix 0x%02x -> %s' % (v, code)) if ok else 'CompactSize reader: after the prefix 0x%02x it reads %s, protocol: little-endian %s' % (
                v, [(it.kind, it.get('fmt'), it.get('read_n')) for it in its], code)
        g = groups.setdefault(key, [True, site, []])
        if not ok:
            g[0] = False
            g[1] = site
            g[2].append(msg)
        elif g[0]:
            g[2] = [msg]
    for key in sorted(groups):
        ok, site, msgs = groups[key]
        r.check(ok, key, site, msgs[0] if msgs else '', '; '.join(msgs[:3]))


# ----------------------------------------------------------------------------------------------- L3
def is_stack_empty_test(repo, fi):
    """CScriptWitness.is_null-like: returns `len(self.stack) == 0` / `not self.stack` -> slot name or None"""
    body = [s for s in fi.node.body if not (isinstance(s, ast.Expr) and isinstance(s.value, ast.Constant))]
    if len(body) == 1 and isinstance(body[0], ast.Return) and body[0].value is not None:
        t = norm(body[0].value)
        import re
        m = re.match(r'^len\(self\.(\w+)\) == 0$', t) or re.match(r'^not self\.(\w+)$', t) or re.match(r'^not len\(self\.(\w+)\)$', t) \
            or re.match(r'^0 == len\(self\.(\w+)\)$', t) or re.match(r'^len\(self\.(\w+)\) < 1$', t)
        if m:
            return m.group(1)
    return None


def is_delegating_null(repo, fi):
    """`return self.X.is_null()` -> X"""
    body = [s for s in fi.node.body if not (isinstance(s, ast.Expr) and isinstance(s.value, ast.Constant))]
    if len(body) == 1 and isinstance(body[0], ast.Return) and body[0].value is not None:
        import re
        m = re.match(r'^self\.(\w+)\.(\w+)\(\)$', norm(body[0].value))
        if m:
            return m.group(1), m.group(2)
    return None


def is_all_null_loop(repo, fi):
    """CTxWitness.is_null-like: every element's is_null() must hold -> (slot, method) or None"""
    import re
    body = [s for s in fi.node.body if not (isinstance(s, ast.Expr) and isinstance(s.value, ast.Constant))]
    if len(body) == 1 and isinstance(body[0], ast.Return):
        m = re.match(r'^all\(\((\w+)\.(\w+)\(\) for \1 in self\.(\w+)\)\)$', norm(body[0].value))
        if m:
            return m.group(3), m.group(2)
        return None
    if len(body) == 2 and isinstance(body[0], ast.For) and isinstance(body[1], ast.Return) and norm(body[1].value) == 'True':
        loop = body[0]
        it = norm(loop.iter)
        tv = norm(loop.target)
        m = re.match(r'^range\(len\(self\.(\w+)\)\)$', it)
        if m:
            elem = r'self\.%s\[%s\]' % (m.group(1), tv)
            slot = m.group(1)
        else:
            m = re.match(r'^self\.(\w+)$', it)
            if not m:
                return None
            elem = tv
            slot = m.group(1)
        if len(loop.body) == 1 and isinstance(loop.body[0], ast.If) and not loop.body[0].orelse:
            iff = loop.body[0]
            mm = re.match(r'^not %s\.(\w+)\(\)$' % elem, norm(iff.test))
            if mm and len(iff.body) == 1 and isinstance(iff.body[0], ast.Return) and norm(iff.body[0].value) == 'False':
                return slot, mm.group(1)
            fixed = re.match(r'^not self\.%s\[(-?\d+)\]\.(\w+)\(\)$' % re.escape(slot), norm(iff.test))
            if fixed and len(iff.body) == 1 and isinstance(iff.body[0], ast.Return) and norm(iff.body[0].value) == 'False':
                # the loop runs over every entry and asks the same one each time
                return 'DEFECT', 'the loop over self.%s tests entry [%s] on every round instead of entry [%s]: the other entries are never asked' % (slot, fixed.group(1), tv)
    return None


def witness_null_chain(repo, eng, r, key_prefix):
    """CTxWitness.is_null == every stack has length 0 (through CTxInWitness and CScriptWitness)"""
    txw = repo.get_class('bitcoin.core.CTxWitness')
    f1 = repo.lookup_method(txw, 'is_null')
    if f1 is None:
        raise AnalysisError('CTxWitness.is_null not found')
    a = is_all_null_loop(repo, f1)
    if a is None:
        r.undecided(key_prefix + ':CTxWitness.is_null', f1.site, 'unrecognised spelling of "all entries null"')
        return False
    if a[0] == 'DEFECT':
        r.violated(key_prefix + ':CTxWitness.is_null', f1.site, 'CTxWitness.is_null: %s; a transaction whose other inputs carry witness data is taken to have none (serialised without it, hashed as its txid)' % a[1], sure=True)
        return False
    slot, meth = a
    elem_cls = eng.field_elem_class(txw, slot) or repo.get_class('bitcoin.core.CTxInWitness')
    f2 = repo.lookup_method(elem_cls, meth)
    d = is_delegating_null(repo, f2) if f2 else None
    if d is None:
        # truthiness of the ITEMS instead of the number of items: `not any(stack)` calls a stack of empty byte strings null
        e_ = common.return_expr(f2) if f2 is not None else None
        if e_ is not None and isinstance(e_, ast.UnaryOp) and isinstance(e_.op, ast.Not) and isinstance(e_.operand, ast.Call) and norm(e_.operand.func) == 'any' \
                and len(e_.operand.args) == 1 and 'self.' in norm(e_.operand.args[0]):
            r.violated(key_prefix + ':CTxInWitness.is_null', f2.site, 'the witness of an input is called null when `%s`: that tests the truth of the stack ITEMS, so a stack holding only empty '
                       'byte strings counts as no witness (null is: the stack has no items)' % norm(e_), sure=True)
            return False
        r.undecided(key_prefix + ':CTxInWitness.is_null', f2.site if f2 else elem_cls.site, 'unrecognised spelling')
        return False
    inner_cls = eng.field_class(elem_cls, d[0]) or repo.get_class('bitcoin.core.script.CScriptWitness')
    f3 = repo.lookup_method(inner_cls, d[1])
    s = is_stack_empty_test(repo, f3) if f3 else None
    if s is None:
        if f3 is not None:
            r.violated(key_prefix + ':CScriptWitness.is_null', f3.site, 'a witness stack is "null" iff it has no items; found `%s`' % norm(f3.node.body[-1]))
        return False
    r.ok(key_prefix + ':null-chain', f1.site, 'CTxWitness.is_null <=> every input stack has length 0 (%s -> %s -> %s)' % (f1.qualname, f2.qualname, f3.qualname))
    return True


def classify_witness_guard(test, fi, repo):
    """-> ('nonempty', uses_include_flag) | ('wrong', why) | ('unknown', text)"""
    import re
    conj = test.values if isinstance(test, ast.BoolOp) and isinstance(test.op, ast.And) else [test]
    flag = False
    kinds = []
    for c in conj:
        t = norm(c)
        if isinstance(c, ast.Name) and c.id in fi.params:
            flag = True
            continue
        if re.match(r'^not self\.wit\.is_null\(\)$', t) or re.match(r'^self\.has_witness\(\)$', t):
            if t.startswith('self.has_witness'):
                hw = repo.lookup_method(fi.cls, 'has_witness')
                body = [s for s in hw.node.body if not (isinstance(s, ast.Expr) and isinstance(s.value, ast.Constant))] if hw else []
                if not (len(body) == 1 and isinstance(body[0], ast.Return) and norm(body[0].value) == 'not self.wit.is_null()'):
                    return ('unknown', 'has_witness() has an unrecognised body')
            kinds.append('nonempty')
            continue
        if re.search(r'self\.wit (!=|==) ', t) or re.search(r'len\(self\.wit\.vtxinwit\)', t) or t in ('True', 'self.wit', 'self.wit.vtxinwit'):
            return ('wrong', '`%s` is true for a witness object whose stacks are all empty (or false for a populated one)' % t)
        return ('unknown', t)
    if kinds == ['nonempty']:
        return ('nonempty', flag)
    if not kinds:
        return ('wrong', 'the marker/flag form does not depend on the witness content: `%s`' % norm(test))
    return ('unknown', norm(test))


def rule_L3(ctx, repo, eng):
    r = ctx.rule('C01.L3', 'BIP144 marker/flag emitted iff some witness stack is non-empty; reader peeks 00 01 and rewinds otherwise',
                 engine='LAYOUT', floor=4)
    cmp_ = ctx.extra.pop('_tx_cmp', None)
    tx = repo.get_class('bitcoin.core.CTransaction')
    fw = repo.lookup_method(tx, 'stream_serialize')
    fr = repo.lookup_method(tx, 'stream_deserialize')
    if cmp_ is None:
        r.undecided('layout', tx.site, 'transaction layout could not be inferred (see C01.L1)')
        return
    wcond = [i for i in cmp_.W if i.kind == 'cond']
    rcond = [i for i in cmp_.R if i.kind == 'cond']
    if len(wcond) != 1:
        # unconditional marker or no marker at all
        consts = [i for i in cmp_.W if i.kind == 'const']
        if consts:
            r.violated('writer:guard', common.site_of(fw, consts[0].node), 'marker/flag bytes are written unconditionally')
        else:
            r.violated('writer:guard', fw.site, 'the writer has no BIP144 branch (found %d conditionals)' % len(wcond))
        return
    w = wcond[0]
    then_consts = [i.value for i in w.then if i.kind == 'const']
    else_consts = [i.value for i in w.orelse if i.kind == 'const']
    has_wit = any(i.kind == 'sub' and i.field == 'wit' for i in w.then)
    r.check(then_consts[:2] == [b'\x00', b'\x01'] and not else_consts and has_wit, 'writer:extended-branch', common.site_of(fw, w.node),
            'extended branch writes 00 01 ... witness section; the other branch neither',
            'extended branch writes constants %r and witness=%s; basic branch writes constants %r' % (then_consts, has_wit, else_consts))
    kind, info = classify_witness_guard(w.test, fw, repo)
    if kind == 'nonempty':
        r.ok('writer:guard', common.site_of(fw, w.node), 'guard `%s` is "some witness stack non-empty"' % w.guard)
        witness_null_chain(repo, eng, r, 'writer')
    elif kind == 'wrong':
        r.violated('writer:guard', common.site_of(fw, w.node), 'BIP144 guard is not "some witness stack is non-empty": %s' % info)
    else:
        r.undecided('writer:guard', common.site_of(fw, w.node), 'unrecognised BIP144 guard: %s' % info)
    # reader
    peek = [i for i in rcond if i.get('peek')]
    if len(peek) != 1:
        r.violated('reader:peek', fr.site, 'the reader does not have the shape: checkpoint, peek two bytes, `marker == 0 and flag == 1` ? extended : rewind-and-basic')
        return
    p = peek[0]
    r.check(p.guard == 'peek(00,01)', 'reader:peek', common.site_of(fr, p.node), 'extended form selected by marker 00 and flag 01',
            'extended form selected by %s, protocol: marker 00 flag 01' % p.guard)
    r.ok('reader:rewind', common.site_of(fr, p.rewind.node), 'basic branch rewinds to the checkpoint taken immediately before the two peeked bytes')


# ----------------------------------------------------------------------------------------------- E1
def rule_E1(ctx, repo, eng):
    r = ctx.rule('C01.E1', 'every stream read in a deserialiser goes through ser_read; ser_read is guarded; read sizes equal calcsize',
                 engine='DOM', floor=40)
    sites = common.ser_read_sites(repo, CORE_FILES)
    seen = {}
    for fi, c in sites:
        k = 'ser_read:%s:%s' % (fi.qualname.replace('bitcoin.core.', ''), norm(c))
        seen[k] = seen.get(k, 0) + 1
        key = k if seen[k] == 1 else '%s#%d' % (k, seen[k])
        # the truncation error of this read reaches the caller: no enclosing handler turns a strict prefix into something else
        h_ = common.catching_handler(repo, fi, c, 'bitcoin.core.serialize.SerializationTruncationError')
        if h_ is not None:
            r.violated('caught:' + key, common.site_of(fi, c), 'the truncation error raised by `%s` in %s is caught by `except %s`: a strict prefix of a valid encoding no longer raises '
                       'SerializationTruncationError (it is re-parsed, swallowed or re-labelled)' % (norm(c), fi.qualname, norm(h_.type) if h_.type is not None else ''), sure=True)
        # argument range is non-negative
        arg = c.args[1] if len(c.args) == 2 else None
        v = repo.fold(arg, fi.module, cls=fi.cls) if arg is not None else UNKNOWN
        if isinstance(v, int):
            r.check(v >= 0, key, common.site_of(fi, c), 'constant size %d' % v, 'negative constant size %d' % v)
        else:
            src = size_source(repo, eng, fi, arg)
            if src[0] == 'ok':
                r.ok(key, common.site_of(fi, c), src[1])
            elif src[0] == 'bad':
                r.violated(key, common.site_of(fi, c), src[1])
            else:
                r.undecided(key, common.site_of(fi, c), src[1])
    for fi in repo.functions.values():
        if fi.module.relpath in CORE_FILES and fi.name in ('stream_deserialize', 'deserialize'):
            for c in common.iter_calls(fi.node):
                if isinstance(c.func, ast.Attribute) and c.func.attr == 'stream_deserialize':
                    h_ = common.catching_handler(repo, fi, c, 'bitcoin.core.serialize.SerializationTruncationError')
                    if h_ is not None:
                        r.violated('caught:%s:%s' % (fi.qualname.replace('bitcoin.core.', ''), norm(c)[:50]), common.site_of(fi, c),
                                   'a truncation error raised inside `%s` (in %s) is caught by `except %s`: a strict prefix of a valid encoding no longer raises SerializationTruncationError'
                                   % (norm(c)[:60], fi.qualname, norm(h_.type) if h_.type is not None else ''), sure=True)
    allowed_raw = {'bitcoin.core.serialize.ser_read', 'bitcoin.core.serialize.Serializable.deserialize'}
    for fi, c in common.raw_read_sites(repo, CORE_FILES):
        key = 'raw-read:%s' % fi.qualname.replace('bitcoin.core.', '')
        if fi.qualname in allowed_raw:
            r.ok(key, common.site_of(fi, c), 'allowed raw read (inside ser_read / the padding probe)')
        else:
            # a read straight from the stream parameter of a deserialiser is a fact about that call, whatever else was rewritten
            direct = fi.name in ('stream_deserialize', 'msg_deser') and c.func.value.id in fi.params and not common.catching_handler(repo, fi, c, 'builtins.Exception')
            r.violated(key, common.site_of(fi, c), 'raw `%s` bypasses ser_read: a short read is not reported as SerializationTruncationError' % norm(c), sure=bool(direct))
    common.rule_ser_read_body(r, repo)
    for fi, c, fmt, nv, why in common.unpack_read_sites(repo, eng, CORE_FILES):
        key = 'calcsize:%s:%s' % (fi.qualname.replace('bitcoin.core.', ''), norm(c)[:60])
        if why == 'not-ser_read':
            continue
        if fmt is None or not isinstance(nv, int):
            r.undecided(key, common.site_of(fi, c), 'format or size does not fold')
            continue
        try:
            size = _struct.calcsize(fmt)
        except _struct.error:
            r.violated(key, common.site_of(fi, c), 'invalid struct format %r' % fmt)
            continue
        r.check(size == nv, key, common.site_of(fi, c), 'reads %d bytes for %r' % (nv, fmt),
                'reads %d bytes for format %r which needs %d: struct.error instead of a serialization error' % (nv, fmt, size))


def size_source(repo, eng, fi, arg):
    """where does a non-constant ser_read size come from? -> ('ok'|'bad'|'unknown', text)"""
    if isinstance(arg, (ast.Name, ast.Call, ast.Subscript)) and not (isinstance(arg, ast.Name) and arg.id in fi.params and fi.qualname == 'bitcoin.core.serialize.ser_read'):
        if isinstance(arg, ast.Name):
            name = arg.id
            defs_ = [st.value for st in walk_no_nested(fi.node) if isinstance(st, ast.Assign) and any(isinstance(t, ast.Name) and t.id == name for t in st.targets)]
        else:
            name = norm(arg)[:40]
            defs_ = [arg]  # the size is computed in place
        for v in defs_:
            if True:
                if isinstance(v, ast.Call) and isinstance(v.func, ast.Attribute) and v.func.attr in ('stream_deserialize', 'deserialize'):
                    rv = repo.fold(v.func.value, fi.module, cls=fi.cls)
                    if isinstance(rv, ClassRef) and rv.info is eng.varint:
                        return ('ok', 'size read as CompactSize (unsigned formats, checked by C01.T1)')
                if isinstance(v, ast.Subscript) and isinstance(v.value, ast.Call):
                    sc = eng.struct_call(v.value, fi, 'unpack')
                    if sc:
                        codes = split_fmt(sc[1])
                        rng = fmt_info(codes[0])[2]
                        if rng and rng[0] >= 0:
                            return ('ok', 'size read with unsigned format %r' % sc[1])
                        return ('bad', 'size `%s` is read with signed format %r: a negative value reaches f.read(n) and consumes the rest of the stream' % (name, sc[1]))
                return ('unknown', 'size `%s` assigned from `%s`' % (name, norm(v)[:60]))
        return ('unknown', 'size `%s` has no visible definition' % name)
    if isinstance(arg, ast.Name):
        return ('ok', 'parameter')
    if isinstance(arg, ast.Attribute) and arg.attr == 'size':
        return ('ok', 'Struct.size')
    return ('unknown', 'size expression `%s`' % norm(arg))


# ----------------------------------------------------------------------------------------------- E3
def rule_E3(ctx, repo, eng):
    r = ctx.rule('C01.E3', 'without allow_padding every normal return of deserialize passes the empty-padding test; the error carries (object, surplus)',
                 engine='DOM', floor=3)
    fi = repo.get_function('bitcoin.core.serialize.Serializable.deserialize')
    params = fi.params
    if 'allow_padding' not in params:
        r.undecided('deserialize:signature', fi.site, 'no allow_padding parameter')
        return
    dflt = fi.defaults().get('allow_padding')
    r.check(dflt is not None and repo.fold(dflt, fi.module) is False, 'deserialize:default', fi.site, 'allow_padding defaults to False',
            'allow_padding does not default to False')
    objvar = padvar = streamvar = None
    for st in walk_no_nested(fi.node):
        if isinstance(st, ast.Assign) and isinstance(st.targets[0], ast.Name) and isinstance(st.value, ast.Call):
            fn = norm(st.value.func)
            if fn.endswith('BytesIO'):
                streamvar = st.targets[0].id
            elif fn == 'cls.stream_deserialize':
                objvar = st.targets[0].id
            elif fn.endswith('.read') and not st.value.args:
                padvar = st.targets[0].id
    if not (objvar and streamvar):
        r.undecided('deserialize:shape', fi.site, 'stream or parsed-object variable not found')
        return

    def cond(test):
        t = norm(test)
        if t == 'not allow_padding':
            return frozenset(), frozenset(['padding-allowed', 'padding-ok'])
        if t == 'allow_padding':
            return frozenset(['padding-allowed', 'padding-ok']), frozenset()
        if padvar and t in ('len(%s) != 0' % padvar, padvar, 'len(%s) > 0' % padvar, 'len(%s)' % padvar, '%s != b\'\'' % padvar, 'len(%s) >= 1' % padvar):
            return frozenset(['pad-nonempty']), frozenset(['pad-empty', 'padding-ok'])
        return frozenset(), frozenset()
    mf = flow.run_must(fi.node, cond=cond)
    ok = True
    nret = 0
    for kind, node, facts in mf.exits:
        if kind in ('return', 'fallthrough'):
            nret += 1
            good = 'padding-ok' in facts and node is not None and norm(node.value) == objvar
            if not good:
                ok = False
                r.violated('deserialize:return', common.site_of(fi, node) if node is not None else fi.site,
                           'a normal return of deserialize is reached without the empty-padding test although padding was not allowed, or does not return the parsed object')
    if ok and nret:
        r.ok('deserialize:return', fi.site, 'every normal return passes `allow_padding` or the empty-padding test')
    raises = [(node, facts) for kind, node, facts in mf.exits if kind == 'raise' and 'pad-nonempty' in facts]
    if not raises:
        r.violated('deserialize:extra-data-error', fi.site, 'surplus bytes do not raise')
    for node, facts in raises:
        exc = node.exc
        good = False
        if isinstance(exc, ast.Call):
            v = repo.fold(exc.func, fi.module)
            if isinstance(v, ClassRef) and v.info.name == 'DeserializationExtraDataError':
                init = repo.lookup_method(v.info, '__init__')
                ps = init.params[1:] if init else []
                bound = {}
                for i, a in enumerate(exc.args):
                    if i < len(ps):
                        bound[ps[i]] = norm(a)
                for kw in exc.keywords:
                    bound[kw.arg] = norm(kw.value)
                # which attribute each parameter is stored into
                stores = {}
                for st in walk_no_nested(init.node) if init else []:
                    if isinstance(st, ast.Assign) and isinstance(st.targets[0], ast.Attribute) and isinstance(st.value, ast.Name):
                        stores[st.targets[0].attr] = st.value.id
                good = bound.get(stores.get('obj')) == objvar and bound.get(stores.get('padding')) == padvar \
                    and 'padding-allowed' not in facts
        r.check(good, 'deserialize:extra-data-error', common.site_of(fi, node),
                'surplus raises DeserializationExtraDataError(obj=%s, padding=%s)' % (objvar, padvar),
                'surplus bytes raise `%s`: not the extra-data error carrying (parsed object, surplus) in .obj/.padding' % norm(exc))


# ----------------------------------------------------------------------------------------------- R1
def rule_R1(ctx, repo, eng):
    r = ctx.rule('C01.R1', 'every pack site of a transaction/header field carries the field\'s full wire range', engine='LAYOUT', floor=8)
    common.rule_pack_ranges(r, repo, eng, spec.FIELD_RANGES, files={'bitcoin/core/__init__.py'})
