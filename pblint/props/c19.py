"""C19 RPC proxy: exact amounts, Core-style hash endianness, faithful error mapping."""
import ast
import re

from ..model import UNKNOWN, ClassRef, FuncRef, norm, walk_no_nested
from ..table import Tracer
from .. import common, spec, flow, shape

RPC = 'bitcoin.rpc.'

# reference conversion table (Bitcoin Core RPC reference x the Proxy methods): (method, value) -> converter
#   lx / b2lx: byte-reversed hex (txids, block hashes);  x: plain big-endian hex number;
#   amount-in: int(v * COIN);  amount-out: float(v) / COIN;  hex-out: hexlify_str(obj.serialize());  hex-in: unhexlify_str
TABLE = {
    ('generate', 'blk_hash'): 'lx', ('generatetoaddress', 'blk_hash'): 'lx',
    ('getbestblockhash', "self._call('getbestblockhash')"): 'lx',
    ('getblockhash', "self._call('getblockhash', height)"): 'lx',
    ('getblockheader', "r['nextblockhash']"): 'lx', ('getblockheader', "r['chainwork']"): 'x',
    ('getblockheader', 'block_hash'): 'b2lx', ('getblock', 'block_hash'): 'b2lx',
    ('getrawmempool', 'txid'): 'lx',
    ('getrawtransaction', 'txid'): 'b2lx', ('getrawtransaction', 'block_hash'): 'b2lx', ('getrawtransaction', "r['blockhash']"): 'lx',
    ('gettransaction', 'txid'): 'b2lx',
    ('gettxout', 'outpoint.hash'): 'b2lx', ('gettxout', "r['bestblock']"): 'lx', ('gettxout', "r['value']"): 'amount-in',
    ('listunspent', "unspent['txid']"): 'lx', ('listunspent', "unspent['amount']"): 'amount-in',
    ('lockunspent', 'outpoint.hash'): 'b2lx',
    ('sendrawtransaction', 'r'): 'lx', ('sendmany', 'r'): 'lx', ('sendtoaddress', 'r'): 'lx',
    ('sendmany', 'amount'): 'amount-out', ('sendtoaddress', 'amount'): 'amount-out',
    ('fundrawtransaction', "r['fee']"): 'amount-in', ('getbalance', 'r'): 'amount-in',
    ('getinfo', "r['balance']"): 'amount-in', ('getinfo', "r['paytxfee']"): 'amount-in',
    ('getreceivedbyaddress', 'r'): 'amount-in',
    ('fundrawtransaction', 'tx.serialize()'): 'hex-out', ('sendrawtransaction', 'tx.serialize()'): 'hex-out',
    ('signrawtransaction', 'tx.serialize()'): 'hex-out', ('signrawtransactionwithwallet', 'tx.serialize()'): 'hex-out',
    ('submitblock', 'block.serialize()'): 'hex-out',
    ('fundrawtransaction', "r['hex']"): 'hex-in:CTransaction', ('getrawtransaction', "r['hex']"): 'hex-in:CTransaction', ('getrawtransaction', 'r'): 'hex-in:CTransaction',
    ('signrawtransaction', "r['hex']"): 'hex-in:CTransaction', ('signrawtransactionwithwallet', "r['hex']"): 'hex-in:CTransaction',
    ('getblockheader', 'r'): 'hex-in:CBlockHeader', ('getblock', 'r'): 'hex-in:CBlock',
    ('gettxout', "r['scriptPubKey']['hex']"): 'hex-in:CScript', ('listunspent', "unspent['scriptPubKey']"): 'hex-in:CScript',
    ('validateaddress', "r['pubkey']"): 'hex-in:bytes',
}
RAW_PASS_THROUGH = {'call', 'getblockcount', 'getmininginfo', 'importaddress', 'unlockwallet', 'createwallet', 'loadwallet', '_addnode', 'addnode', 'addnodeonetry',
                    'removenode', 'dumpprivkey', 'getaccountaddress', 'getnewaddress', 'getrawchangeaddress', '__init__'}


def run(ctx):
    repo = ctx.repo
    rule_decimal(ctx, repo)
    rule_conversions(ctx, repo)
    rule_converters(ctx, repo)
    rule_call(ctx, repo)
    rule_round_trip(ctx, repo)
    rule_ids(ctx, repo)
    rule_errors(ctx, repo)
    rule_handlers(ctx, repo)
    ctx.not_decided += ['exactness of float(amount)/COIN -> JSON number -> server (numerical)', 'HTTP transport behaviour']
    ctx.assume('json.loads(parse_float=Decimal) yields exact decimals; Decimal * int is exact')


def rule_handlers(ctx, repo):
    """the proxy methods that turn one node error into a Python exception (getblock, getblockhash, getblockheader,
    getrawtransaction ...: "not found" -> IndexError) catch exactly the error class the confirmed method catches: a wider
    class converts replies that must raise the class registered for their code, a narrower one lets the reply through
    unconverted"""
    from .. import delta
    from ..model import ClassRef
    r = ctx.rule('C19.H1', 'handlers of the proxy methods catch the error classes of the confirmed methods: neither wider nor narrower', engine='RESOLVE', floor=3)
    inv = delta.inventory()
    known = inv['modules'].get('bitcoin.rpc', {}).get('functions', {})
    n = 0
    for q, k in sorted(known.items()):
        fi = repo.functions.get(q)
        if fi is None or not k.get('source') or '.Proxy.' not in q and '.BaseProxy.' not in q:
            continue
        try:
            old = ast.parse(k['source']).body[0]
        except SyntaxError:
            continue
        oh = [h for h in ast.walk(old) if isinstance(h, ast.ExceptHandler) and h.type is not None]
        nh = [h for h in ast.walk(fi.node) if isinstance(h, ast.ExceptHandler) and h.type is not None]
        if not oh:
            continue
        if len(oh) != len(nh):
            if len(nh) < len(oh):
                r.undecided('handlers:%s' % fi.name, fi.site, '%s has %d exception handlers, the confirmed method %d' % (fi.name, len(nh), len(oh)))
            continue
        # handlers are compared as sets of resolved classes: order and nesting may change freely
        def cls_of(h, mod_fi):
            v = repo.fold(h.type, mod_fi.module, cls=mod_fi.cls)
            return v.info if isinstance(v, ClassRef) else None
        olds = [(norm(h.type), cls_of(h, fi), h) for h in oh]
        news = [(norm(h.type), cls_of(h, fi), h) for h in nh]
        gone = [o for o in olds if not any(o[0] == x[0] or (o[1] is not None and o[1] is x[1]) for x in news)]
        come = [x for x in news if not any(o[0] == x[0] or (x[1] is not None and o[1] is x[1]) for o in olds)]
        n += len(olds)
        for o in olds:
            if o not in gone:
                r.ok('handler:%s:%s' % (fi.name, o[0][:30]), fi.site, 'catches %s' % o[0])
        for to, co, ho in gone:
            key = 'handler:%s:%s' % (fi.name, to[:30])
            wider = [x for x in come if co is not None and x[1] is not None and repo.is_subclass(co, x[1])]
            narrower = [x for x in come if co is not None and x[1] is not None and repo.is_subclass(x[1], co)]
            if wider:
                tn, cn, hn = wider[0]
                r.violated(key, common.site_of(fi, hn), '%s catches `%s`, a base class of the confirmed `%s`: every other error reply of the node (each has its own registered class) is now '
                           'converted as well instead of being raised as that class' % (fi.name, tn, to), sure=True)
            elif narrower:
                tn, cn, hn = narrower[0]
                r.violated(key, common.site_of(fi, hn), '%s catches only `%s`, a subclass of the confirmed `%s`: the other errors of that class are no longer converted' % (fi.name, tn, to), sure=True)
            else:
                r.undecided(key, fi.site, '%s no longer catches `%s` (it catches %s)' % (fi.name, to, [x[0] for x in news]))
    if n == 0:
        r.undecided('handlers', 'bitcoin/rpc.py:0', 'no handler of a confirmed proxy method found')


def rule_decimal(ctx, repo):
    r = ctx.rule('C19.D1', 'every JSON reply is parsed with parse_float=decimal.Decimal', engine='RULES', floor=1)
    n = 0
    for fi in repo.functions.values():
        if fi.module.name != 'bitcoin.rpc':
            continue
        for c in common.iter_calls(fi.node):
            if norm(c.func) in ('json.loads', 'json.load'):
                n += 1
                kw = {k.arg: norm(k.value) for k in c.keywords}
                r.check(kw.get('parse_float') in ('decimal.Decimal', 'Decimal'), 'loads:%s' % fi.name, common.site_of(fi, c), 'parse_float=decimal.Decimal',
                        '`%s` parses JSON numbers as binary floats: int(amount * COIN) then truncates e.g. 0.29 BTC to 28999999 satoshis' % norm(c))
    if n == 0:
        r.undecided('loads', 'bitcoin/rpc.py:0', 'no json.loads call found')


def conv_sites(fi, coin='COIN'):
    """(converter, inner expression text, node) for every conversion call in a Proxy method"""
    out = []
    for c in ast.walk(fi.node):
        if not isinstance(c, ast.Call):
            continue
        fn = norm(c.func)
        if fn in ('lx', 'x', 'b2lx', 'b2x') and len(c.args) == 1:
            out.append((fn, norm(c.args[0]), c))
        elif fn == 'int' and len(c.args) == 1 and isinstance(c.args[0], ast.BinOp) and isinstance(c.args[0].op, ast.Mult):
            a, b = c.args[0].left, c.args[0].right
            if norm(b) == coin:
                out.append(('amount-in', norm(a), c))
            elif norm(a) == coin:
                out.append(('amount-in', norm(b), c))
        elif fn == 'hexlify_str' and len(c.args) == 1:
            out.append(('hex-out', norm(c.args[0]), c))
        elif fn == 'unhexlify_str' and len(c.args) == 1:
            par = getattr(c, '_parent', None)
            wrap = 'bytes'
            if isinstance(par, ast.Call) and c in par.args:
                wrap = norm(par.func).replace('.deserialize', '')
            out.append(('hex-in:' + wrap, norm(c.args[0]), c))
    for b in ast.walk(fi.node):
        if isinstance(b, ast.BinOp) and isinstance(b.op, ast.Div) and norm(b.right) == coin:
            inner = b.left
            if isinstance(inner, ast.Call) and norm(inner.func) == 'float' and len(inner.args) == 1:
                out.append(('amount-out', norm(inner.args[0]), b))
            else:
                out.append(('amount-out-unfloated', norm(inner), b))
    return out


def rule_conversions(ctx, repo):
    r = ctx.rule('C19.T1', 'conversion table: every hash, amount and serialised object crosses the RPC boundary through its own converter', engine='RULES', floor=40)
    px = repo.get_class(RPC + 'Proxy')
    seen = set()
    for name, fi in sorted(px.methods.items()):
        sites = conv_sites(fi)
        for conv, inner, node in sites:
            key = '%s:%s' % (name, inner)
            # the conversion happens on every path: not behind another statement of a try whose handler carries on
            st_ = node
            while getattr(st_, '_parent', None) is not None and not isinstance(st_, ast.stmt):
                st_ = st_._parent
            cur_ = st_
            while getattr(cur_, '_parent', None) is not None and cur_ is not fi.node:
                par_ = cur_._parent
                if isinstance(par_, ast.Try) and cur_ in par_.body and par_.body.index(cur_) > 0:
                    soft = [h for h in par_.handlers if not any(isinstance(x, ast.Raise) for x in ast.walk(h))]
                    if soft:
                        r.violated('skippable:%s' % key, common.site_of(fi, node), 'the conversion of `%s` in Proxy.%s sits behind `%s` inside a try whose `except %s` carries on: when that '
                                   'statement raises, the value is handed out unconverted (the wire form)' % (inner, name, norm(par_.body[0])[:50], norm(soft[0].type) if soft[0].type is not None else ''), sure=True)
                cur_ = par_
            # a field that is converted only when present: the conversion sits on the side of the test where it IS present
            m_ = re.match(r"^(\w+)\[('[^']+')\]$", inner)
            if m_ and (conv in ('lx', 'amount-in') or conv in ('hex-in:CTransaction', 'hex-in:CBlock', 'hex-in:CBlockHeader')):
                from ..escape import path_condition
                for t_, pol in path_condition(node):
                    tt = norm(t_)
                    if (tt == "%s in %s" % (m_.group(2), m_.group(1)) and not pol) or (tt == "%s not in %s" % (m_.group(2), m_.group(1)) and pol):
                        r.violated('presence:%s' % key, common.site_of(fi, node), 'Proxy.%s converts `%s` on the side of `%s` where the field is ABSENT: a reply that carries it is handed out unconverted, '
                                   'one that lacks it raises KeyError' % (name, inner, tt), sure=True)
                par_ = getattr(node, '_parent', None)
                if isinstance(par_, ast.IfExp) and par_.body is node and norm(par_.test) == "%s not in %s" % (m_.group(2), m_.group(1)):
                    r.violated('presence:%s' % key, common.site_of(fi, node), 'Proxy.%s converts `%s` when `%s`: the field is converted exactly when it is absent' % (name, inner, norm(par_.test)), sure=True)
            want = TABLE.get((name, inner))
            if want is None:
                # the same crossing under another spelling of the value (a renamed local, the call written in place):
                # the method's only table entry for this converter that no site has claimed yet
                cands = [(k_, w_) for k_, w_ in TABLE.items() if k_[0] == name and w_ == conv and k_ not in seen
                         and not any(c2 == w_ and i2 == k_[1] for c2, i2, n2 in sites) and k_[1].isidentifier()]
                if len(cands) == 1 and (inner.isidentifier() or inner.startswith('self._call(')):
                    seen.add(cands[0][0])
                    r.ok('%s:%s' % cands[0][0], common.site_of(fi, node), '%s through %s (written `%s`)' % (cands[0][0][1], conv, inner[:40]))
                    continue
            if want is None:
                if name in RAW_PASS_THROUGH:
                    r.undecided(key, common.site_of(fi, node), 'method %s is listed as raw pass-through but converts `%s` with %s' % (name, inner, conv))
                else:
                    r.undecided(key, common.site_of(fi, node), 'conversion of `%s` with %s in %s is not in the reference table' % (inner, conv, name))
                continue
            seen.add((name, inner))
            r.check(conv == want, key, common.site_of(fi, node), '%s through %s' % (inner, conv),
                    '%s.%s converts `%s` with %s; the value is a %s and needs %s%s' % ('Proxy', name, inner, conv, kind_of(want), want,
                                                                                         ': the hash would not be usable in another call' if 'lx' in want or want == 'x' else ''))
        if name not in RAW_PASS_THROUGH and not any(k[0] == name for k in TABLE) and not name.startswith('_'):
            if name not in ('gettransaction', 'getrawmempool', 'validateaddress'):
                r.undecided('method:%s' % name, fi.site, 'Proxy.%s is neither in the conversion table nor listed as raw pass-through' % name)
    for (name, inner), want in sorted(TABLE.items()):
        if (name, inner) not in seen:
            fi = px.methods.get(name)
            r.violated('%s:%s' % (name, inner), fi.site if fi else px.site, 'Proxy.%s no longer converts `%s` (%s) with %s: the value crosses the boundary raw or through another path' % (name, inner, kind_of(want), want))
    coin = repo.module_value(repo.get_module('bitcoin.core'), 'COIN')
    r.check(coin == 100000000, 'COIN', 'bitcoin/core/__init__.py:0', '1e8', 'COIN is %r' % (coin,))


def rule_round_trip(ctx, repo):
    """Every Proxy method that talks to the node in the confirmed tree still does: the same requests are sent, on every
    path that returns, and what the method hands back is a value (the converted reply), not the None of a missing return."""
    from ..delta import inventory
    r = ctx.rule('C19.Q1', 'every proxy method sends its request on every returning path and hands the converted reply back', engine='DOM', floor=30)
    inv = inventory()['modules'].get('bitcoin.rpc', {}).get('functions', {})
    px = repo.get_class(RPC + 'Proxy')

    def requests(node):
        out = []
        for c in ast.walk(node):
            if isinstance(c, ast.Call) and norm(c.func) == 'self._call' and c.args and isinstance(c.args[0], ast.Constant):
                out.append(c.args[0].value)
        return sorted(out)

    def exits_of(node):
        def gen(stmt, facts):
            if isinstance(stmt, (ast.If, ast.While)):
                parts = [stmt.test]
            elif isinstance(stmt, ast.For):
                parts = [stmt.iter]
            elif isinstance(stmt, ast.With):
                parts = [i.context_expr for i in stmt.items]
            elif isinstance(stmt, ast.Try):
                parts = []
            else:
                parts = [stmt]
            if any(isinstance(c, ast.Call) and norm(c.func) == 'self._call' for p_ in parts for c in ast.walk(p_)):
                return facts | {'sent'}
            return facts
        mf = flow.run_must(node, gen=gen)
        return mf.exits
    common.rule_defaults(r, repo, [(RPC + 'Proxy.' + m_, 'verbose', False, 'the plain call returns the node\'s JSON object instead of the %s the method is documented to convert' % w_)
                                   for m_, w_ in (('getblockheader', 'header'), ('getrawtransaction', 'transaction'), ('getrawmempool', 'list of txids'))])
    for name, fi in sorted(px.methods.items()):
        known = inv.get(fi.qualname)
        if known is None or not known.get('source') or name.startswith('_'):
            continue
        try:
            old = ast.parse(known['source']).body[0]
        except SyntaxError:
            continue
        want = requests(old)
        kinds = {w_ for k_, w_ in TABLE.items() if k_[0] == name}
        out_side = bool(kinds & {'b2lx', 'amount-out', 'hex-out'})
        in_side = any(w_ in ('lx', 'amount-in') or w_.startswith('hex-in:C') for w_ in kinds)
        if not want or not (out_side or in_side):
            continue  # methods without an amount / hash / transaction crossing are not what the property talks about
        got = requests(fi.node)
        key = 'sent:%s' % name
        if set(got) == set(want):
            r.ok(key, fi.site, 'requests %s' % sorted(set(want)))
        elif set(got) < set(want):
            missing = sorted(set(want) - set(got))
            r.violated(key, fi.site, 'Proxy.%s no longer sends the request %s (the confirmed method sends %s): nothing reaches the node on that path, no reply is converted and no error reply can be raised'
                       % (name, missing, want), sure=True)
        else:
            r.undecided(key, fi.site, 'Proxy.%s sends %s, the confirmed method %s' % (name, got, want))
        # returning paths
        old_exits = exits_of(old)
        new_exits = exits_of(fi.node)
        old_fall = [e for e in old_exits if e[0] == 'fallthrough']
        old_bare = [e for e in old_exits if e[0] == 'return' and (e[1].value is None or (isinstance(e[1].value, ast.Constant) and e[1].value.value is None))]
        new_fall = [e for e in new_exits if e[0] == 'fallthrough']
        new_bare = [e for e in new_exits if e[0] == 'return' and (e[1].value is None or (isinstance(e[1].value, ast.Constant) and e[1].value.value is None))]
        key = 'returns:%s' % name
        def own_call(e):
            return e[1] is not None and any(isinstance(c, ast.Call) and norm(c.func) == 'self._call' for c in ast.walk(e[1]))
        unsent_all = [e for e in new_exits if e[0] in ('return', 'fallthrough') and 'sent' not in e[2] and not own_call(e)]
        old_unsent_all = [e for e in old_exits if e[0] in ('return', 'fallthrough') and 'sent' not in e[2] and not own_call(e)]
        # the literal arguments of a request select the form of the reply the method goes on to convert (verbosity flags)
        def req_args(node):
            out = {}
            for c in ast.walk(node):
                if isinstance(c, ast.Call) and norm(c.func) == 'self._call' and c.args and isinstance(c.args[0], ast.Constant):
                    out.setdefault((c.args[0].value, len(c.args)), []).append(c)
            return out
        oa, na = req_args(old), req_args(fi.node)
        for k_, ocs in oa.items():
            ncs = na.get(k_, [])
            if len(ncs) != len(ocs):
                continue
            for oc, nc in zip(ocs, ncs):
                for x_, y_ in zip(oc.args[1:], nc.args[1:]):
                    from ..tokenedit import leaf_diffs
                    d_ = leaf_diffs(x_, y_)
                    flag_lost = isinstance(y_, ast.IfExp) and isinstance(y_.body, ast.Constant) and isinstance(y_.orelse, ast.Constant) and y_.body.value == y_.orelse.value \
                        and isinstance(x_, ast.IfExp) and norm(x_.body) != norm(x_.orelse)
                    raw_block = name == 'getblock' and isinstance(x_, ast.Constant) and x_.value is False and isinstance(y_, ast.Constant) and y_.value is not False
                    if d_ and all(kind == 'const' for kind, a_, b_, anc in d_) and (flag_lost or raw_block):
                        r.violated('request-form:%s' % name, common.site_of(fi, nc), 'Proxy.%s asks the node with `%s` where the confirmed method sends `%s`: the reply comes in another form than the one the method converts'
                                   % (name, norm(y_)[:40], ast.unparse(x_)[:40]), sure=True)
        fewer_calls = sum(len(v_) for v_ in na.values()) < sum(len(v_) for v_ in oa.values())
        raw_gone = sum(1 for e in old_exits if e[0] == 'return' and e[1] is not None and isinstance(e[1].value, ast.Call) and norm(e[1].value.func) == 'self._call') > \
            sum(1 for e in new_exits if e[0] == 'return' and e[1] is not None and isinstance(e[1].value, ast.Call) and norm(e[1].value.func) == 'self._call')
        if raw_gone and in_side:
            r.undecided(key, fi.site, 'a path of Proxy.%s that handed the node\'s reply through as it is no longer returns it' % name)
        elif len(unsent_all) > len(old_unsent_all) and fewer_calls and not ((new_fall and not old_fall) and in_side):
            e0 = unsent_all[0]
            r.violated(key, common.site_of(fi, e0[1]) if e0[1] is not None else fi.site, 'Proxy.%s finishes on a path on which no request was sent (the confirmed method always asks the node): nothing crosses the wire, '
                       'and an error reply can never be raised' % name, sure=True)
        elif not in_side:
            r.ok(key, fi.site, 'every finishing path has sent its request')
        elif (new_fall and not old_fall) or (len(new_bare) > len(old_bare)):
            r.violated(key, fi.site, 'Proxy.%s can now finish without a return value (the confirmed method always returns the converted reply): the caller receives None' % name, sure=True)
        else:
            unsent = [e for e in new_exits if e[0] == 'return' and 'sent' not in e[2] and not own_call(e)]
            old_unsent = [e for e in old_exits if e[0] == 'return' and 'sent' not in e[2] and not own_call(e)]
            if len(unsent) > len(old_unsent):
                r.violated(key, common.site_of(fi, unsent[0][1]), 'Proxy.%s returns on a path on which no request was sent' % name, sure=True)
            else:
                r.ok(key, fi.site, 'every returning path has sent its request and returns a value')


def kind_of(want):
    return {'lx': 'hash returned by Core (byte-reversed hex)', 'b2lx': 'hash sent to Core (byte-reversed hex)', 'x': 'big-endian hex number', 'amount-in': 'BTC amount from the wire',
            'amount-out': 'satoshi amount to send', 'hex-out': 'serialised object to send'}.get(want, 'hex-encoded object from the wire')


def rule_converters(ctx, repo):
    r = ctx.rule('C19.C1', 'the converters: lx/b2lx reverse the bytes, x/b2x do not, hex helpers are plain hexlify/unhexlify', engine='CONST', floor=6)
    core = repo.get_module('bitcoin.core')
    want = {'x': "binascii.unhexlify(h.encode('utf8'))", 'b2x': "binascii.hexlify(b).decode('utf8')", 'lx': "binascii.unhexlify(h.encode('utf8'))[::-1]",
            'b2lx': "binascii.hexlify(b[::-1]).decode('utf8')"}
    for n, w in sorted(want.items()):
        fi = core.functions.get(n)
        rets = [n_.value for n_ in walk_no_nested(fi.node) if isinstance(n_, ast.Return)] if fi else []
        if len(rets) != 1:
            r.undecided(n, fi.site if fi else '', 'not a single return')
            continue
        got = norm(rets[0]).replace('[-1::-1]', '[::-1]')  # the same whole-sequence reversal
        rev_got, rev_want = '[::-1]' in got, '[::-1]' in w
        p0 = fi.params[0] if fi.params else 'h'
        alts = {'lx': ['x(%s)[::-1]' % p0], 'b2lx': ['b2x(%s[::-1])' % p0], 'x': ["bytes.fromhex(%s)" % p0], 'b2x': ['%s.hex()' % p0]}.get(n, [])
        if got == w or got in alts:
            r.ok(n, fi.site, w)
        elif rev_got != rev_want:
            r.violated(n, fi.site, '%s() returns `%s`: it must %s the byte order' % (n, got, 'reverse' if rev_want else 'keep'))
        else:
            r.undecided(n, fi.site, '%s() is written as `%s`' % (n, got))
    rpc = repo.get_module('bitcoin.rpc')
    for n, w in (('unhexlify_str', "binascii.unhexlify(h.encode('ascii'))"), ('hexlify_str', "binascii.hexlify(b).decode('ascii')")):
        fi = rpc.functions.get(n)
        rets = [norm(n_.value) for n_ in walk_no_nested(fi.node) if isinstance(n_, ast.Return)] if fi else []
        p0 = fi.params[0] if fi and fi.params else 'b'
        alts = {'hexlify_str': ["str(binascii.hexlify(%s), 'ascii')" % p0, '%s.hex()' % p0, 'binascii.hexlify(%s).decode()' % p0, "binascii.hexlify(%s).decode('utf8')" % p0, "binascii.hexlify(%s).decode('utf-8')" % p0], 'unhexlify_str': ["binascii.unhexlify(bytes(%s, 'ascii'))" % p0]}.get(n, [])
        if rets == [w] or (len(rets) == 1 and rets[0] in alts):
            r.ok(n, fi.site if fi else '', w)
        elif len(rets) == 1 and ('hexlify' in rets[0] or 'hex' in rets[0]) and '[::-1]' not in rets[0] and 'reversed' not in rets[0]:
            r.undecided(n, fi.site if fi else '', '%s returns `%s`' % (n, rets[0]))
        else:
            r.violated(n, fi.site if fi else '', '%s returns %s; reference `%s`' % (n, rets, w))
    for name in ('lx', 'x', 'b2lx', 'COIN'):
        v = repo.module_value(rpc, name)
        ok = (isinstance(v, FuncRef) and v.info.qualname == 'bitcoin.core.' + name) or (name == 'COIN' and v == 100000000)
        r.check(ok, 'binding:%s' % name, 'bitcoin/rpc.py:0', 'imported from bitcoin.core', 'rpc.%s resolves to %r' % (name, v))


def rule_call(ctx, repo):
    r = ctx.rule('C19.E1', '_call returns the result only when the reply carries no error; every other reply raises JSONRPCError', engine='DOM', floor=3)
    bp = repo.get_class(RPC + 'BaseProxy')
    fi = bp.methods['_call']
    tr = Tracer(repo, fi.module, cls=bp)
    paths = tr.trace(fi.node.body, {})
    nret = 0
    for p in paths:
        if p.end == 'return':
            nret += 1
            err_none = any(k in ('err is not None',) and v is False for k, v in p.assume.items()) or any(k == 'err is None' and v for k, v in p.assume.items())
            has_res = any(k == "'result' not in response" and v is False for k, v in p.assume.items()) or any(k == "'result' in response" and v for k, v in p.assume.items())
            r.check(err_none and has_res and norm(p.endnode.value) == "response['result']", 'return:%s' % sorted(p.assume.items()), common.site_of(fi, p.endnode),
                    'result returned only without error and with a result member',
                    'a reply is turned into a result on a path where %s (assumptions: %s)' % ('the error member was not tested' if not err_none else 'no result member is guaranteed', dict(p.assume)))
        elif p.end == 'raise':
            exc = p.endnode.exc if isinstance(p.endnode, ast.Raise) else None
            nm = norm(exc.func) if isinstance(exc, ast.Call) else '?'
            r.check(nm == 'JSONRPCError', 'raise:%s' % sorted(p.assume.items()), common.site_of(fi, p.endnode), 'raises JSONRPCError', 'an error reply raises %s' % nm)
        else:
            r.violated('fallthrough:%s' % sorted(p.assume.items()), fi.site, '_call can finish without returning a result or raising')
    defs = [norm(n.value) for n in walk_no_nested(fi.node) if isinstance(n, ast.Assign) and norm(n.targets[0]) == 'err']
    r.check(defs == ["response.get('error')"], 'error-member', fi.site, "err = response.get('error')", 'the error member is read as %s' % defs)
    if nret == 0:
        r.undecided('return', fi.site, 'no returning path')
    # the code of a well-formed error reply is forwarded
    fwd = [norm(n) for n in ast.walk(fi.node) if isinstance(n, ast.Dict) and "'code'" in norm(n)]
    r.check(any("err.get('code'" in t for t in fwd), 'code-forwarded', fi.site, "the reply's code selects the error class", 'the error code of the reply is not forwarded to JSONRPCError: %s' % fwd)


def rule_ids(ctx, repo):
    r = ctx.rule('C19.I1', 'request ids: the counter starts at 0 and is incremented before each request is built, nowhere else', engine='OWN', floor=3)
    bp = repo.get_class(RPC + 'BaseProxy')
    stores = []
    for name, fi in bp.methods.items():
        for n in walk_no_nested(fi.node):
            tgt = None
            if isinstance(n, ast.Assign) and norm(n.targets[0]).endswith('__id_count'):
                tgt = ('=', norm(n.value))
            elif isinstance(n, ast.AugAssign) and norm(n.target).endswith('__id_count'):
                tgt = (type(n.op).__name__, norm(n.value))
            if tgt:
                stores.append((name, tgt, n, fi))
    for c in repo.classes.values():
        if c is not bp and repo.is_subclass(c, bp):
            for name, fi in c.methods.items():
                for n in ast.walk(fi.node):
                    if isinstance(n, ast.Attribute) and 'id_count' in n.attr and isinstance(n.ctx, ast.Store):
                        r.violated('store:%s.%s' % (c.name, name), common.site_of(fi, n), 'the id counter is written outside BaseProxy')
    init = [s for s in stores if s[0] == '__init__']
    call = [s for s in stores if s[0] == '_call']
    other = [s for s in stores if s[0] not in ('__init__', '_call')]
    r.check(len(init) == 1 and init[0][1] == ('=', '0'), 'init', init[0][3].site if init else bp.site, 'starts at 0', 'counter initialisation: %s' % [s[1] for s in init])
    r.check(not other, 'no-other-writer', bp.site, 'only __init__ and _call write the counter', 'the counter is also written in %s' % [s[0] for s in other])
    fi = bp.methods['_call']
    body = [s for s in fi.node.body if not (isinstance(s, ast.Expr) and isinstance(s.value, ast.Constant))]
    first = body[0] if body else None
    ok = len(call) == 1 and call[0][1] in (('Add', '1'), ('Sub', '-1')) and first is call[0][2]  # `n -= -1` is `n += 1` for the int counter
    if ok:
        r.ok('increment-first', common.site_of(fi, first), 'incremented unconditionally before anything that can fail')
    else:
        # where is the increment relative to the request and the response?
        texts = [norm(s) for s in body]
        r.violated('increment-first', fi.site, 'the id counter is not incremented as the first step of _call (stores: %s): a failing call would leave it unchanged and the next request reuses the id'
                   % [(s[0], s[1]) for s in call])
    ids = [norm(n) for n in ast.walk(fi.node) if isinstance(n, ast.Dict) for k, v in zip(n.keys, n.values) if norm(k) == "'id'" and True]
    idv = [norm(v) for n in ast.walk(fi.node) if isinstance(n, ast.Dict) for k, v in zip(n.keys, n.values) if norm(k) == "'id'"]
    r.check(idv == ['self.__id_count'], 'id-in-request', fi.site, "the request carries the counter", "the request's id is %s" % idv)


def rule_errors(ctx, repo):
    r = ctx.rule('C19.R1', 'JSONRPCError: every subclass is registered under a unique code; dispatch by code with fallback to the base class', engine='CONST', floor=9)
    base = repo.get_class(RPC + 'JSONRPCError')
    subs = [c for c in repo.classes.values() if c is not base and repo.is_subclass(c, base)]
    codes = {}
    for c in sorted(subs, key=lambda c: c.name):
        code = repo.class_attr_value(c, 'RPC_ERROR_CODE')
        reg = any(norm(d) == 'JSONRPCError._register_subcls' for d in c.decorators)
        r.check(reg, 'registered:%s' % c.name, c.site, 'decorated with _register_subcls', '%s is not registered: its code raises the base class instead' % c.name)
        r.check(isinstance(code, int) and code not in codes, 'code:%s' % c.name, c.site, 'code %r' % (code,), '%s has code %r%s' % (c.name, code, ' already used by %s' % codes.get(code) if code in codes else ''))
        codes[code] = c.name
    r.check(set(codes) == spec.RPC_ERROR_CODES, 'codes', base.site, sorted(codes), 'registered codes are %s, reference %s' % (sorted(codes), sorted(spec.RPC_ERROR_CODES)))
    reg = base.methods.get('_register_subcls')
    st = [norm(n) for n in walk_no_nested(reg.node) if isinstance(n, ast.Assign)] if reg else []
    rets = [norm(n.value) for n in walk_no_nested(reg.node) if isinstance(n, ast.Return)] if reg else []
    r.check(st == ['cls.SUBCLS_BY_CODE[subcls.RPC_ERROR_CODE] = subcls'] and rets == ['subcls'], '_register_subcls', reg.site if reg else base.site, 'table[code] = subclass',
            '_register_subcls does %s / returns %s' % (st, rets))
    new = base.methods.get('__new__')
    # the object that is returned, with the locals written out: Exception.__new__(<table>.get(code, cls))
    created = None
    if new:
        for n in walk_no_nested(new.node):
            if isinstance(n, ast.Call) and norm(n.func) == 'Exception.__new__' and len(n.args) == 1:
                created = n
    sel_txt = None
    if created is not None:
        a0 = created.args[0]
        if isinstance(a0, ast.Name):
            ds = [x.value for x in walk_no_nested(new.node) if isinstance(x, ast.Assign) and norm(x.targets[0]) == a0.id]
            a0 = ds[-1] if ds else a0
        sel_txt = norm(a0)
    param = new.params[1] if new and len(new.params) > 1 else 'rpc_error'
    cparam = new.params[0] if new else 'cls'
    r.check(sel_txt in ("JSONRPCError.SUBCLS_BY_CODE.get(%s['code'], %s)" % (param, cparam), "%s.SUBCLS_BY_CODE.get(%s['code'], %s)" % (cparam, param, cparam)), 'dispatch',
            new.site if new else base.site, 'class selected by code, base class as fallback', 'dispatch is %s' % sel_txt)
    r.check(created is not None, 'dispatch:instance', new.site if new else base.site, 'instance of the selected class', 'no Exception.__new__(<selected class>) in JSONRPCError.__new__')
    mk = ['Exception.__new__(cls)']
