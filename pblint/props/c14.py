"""C14 Signed messages verify for the signer's address and for nothing else."""
import ast
import re

from ..model import UNKNOWN, ClassRef, FuncRef, norm, walk_no_nested
from ..layout import LayoutEngine, Undecided
from .. import common, spec
from ..spec import vb
from . import c04, c20


def run(ctx):
    repo = ctx.repo
    eng = LayoutEngine(repo)
    rule_digest(ctx, repo, eng)
    rule_header(ctx, repo)
    rule_verify(ctx, repo)
    rule_recid_search(ctx, repo)
    c04.common_hash_rule(ctx, repo, 'C14.H1')
    ctx.not_decided += ['public-key recovery mathematics (libcrypto)', 'that a different key or message yields a different recovered key (ECDSA)']
    ctx.assume('libcrypto implements SEC1 recovery; base64 is lossless')


def rule_digest(ctx, repo, eng):
    r = ctx.rule('C14.L1', 'digest input = varbytes(magic) || varbytes(utf8(message)); magic constant; digest is the double SHA-256 of that', engine='LAYOUT', floor=6)
    ci = repo.get_class('bitcoin.signmessage.BitcoinMessage')
    common.rule_vs_spec(r, repo, eng, ci, [vb('magic'), vb('message')], sides=('writer',))
    init = repo.lookup_method(ci, '__init__')
    stores = {}
    for n in walk_no_nested(init.node):
        if isinstance(n, ast.Call) and norm(n.func) == 'object.__setattr__' and len(n.args) == 3 and isinstance(n.args[1], ast.Constant):
            stores[n.args[1].value] = n.args[2]
    for slot in ('message', 'magic'):
        e = stores.get(slot)
        t = norm(e) if e is not None else None
        ok = t in ("%s.encode('utf-8')" % slot, "%s.encode('utf8')" % slot, "%s.encode()" % slot)
        site = common.site_of(init, e) if e is not None else init.site
        if ok:
            r.ok('utf8:%s' % slot, site, 'stored as the UTF-8 encoding of the text given')
        elif e is not None and isinstance(e, ast.Call) and isinstance(e.func, ast.Attribute) and e.func.attr == 'encode' and norm(e.func.value) != slot:
            r.violated('utf8:%s' % slot, site, 'the %s is stored as `%s`: the digest must cover exactly the UTF-8 bytes of the text given, not a transformed text' % (slot, t))
        elif e is not None and isinstance(e, ast.Call) and isinstance(e.func, ast.Attribute) and e.func.attr == 'encode':
            r.violated('utf8:%s' % slot, site, 'the %s is encoded as `%s`, not as UTF-8' % (slot, t))
        else:
            r.undecided('utf8:%s' % slot, site, 'unrecognised storage of the %s: `%s`' % (slot, t))
    d = init.defaults().get('magic')
    r.check(d is not None and repo.fold(d, init.module) == spec.SIGNED_MESSAGE_MAGIC, 'magic-default', init.site, repr(spec.SIGNED_MESSAGE_MAGIC),
            'default magic is %r' % (repo.fold(d, init.module) if d is not None else None,))
    gh = repo.lookup_method(ci, 'GetHash')
    r.check(gh is not None and gh.cls.name in ('ImmutableSerializable', 'Serializable'), 'digest', ci.site, 'GetHash is the serialisation-based double SHA-256',
            'BitcoinMessage.GetHash resolves to %s' % (gh.qualname if gh else None))
    ser = repo.get_class('bitcoin.core.serialize.Serializable').methods['GetHash']
    b = [s for s in ser.node.body if not (isinstance(s, ast.Expr) and isinstance(s.value, ast.Constant))]
    r.check(len(b) == 1 and norm(b[0].value) == 'Hash(self.serialize())', 'digest:Hash', ser.site, 'Hash(self.serialize())', 'Serializable.GetHash is `%s`' % norm(b[-1]))


def rule_header(ctx, repo):
    r = ctx.rule('C14.L2', 'compact signature: 1 header byte 27+recid(+4 if compressed) || r:32 || s:32, written and parsed consistently', engine='LAYOUT', floor=8)
    sm = repo.get_function('bitcoin.signmessage.SignMessage')
    key, msg = sm.params
    # sig, i = key.sign_compact(message.GetHash())
    call = None
    for n in walk_no_nested(sm.node):
        if isinstance(n, ast.Assign) and isinstance(n.value, ast.Call) and norm(n.value.func) == '%s.sign_compact' % key:
            call = n
    if call is None or not isinstance(call.targets[0], ast.Tuple) or len(call.targets[0].elts) != 2:
        r.undecided('sign:call', sm.site, 'no `sig, recid = key.sign_compact(...)`')
        return
    sigv, recv = [norm(x) for x in call.targets[0].elts]
    r.check(norm(call.value.args[0]) == '%s.GetHash()' % msg, 'sign:digest', common.site_of(sm, call), 'signs message.GetHash()', 'signs `%s`' % norm(call.value.args[0]))
    # meta = 27 + i ; if key.is_compressed: meta += 4
    base = None
    plus = []
    metav = None
    for n in walk_no_nested(sm.node):
        if isinstance(n, ast.Assign) and isinstance(n.targets[0], ast.Name) and c20.canon(n.value) == c20.canon(ast.parse('27 + %s' % recv, mode='eval').body):
            metav = n.targets[0].id
            base = n
    if metav is None:
        r.violated('sign:header-base', sm.site, 'header byte is not computed as 27 + recovery id')
        return
    r.ok('sign:header-base', common.site_of(sm, base), '27 + recid')
    for n in walk_no_nested(sm.node):
        if isinstance(n, ast.If):
            for b in n.body:
                if isinstance(b, ast.AugAssign) and norm(b.target) == metav and isinstance(b.op, ast.Add):
                    plus.append((norm(n.test), repo.fold(b.value, sm.module)))
    r.check(plus == [('%s.is_compressed' % key, 4)], 'sign:header-compressed', sm.site, '+4 iff the key is compressed', 'compression flag handling is %s' % plus)
    rets = [n for n in walk_no_nested(sm.node) if isinstance(n, ast.Return)]
    r.check(len(rets) == 1 and norm(rets[0].value) == 'base64.b64encode(bytes([%s]) + %s)' % (metav, sigv), 'sign:frame', sm.site, 'base64(header || r || s)',
            'SignMessage returns `%s`' % (norm(rets[0].value) if rets else None))
    # parser
    rc = repo.get_function('bitcoin.core.key.CPubKey.recover_compact')
    hv, sv = rc.params[1], rc.params[2]
    guards = [norm(n.test) for n in walk_no_nested(rc.node) if isinstance(n, ast.If)]
    r.check('len(%s) != 65' % sv in guards, 'parse:length', rc.site, 'exactly 65 bytes', 'recover_compact does not insist on 65 bytes (guards: %s)' % guards)
    defs = {norm(n.targets[0]): n.value for n in walk_no_nested(rc.node) if isinstance(n, ast.Assign) and len(n.targets) == 1}
    want = {'recid': '(%s[0] - 27) & 3' % sv, 'compressed': '(%s[0] - 27) & 4 != 0' % sv, 'sigR': '%s[1:33]' % sv, 'sigS': '%s[33:65]' % sv}
    for k, w in want.items():
        got = norm(defs[k]) if k in defs else None
        w = norm(ast.parse(w, mode='eval').body)
        r.check(got == w, 'parse:%s' % k, rc.site, w, '%s is parsed as `%s`, the frame written by SignMessage needs `%s`' % (k, got, w))
    # what the recovery is called with
    calls = [n for n in walk_no_nested(rc.node) if isinstance(n, ast.Call) and isinstance(n.func, ast.Attribute) and n.func.attr == 'recover']
    ok = len(calls) == 1 and [norm(a) for a in calls[0].args[:5]] == ['sigR', 'sigS', hv, 'len(%s)' % hv, 'recid']
    r.check(ok, 'parse:recover-args', rc.site, 'recover(r, s, digest, len, recid)', 'recover is called with %s' % ([norm(a) for a in calls[0].args] if calls else None))
    setc = [norm(n) for n in walk_no_nested(rc.node) if isinstance(n, ast.Call) and isinstance(n.func, ast.Attribute) and n.func.attr == 'set_compressed']
    r.check(len(setc) == 1 and setc[0].endswith('.set_compressed(compressed)'), 'parse:compression', rc.site, 'recovered key serialised in the signer\'s form', 'set_compressed calls: %s' % setc)


def rule_verify(ctx, repo):
    r = ctx.rule('C14.V1', 'VerifyMessage compares the P2PKH address text of the recovered key with the address text given', engine='MODEL', floor=4)
    vm = repo.get_function('bitcoin.signmessage.VerifyMessage')
    addr, msg, sig = vm.params
    defs = {}
    for n in walk_no_nested(vm.node):
        if isinstance(n, ast.Assign) and len(n.targets) == 1:
            defs.setdefault(norm(n.targets[0]), []).append(norm(n.value))
    r.check(defs.get(sig) == ['base64.b64decode(%s)' % sig], 'decode', vm.site, 'base64 decoded', 'signature handling: %s' % defs.get(sig))
    hv = [k for k, v in defs.items() if v == ['%s.GetHash()' % msg]]
    r.check(len(hv) == 1, 'digest', vm.site, 'digest = message.GetHash()', 'no `x = message.GetHash()`')
    pk = [k for k, v in defs.items() if hv and v == ['CPubKey.recover_compact(%s, %s)' % (hv[0], sig)]]
    r.check(len(pk) == 1, 'recover', vm.site, 'key recovered from (digest, signature)', 'recovery call not found: %s' % defs)
    rets = [n for n in walk_no_nested(vm.node) if isinstance(n, ast.Return)]
    if pk and len(rets) == 1:
        want = {'str(P2PKHBitcoinAddress.from_pubkey(%s)) == str(%s)' % (pk[0], addr), 'str(%s) == str(P2PKHBitcoinAddress.from_pubkey(%s))' % (addr, pk[0])}
        rv = rets[0].value
        if norm(rv) in want:
            r.ok('compare', common.site_of(vm, rets[0]), 'address text equality (version byte and checksum included)')
        elif isinstance(rv, ast.Compare) and not all(isinstance(x, ast.Call) and norm(x.func) == 'str' for x in [rv.left] + list(rv.comparators)):
            r.violated('compare', common.site_of(vm, rets[0]), 'VerifyMessage returns `%s`: comparing address objects compares only the 20-byte payload, so an address of another type with the same hash verifies' % norm(rv))
        else:
            r.undecided('compare', common.site_of(vm, rets[0]), 'unrecognised comparison `%s`' % norm(rv))
        fv = repo.fold(ast.parse('P2PKHBitcoinAddress', mode='eval').body, vm.module)
        r.check(isinstance(fv, ClassRef) and fv.info.qualname == 'bitcoin.wallet.P2PKHBitcoinAddress', 'compare:class', vm.site, 'P2PKH address class', 'P2PKHBitcoinAddress resolves to %r' % (fv,))
    else:
        r.violated('compare', vm.site, 'VerifyMessage does not end in a single comparison')


def rule_recid_search(ctx, repo):
    r = ctx.rule('C14.S1', 'sign_compact: r and s padded to 32 bytes; recid search compares keys in the same (compressed) encoding; delegation from CKey', engine='MODEL', floor=4)
    sc = repo.get_function('bitcoin.core.key.CECKey.sign_compact')
    # padding
    defs = {}
    for n in walk_no_nested(sc.node):
        if isinstance(n, ast.Assign) and len(n.targets) == 1:
            defs.setdefault(norm(n.targets[0]), []).append(norm(n.value))
    for v in ('r_val', 's_val'):
        last = defs.get(v, [None])[-1]
        r.check(last == "(b'\\x00' * 32 + %s)[-32:]" % v, 'pad:%s' % v, sc.site, 'left-padded to 32 bytes', '%s is finally `%s`' % (v, last))
    # comparison inside the recid loop
    cmp_ = None
    for n in walk_no_nested(sc.node):
        if isinstance(n, ast.For):
            for m in ast.walk(n):
                if isinstance(m, ast.Compare) and 'get_pubkey()' in norm(m):
                    cmp_ = m
            rng = norm(n.iter)
            r.check(rng in ('range(0, 4)', 'range(4)'), 'recid-range', common.site_of(sc, n), 'recid in 0..3', 'recid search over `%s`' % rng)
    if cmp_ is None:
        r.undecided('recid-compare', sc.site, 'no key comparison in the recid loop')
    else:
        sides = [cmp_.left] + list(cmp_.comparators)
        bad = []
        for s in sides:
            m = re.match(r'^(\w+)\.get_pubkey\(\)$', norm(s))
            if not m:
                bad.append(norm(s))
                continue
            obj = m.group(1)
            setc = [norm(n) for n in walk_no_nested(sc.node) if isinstance(n, ast.Call) and norm(n.func) == '%s.set_compressed' % obj]
            if setc != ['%s.set_compressed(True)' % obj]:
                bad.append('%s (conversion form: %s)' % (norm(s), setc or 'as configured by the caller'))
        r.check(not bad, 'recid-compare', common.site_of(sc, cmp_), 'both keys serialised compressed',
                'the recid search compares a compressed recovered key with %s: for an uncompressed signer no recid ever matches and signing raises ValueError' % bad)
    rets = [norm(n.value) for n in walk_no_nested(sc.node) if isinstance(n, ast.Return)]
    r.check(rets == ['(r_val + s_val, i)'], 'result', sc.site, '(r || s, recid)', 'sign_compact returns %s' % rets)
    ck = repo.get_function('bitcoin.wallet.CKey.sign_compact')
    rets = [norm(n.value) for n in walk_no_nested(ck.node) if isinstance(n, ast.Return)]
    r.check(rets == ['self._cec_key.sign_compact(%s)' % ck.params[1]], 'CKey.sign_compact', ck.site, 'delegates to the EC key', 'CKey.sign_compact returns %s' % rets)
    ic = repo.functions.get('bitcoin.core.key.CPubKey.is_compressed')
    if ic is not None:
        rets = [norm(n.value) for n in walk_no_nested(ic.node) if isinstance(n, ast.Return)]
        r.check(rets == ['len(self) == 33'], 'is_compressed', ic.site, 'len == 33', 'CPubKey.is_compressed is %s' % rets)
