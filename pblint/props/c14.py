"""C14 Signed messages verify for the signer's address and for nothing else."""
import ast
import re

from ..model import UNKNOWN, ClassRef, FuncRef, norm, walk_no_nested
from ..layout import LayoutEngine, Undecided
from .. import common, spec, flow
from ..spec import vb
from . import c04, c20


def run(ctx):
    repo = ctx.repo
    eng = LayoutEngine(repo)
    rule_digest(ctx, repo, eng)
    rule_header(ctx, repo)
    rule_verify(ctx, repo)
    rule_recid_search(ctx, repo)
    rp = ctx.rule('C14.P1', 'the address version used when verifying follows the selected chain (read at call time)', engine='OWN', floor=1)
    common.rule_call_time_params(rp, repo, files={'bitcoin/wallet.py', 'bitcoin/signmessage.py'})
    c04.common_hash_rule(ctx, repo, 'C14.H1')
    rule_recid_split(ctx, repo)
    r_ = ctx.rule('C14.I2', 'the compact signature is indexed only behind its length test', engine='GUARD', floor=1)
    fs_ = [f for q, f in sorted(repo.functions.items()) if q.startswith(('bitcoin.core.key.CPubKey.recover_compact', 'bitcoin.core.key.CECKey.recover', 'bitcoin.signmessage.'))]
    common.const_index_instances(r_, repo, fs_, what='a signature of another length raises IndexError instead of being refused')
    # signing a message must leave the key as it was: the header byte and the recid search are about the key's own
    # encoding, and the address the verifier derives depends on it
    from . import c13
    c13.rule_no_self_mutation(ctx, repo)
    ctx.rules[-1].id = 'C14.K2'
    for i_ in ctx.rules[-1].instances:
        i_.rule = 'C14.K2'
    ctx.not_decided += ['public-key recovery mathematics (libcrypto)', 'that a different key or message yields a different recovered key (ECDSA)']
    ctx.assume('libcrypto implements SEC1 recovery; base64 is lossless')


def rule_recid_split(ctx, repo):
    """SEC1 4.1.6: the recovery id is two numbers - j = recid // 2 selects x = r + j*n, recid % 2 the parity of y.  Both are
    taken apart in Python before libcrypto does the mathematics; decided as arithmetic normal forms."""
    from ..rules import canon_arith
    r = ctx.rule('C14.R1', 'CECKey.recover splits the recovery id as SEC1 does: x-offset recid // 2, y parity recid % 2', engine='RULES', floor=2)
    fi = repo.get_function('bitcoin.core.key.CECKey.recover')
    rid = fi.params[5] if len(fi.params) > 5 else 'recid'

    def ca(e):
        # int(a / 2**k) on a small non-negative integer is a // 2**k
        class T(ast.NodeTransformer):
            def visit_Call(self, n):
                n = self.generic_visit(n)
                if isinstance(n.func, ast.Name) and n.func.id == 'int' and len(n.args) == 1 and isinstance(n.args[0], ast.BinOp) and isinstance(n.args[0].op, ast.Div):
                    return ast.BinOp(left=n.args[0].left, op=ast.FloorDiv(), right=n.args[0].right)
                return n
        try:
            return str(canon_arith(T().visit(ast.parse(ast.unparse(e), mode='eval').body)))
        except Exception:
            return norm(e)
    # the multiplier of the group order
    mul = [c for c in common.iter_calls(fi.node) if norm(c.func) == '_ssl.BN_mul_word' and len(c.args) == 2]
    if len(mul) != 1:
        r.undecided('x-offset', fi.site, 'no single BN_mul_word(x, j)')
    else:
        j = common.resolved(fi, mul[0].args[1], repo)
        want = ca(ast.parse('%s // 2' % rid, mode='eval').body)
        got = ca(j)
        if got == want:
            r.ok('x-offset', common.site_of(fi, mul[0]), 'x = r + (recid // 2) * n')
        elif rid in norm(j):
            r.violated('x-offset', common.site_of(fi, mul[0]), 'the group order is multiplied by `%s`; SEC1: j = recid // 2 (recovery ids 2 and 3 select x = r + n)' % norm(j))
        else:
            r.undecided('x-offset', common.site_of(fi, mul[0]), 'the multiplier of the group order is `%s`' % norm(j))
    par = [c for c in common.iter_calls(fi.node) if 'set_compressed_coordinates' in norm(c.func)]
    if len(par) != 1 or len(par[0].args) < 4:
        r.undecided('y-parity', fi.site, 'no single EC_POINT_set_compressed_coordinates call')
    else:
        y = common.resolved(fi, par[0].args[3], repo)
        if ca(y) == ca(ast.parse(rid + ' % 2', mode='eval').body):
            r.ok('y-parity', common.site_of(fi, par[0]), 'y parity = recid % 2')
        elif rid in norm(y):
            r.violated('y-parity', common.site_of(fi, par[0]), 'the y parity handed to libcrypto is `%s`; SEC1: recid % 2' % norm(y))
        else:
            r.undecided('y-parity', common.site_of(fi, par[0]), 'the y parity handed to libcrypto is `%s`' % norm(y))


def rule_digest(ctx, repo, eng):
    r = ctx.rule('C14.L1', 'digest input = varbytes(magic) || varbytes(utf8(message)); magic constant; digest is the double SHA-256 of that', engine='LAYOUT', floor=6)
    ci = repo.get_class('bitcoin.signmessage.BitcoinMessage')
    common.rule_vs_spec(r, repo, eng, ci, [vb('magic'), vb('message')], sides=('writer',))
    init = repo.lookup_method(ci, '__init__')
    stores = {}
    for n in walk_no_nested(init.node):
        if isinstance(n, ast.Call) and norm(n.func) == 'object.__setattr__' and len(n.args) == 3 and isinstance(n.args[1], ast.Constant):
            stores[n.args[1].value] = n.args[2]
    for slot in ('message', 'magic'):
        e = stores.get(slot)
        t = norm(e) if e is not None else None
        ok = t in ("%s.encode('utf-8')" % slot, "%s.encode('utf8')" % slot, "%s.encode()" % slot)
        site = common.site_of(init, e) if e is not None else init.site
        if ok:
            r.ok('utf8:%s' % slot, site, 'stored as the UTF-8 encoding of the text given')
        elif e is not None and isinstance(e, ast.Call) and isinstance(e.func, ast.Attribute) and e.func.attr == 'encode' and norm(e.func.value) != slot:
            r.violated('utf8:%s' % slot, site, 'the %s is stored as `%s`: the digest must cover exactly the UTF-8 bytes of the text given, not a transformed text' % (slot, t))
        elif e is not None and isinstance(e, ast.Call) and isinstance(e.func, ast.Attribute) and e.func.attr == 'encode':
            r.violated('utf8:%s' % slot, site, 'the %s is encoded as `%s`, not as UTF-8' % (slot, t))
        else:
            r.undecided('utf8:%s' % slot, site, 'unrecognised storage of the %s: `%s`' % (slot, t))
    d = init.defaults().get('magic')
    r.check(d is not None and repo.fold(d, init.module) == spec.SIGNED_MESSAGE_MAGIC, 'magic-default', init.site, repr(spec.SIGNED_MESSAGE_MAGIC),
            'default magic is %r' % (repo.fold(d, init.module) if d is not None else None,))
    gh = repo.lookup_method(ci, 'GetHash')
    r.check(gh is not None and gh.cls.name in ('ImmutableSerializable', 'Serializable'), 'digest', ci.site, 'GetHash is the serialisation-based double SHA-256',
            'BitcoinMessage.GetHash resolves to %s' % (gh.qualname if gh else None))
    ser = repo.get_class('bitcoin.core.serialize.Serializable').methods['GetHash']
    b = [s for s in ser.node.body if not (isinstance(s, ast.Expr) and isinstance(s.value, ast.Constant))]
    r.check(len(b) == 1 and norm(b[0].value) == 'Hash(self.serialize())', 'digest:Hash', ser.site, 'Hash(self.serialize())', 'Serializable.GetHash is `%s`' % norm(b[-1]))


def rule_header(ctx, repo):
    r = ctx.rule('C14.L2', 'compact signature: 1 header byte 27+recid(+4 if compressed) || r:32 || s:32, written and parsed consistently', engine='LAYOUT', floor=8)
    sm = repo.get_function('bitcoin.signmessage.SignMessage')
    key, msg = sm.params
    # sig, i = key.sign_compact(message.GetHash())
    call = None
    for n in walk_no_nested(sm.node):
        if isinstance(n, ast.Assign) and isinstance(n.value, ast.Call) and norm(n.value.func) == '%s.sign_compact' % key:
            call = n
    if call is None or not isinstance(call.targets[0], ast.Tuple) or len(call.targets[0].elts) != 2:
        r.undecided('sign:call', sm.site, 'no `sig, recid = key.sign_compact(...)`')
        return
    sigv, recv = [norm(x) for x in call.targets[0].elts]
    r.check(norm(call.value.args[0]) == '%s.GetHash()' % msg, 'sign:digest', common.site_of(sm, call), 'signs message.GetHash()', 'signs `%s`' % norm(call.value.args[0]))
    # the frame, read along both values of key.is_compressed: base64(bytes([27 + recid (+4)]) + sig)
    from ..table import Tracer
    from ..rules import canon_arith, equiv as _equiv
    flag = '%s.is_compressed' % key
    frames = {}
    for comp in (True, False):
        tr = Tracer(repo, sm.module, atom=lambda e, p, comp=comp: comp if norm(e) in (flag, flag + '()') else None)
        ps = [p for p in tr.trace(sm.node.body, {}) if p.end == 'return']
        if len(ps) != 1:
            r.undecided('sign:frame', sm.site, 'SignMessage has %d returning paths for is_compressed=%s' % (len(ps), comp))
            return
        pd = common.path_defs(ps[0])
        v_ = common.resolved(sm, ps[0].endnode.value, repo, defs=pd)
        # a conditional expression on the flag resolves to its arm
        class T(ast.NodeTransformer):
            def visit_IfExp(self, n):
                self.generic_visit(n)
                if norm(n.test) in (flag, flag + '()'):
                    return n.body if comp else n.orelse
                return n
        v_ = ast.fix_missing_locations(T().visit(v_))
        frames[comp] = v_
    ok = {}
    for comp in (True, False):
        want = 'base64.b64encode(bytes([27 + %s%s]) + %s)' % (recv, ' + 4' if comp else '', sigv)
        ok[comp] = canon_arith(frames[comp]) == canon_arith(want)
    if ok[True] and ok[False]:
        r.ok('sign:header-base', sm.site, '27 + recid')
        r.ok('sign:header-compressed', sm.site, '+4 iff the key is compressed')
        r.ok('sign:frame', sm.site, 'base64(header || r || s)')
    else:
        texts = {c: ast.unparse(frames[c])[:120] for c in frames}
        shaped = all('b64encode' in t for t in texts.values())
        if shaped:
            r.violated('sign:header-base' if not ok[False] else 'sign:header-compressed', sm.site,
                       'SignMessage frames the signature as `%s` for an uncompressed key and `%s` for a compressed one; the format is base64(bytes([27 + recid (+4 iff compressed)]) + r||s)' % (texts[False], texts[True]))
        else:
            r.undecided('sign:frame', sm.site, 'SignMessage returns `%s`' % texts)
    # parser
    rc = repo.get_function('bitcoin.core.key.CPubKey.recover_compact')
    hv, sv = rc.params[1], rc.params[2]
    from ..rules import canon_guard as _cg, canon_text as _ct
    guards = [_cg(n.test, repo, rc.module) for n in walk_no_nested(rc.node) if isinstance(n, ast.If) and flow.always_raises(n.body)]
    r.check(_ct('len(%s) != 65' % sv) in guards, 'parse:length', rc.site, 'exactly 65 bytes', 'recover_compact does not insist on 65 bytes (guards: %s)' % guards)
    # what the recovery is called with, with the locals resolved: recover(r, s, digest, len(digest), recid)
    calls = [n for n in walk_no_nested(rc.node) if isinstance(n, ast.Call) and isinstance(n.func, ast.Attribute) and n.func.attr == 'recover']
    if len(calls) != 1 or len(calls[0].args) < 5:
        r.undecided('parse:recover-args', rc.site, 'no single recover(...) call')
    else:
        a = calls[0].args
        # behind the 65-byte test the signature's length is known: sig[33:] and sig[33:65], sig[-32:] ... are one slice
        exact = _ct('len(%s) != 65' % sv) in guards

        def fixed(e_):
            e_ = common.resolved(rc, e_, repo)
            return common.fix_length(e_, sv, 65) if exact else e_
        for k_, e_, w_ in (('sigR', a[0], '%s[1:33]' % sv), ('sigS', a[1], '%s[33:65]' % sv), ('recid', a[4], '(%s[0] - 27) & 3' % sv)):
            common.verdict3(r, 'parse:%s' % k_, common.site_of(rc, calls[0]), repo, rc, fixed(e_), w_, k_)
        ok = common.value_match(repo, rc, a[2], hv) == 'same' and common.value_match(repo, rc, a[3], 'len(%s)' % hv) == 'same'
        r.check(ok, 'parse:recover-args', common.site_of(rc, calls[0]), 'recover(r, s, digest, len, recid)', 'recover is called with %s' % [norm(x) for x in a])
    setc = [n for n in walk_no_nested(rc.node) if isinstance(n, ast.Call) and isinstance(n.func, ast.Attribute) and n.func.attr == 'set_compressed']
    if len(setc) != 1 or len(setc[0].args) != 1:
        r.violated('parse:compression', rc.site, 'set_compressed calls: %s' % [norm(x) for x in setc])
    else:
        ce = common.resolved(rc, setc[0].args[0], repo)
        v_ = _equiv(ce, '(%s[0] - 27) & 4 != 0' % sv)
        if v_ is True:
            r.ok('parse:compressed', common.site_of(rc, setc[0]), 'bit 2 of (header - 27)')
            r.ok('parse:compression', common.site_of(rc, setc[0]), 'recovered key serialised in the signer\'s form')
        elif v_ is False or '[0]' in norm(ce):
            r.violated('parse:compressed', common.site_of(rc, setc[0]), 'compressed is parsed as `%s`, the frame written by SignMessage needs `(%s[0] - 27) & 4 != 0`' % (norm(ce), sv))
        else:
            r.undecided('parse:compressed', common.site_of(rc, setc[0]), 'compressed is parsed as `%s`' % norm(ce))


def rule_verify(ctx, repo):
    r = ctx.rule('C14.V1', 'VerifyMessage compares the P2PKH address text of the recovered key with the address text given', engine='MODEL', floor=4)
    vm = repo.get_function('bitcoin.signmessage.VerifyMessage')
    addr, msg, sig = vm.params
    rets = [n for n in walk_no_nested(vm.node) if isinstance(n, ast.Return)]
    # the recovery call with its arguments traced back: digest = message.GetHash(), signature = base64-decoded text
    rcalls = [c for c in common.iter_calls(vm.node) if norm(c.func) == 'CPubKey.recover_compact' and len(c.args) == 2]
    assigned = {}
    for n in walk_no_nested(vm.node):
        if isinstance(n, ast.Assign) and len(n.targets) == 1 and isinstance(n.targets[0], ast.Name):
            assigned.setdefault(n.targets[0].id, []).append(n.value)

    def origin(e):
        for _ in range(4):
            if isinstance(e, ast.Name) and len(assigned.get(e.id, [])) == 1:
                e = assigned[e.id][0]
            else:
                break
        return norm(e)
    if len(rcalls) != 1:
        r.violated('recover', vm.site, 'recovery call not found')
        pk = []
    else:
        r.check(origin(rcalls[0].args[1]) == 'base64.b64decode(%s)' % sig, 'decode', vm.site, 'base64 decoded', 'signature handling: recover_compact is given `%s`' % origin(rcalls[0].args[1]))
        r.check(origin(rcalls[0].args[0]) == '%s.GetHash()' % msg, 'digest', vm.site, 'digest = message.GetHash()', 'recover_compact is given the digest `%s`' % origin(rcalls[0].args[0]))
        r.ok('recover', common.site_of(vm, rcalls[0]), 'key recovered from (digest, signature)')
        pk = [norm(rcalls[0])]
    if pk and len(rets) == 1:
        rv = rets[0].value
        rtext = ast.unparse(common.resolved(vm, rv, repo, defs={k: v[0] for k, v in assigned.items() if len(v) == 1 and k not in vm.params}))
        inner = 'P2PKHBitcoinAddress.from_pubkey('
        want_shapes = (rtext.startswith('str(' + inner) and rtext.endswith(') == str(%s)' % addr)) or (rtext.startswith('str(%s) == str(' % addr + inner))
        if want_shapes and 'recover_compact' in rtext:
            r.ok('compare', common.site_of(vm, rets[0]), 'address text equality (version byte and checksum included)')
        elif isinstance(rv, ast.Compare) and not all(isinstance(x, ast.Call) and norm(x.func) == 'str' for x in [rv.left] + list(rv.comparators)):
            r.violated('compare', common.site_of(vm, rets[0]), 'VerifyMessage returns `%s`: comparing address objects compares only the 20-byte payload, so an address of another type with the same hash verifies' % norm(rv))
        else:
            r.undecided('compare', common.site_of(vm, rets[0]), 'unrecognised comparison `%s`' % rtext[:120])
        fv = repo.fold(ast.parse('P2PKHBitcoinAddress', mode='eval').body, vm.module)
        r.check(isinstance(fv, ClassRef) and fv.info.qualname == 'bitcoin.wallet.P2PKHBitcoinAddress', 'compare:class', vm.site, 'P2PKH address class', 'P2PKHBitcoinAddress resolves to %r' % (fv,))
    else:
        r.violated('compare', vm.site, 'VerifyMessage does not end in a single comparison')


def rule_recid_search(ctx, repo):
    r = ctx.rule('C14.S1', 'sign_compact: r and s padded to 32 bytes; recid search compares keys in the same (compressed) encoding; delegation from CKey', engine='MODEL', floor=4)
    sc = repo.get_function('bitcoin.core.key.CECKey.sign_compact')
    # padding
    defs = {}
    for n in walk_no_nested(sc.node):
        if isinstance(n, ast.Assign) and len(n.targets) == 1:
            defs.setdefault(norm(n.targets[0]), []).append(norm(n.value))
    for v in ('r_val', 's_val'):
        last = defs.get(v, [None])[-1]
        goods = ("(b'\\x00' * 32 + %s)[-32:]" % v, "%s.rjust(32, b'\\x00')[-32:]" % v, "%s.rjust(32, b'\\x00')" % v, "(bytes(32) + %s)[-32:]" % v)
        if last in goods:
            r.ok('pad:%s' % v, sc.site, 'left-padded to 32 bytes')
        elif last is not None and (v in last and ('32' in last or '31' in last or '33' in last)):
            r.violated('pad:%s' % v, sc.site, '%s is finally `%s`; the frame needs it left-padded with zero bytes to exactly 32' % (v, last))
        else:
            r.undecided('pad:%s' % v, sc.site, '%s is finally `%s`' % (v, last))
    # comparison inside the recid loop (a side may be a local holding `<key>.get_pubkey()` taken before the loop)
    ldefs = common.local_defs(sc)

    def pk_resolved(m):
        m = ast.parse(ast.unparse(m), mode='eval').body
        for n_ in ast.walk(m):
            pass

        class T(ast.NodeTransformer):
            def visit_Name(self, n):
                d = ldefs.get(n.id)
                if isinstance(n.ctx, ast.Load) and isinstance(d, ast.Call) and isinstance(d.func, ast.Attribute) and d.func.attr == 'get_pubkey' and not d.args:
                    return ast.parse(ast.unparse(d), mode='eval').body
                return n
        return ast.fix_missing_locations(T().visit(m))
    cmp_ = None
    for n in walk_no_nested(sc.node):
        if isinstance(n, ast.For):
            for m in ast.walk(n):
                if isinstance(m, ast.Compare) and 'get_pubkey()' in norm(pk_resolved(m)):
                    cmp_ = pk_resolved(m)
            rng = norm(n.iter)
            if not any(isinstance(m, ast.Compare) and 'get_pubkey()' in norm(pk_resolved(m)) for m in ast.walk(n)):
                continue
            r.check(repo.fold(n.iter, sc.module) == range(0, 4), 'recid-range', common.site_of(sc, n), 'recid in 0..3', 'recid search over `%s`' % rng)
    if cmp_ is None:
        r.undecided('recid-compare', sc.site, 'no key comparison in the recid loop')
    else:
        sides = [cmp_.left] + list(cmp_.comparators)
        bad = []
        for s in sides:
            m = re.match(r'^(\w+)\.get_pubkey\(\)$', norm(s))
            if not m:
                bad.append(norm(s))
                continue
            obj = m.group(1)
            setc = [norm(n) for n in walk_no_nested(sc.node) if isinstance(n, ast.Call) and norm(n.func) == '%s.set_compressed' % obj]
            if setc != ['%s.set_compressed(True)' % obj]:
                bad.append('%s (conversion form: %s)' % (norm(s), setc or 'as configured by the caller'))
        r.check(not bad, 'recid-compare', common.site_of(sc, cmp_), 'both keys serialised compressed',
                'the recid search compares a compressed recovered key with %s: for an uncompressed signer no recid ever matches and signing raises ValueError' % bad)
    loopvars = [n.target.id for n in walk_no_nested(sc.node) if isinstance(n, ast.For) and isinstance(n.target, ast.Name)]
    rets = [norm(n.value) for n in walk_no_nested(sc.node) if isinstance(n, ast.Return)]
    r.check(len(rets) == 1 and rets[0] in ['(r_val + s_val, %s)' % lv for lv in loopvars], 'result', sc.site, '(r || s, recid)', 'sign_compact returns %s' % rets)
    ck = repo.get_function('bitcoin.wallet.CKey.sign_compact')
    common.verdict3(r, 'CKey.sign_compact', ck.site, repo, ck, common.returned_value(ck), 'self._cec_key.sign_compact(%s)' % ck.params[1], 'CKey.sign_compact returns')
    ic = repo.functions.get('bitcoin.core.key.CPubKey.is_compressed')
    if ic is not None:
        from ..rules import equiv_folded as _ef
        e_ = common.return_expr(ic, inline_locals=True)
        r.check(e_ is not None and _ef(e_, repo, ic.module, 'len(self) == 33', cls=ic.cls) is True, 'is_compressed', ic.site, 'len == 33', 'CPubKey.is_compressed is %s' % (norm(e_) if e_ is not None else None))
