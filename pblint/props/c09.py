"""C09 Value semantics: immutables never change, mutables never serve stale identity (all rules OWN)."""
import ast
import re

from ..model import UNKNOWN, ClassRef, FuncRef, ClassInfo, AnalysisError, norm, walk_no_nested
from ..layout import LayoutEngine
from ..resolve import Resolver
from ..own import ReadOnly
from .. import common, flow

IMM_BASE = 'bitcoin.core.serialize.ImmutableSerializable'
SER_BASE = 'bitcoin.core.serialize.Serializable'

# slot-kind table (confirmed by reading): every slot of every immutable class.  An unknown new slot is exit 2.
#   int / bytes : immutable by type.   obj:<Class> : a nested library object.   seq:<elem> : a sequence of elements
SLOT_KINDS = {
    'COutPoint': {'hash': 'bytes', 'n': 'int'},
    'CTxIn': {'prevout': 'obj:COutPoint', 'scriptSig': 'bytes', 'nSequence': 'int'},
    'CTxOut': {'nValue': 'int', 'scriptPubKey': 'bytes'},
    'CTxInWitness': {'scriptWitness': 'obj:CScriptWitness'},
    'CTxWitness': {'vtxinwit': 'seq:CTxInWitness'},
    'CScriptWitness': {'stack': 'seq:bytes'},
    'CTransaction': {'nVersion': 'int', 'vin': 'seq:CTxIn', 'vout': 'seq:CTxOut', 'nLockTime': 'int', 'wit': 'obj:CTxWitness'},
    'CBlockHeader': {'nVersion': 'int', 'hashPrevBlock': 'bytes', 'hashMerkleRoot': 'bytes', 'nTime': 'int', 'nBits': 'int', 'nNonce': 'int'},
    'CBlock': {'vtx': 'seq:CTransaction', 'vMerkleTree': 'seq:bytes', 'vWitnessMerkleTree': 'seq:bytes'},
    'DERSignature': {'length': 'int', 'r': 'bytes', 's': 'bytes'},
    'BitcoinMessage': {'magic': 'bytes', 'message': 'bytes'},
}


def is_make_mutable(d):
    return isinstance(d, ast.Name) and d.id.endswith('__make_mutable')


def classes(repo):
    base = repo.get_class(IMM_BASE)
    imm, mut = [], []
    for c in sorted(repo.classes.values(), key=lambda c: c.qualname):
        if c is base or not repo.is_subclass(c, base):
            continue
        if any(is_make_mutable(d) for d in c.decorators):
            mut.append(c)
        else:
            imm.append(c)
    return base, imm, mut


def has_mutable_twin(repo, ci, mut):
    return any(repo.is_subclass(m, ci) for m in mut)


def run(ctx):
    repo = ctx.repo
    eng = LayoutEngine(repo)
    base, imm, mut = classes(repo)
    rule_R1(ctx, repo, base, imm)
    rule_R2(ctx, repo, base, imm, mut)
    rule_R3(ctx, repo, base, imm, mut)
    rule_R4(ctx, repo, base, imm, mut)
    rule_R5(ctx, repo, eng, imm, mut)
    rule_R6(ctx, repo, eng, imm, mut)
    rule_R7(ctx, repo, imm, mut)
    rule_R8(ctx, repo, eng)
    # equality / identifiers of the same value must not depend on which of the two classes holds it (C02's obligations)
    from . import c02
    c02.rule_T5(ctx, repo)
    ctx.rules[-1].id = 'C09.T5'
    for i_ in ctx.rules[-1].instances:
        i_.rule = 'C09.T5'
    c02.rule_T3(ctx, repo, eng)
    ctx.rules[-1].id = 'C09.T3'
    for i_ in ctx.rules[-1].instances:
        i_.rule = 'C09.T3'
    ctx.assume('Python object model: __slots__ classes without __dict__, tuple/bytes/int are immutable')
    ctx.not_decided += ['interleavings as such: decided through ownership (who may write, what is copied, what is cached)']


# ------------------------------------------------------------------------------------------------ R1
def rule_R1(ctx, repo, base, imm):
    r = ctx.rule('C09.R1', 'immutable classes resolve __setattr__/__delattr__ to unconditionally raising versions', engine='OWN', floor=22)
    for c in imm:
        for m in ('__setattr__', '__delattr__'):
            fi = repo.lookup_method(c, m)
            key = '%s.%s' % (c.name, m)
            if fi is None:
                r.violated(key, c.site, '%s does not resolve %s to a raising implementation (plain object semantics apply)' % (c.name, m))
                continue
            body = [s for s in fi.node.body if not (isinstance(s, ast.Expr) and isinstance(s.value, ast.Constant))]
            ok = bool(body) and isinstance(body[0], ast.Raise) and body[0].exc is not None and norm(body[0].exc).startswith('AttributeError')
            r.check(ok, key, fi.site, 'resolves to %s which raises AttributeError unconditionally' % fi.qualname,
                    '%s resolves to %s which does not raise AttributeError unconditionally' % (key, fi.qualname))
        # no class-level rebinding of the hooks outside the decorator
        for nm in ('__setattr__', '__delattr__'):
            if nm in c.attrs:
                r.violated('%s.%s:class-attr' % (c.name, nm), c.site, '%s rebinds %s in its class body' % (c.name, nm))


# ------------------------------------------------------------------------------------------------ R2
def setattr_sites(repo):
    out = []
    for fi in repo.functions.values():
        for n in walk_no_nested(fi.node):
            if isinstance(n, ast.Call) and norm(n.func) in ('object.__setattr__', 'object.__delattr__') and n.args:
                out.append((fi, n))
    return out


def rule_R2(ctx, repo, base, imm, mut):
    r = ctx.rule('C09.R2', 'object.__setattr__ is used only on self in __init__, on cache slots, and on the fresh object of CBlock.stream_deserialize',
                 engine='OWN', floor=35)
    seen = {}
    for fi, n in setattr_sites(repo):
        tgt = norm(n.args[0])
        slot = n.args[1].value if len(n.args) > 1 and isinstance(n.args[1], ast.Constant) else None
        k = '%s:%s:%s' % (fi.qualname.replace('bitcoin.', ''), tgt, slot)
        seen[k] = seen.get(k, 0) + 1
        key = k if seen[k] == 1 else '%s#%d' % (k, seen[k])
        site = common.site_of(fi, n)
        if fi.name == '__init__' and tgt == 'self':
            r.ok(key, site, 'constructor initialising its own slot')
        elif isinstance(slot, str) and slot.startswith('_cached') and tgt == 'self':
            r.ok(key, site, 'cache slot (discipline checked by R3)')
        elif fi.name == 'stream_deserialize' and fresh_object(fi, tgt):
            r.ok(key, site, 'object freshly built in this reader, before it is returned')
        else:
            r.violated(key, site, 'object.__setattr__ bypasses immutability of `%s` (slot %r) outside a constructor / cache method / reader of a fresh object' % (tgt, slot))


def fresh_object(fi, name):
    """is `name` assigned in fi from a constructor / super().stream_deserialize call (a fresh object)?"""
    for n in walk_no_nested(fi.node):
        if isinstance(n, ast.Assign) and len(n.targets) == 1 and norm(n.targets[0]) == name and isinstance(n.value, ast.Call):
            t = norm(n.value.func)
            if t.startswith('super(') and t.endswith('.stream_deserialize'):
                return True
            if t in ('cls',):
                return True
    return False


# ------------------------------------------------------------------------------------------------ R3
def cache_use(fi):
    """slots named _cached* read / written in a method -> (reads, writes)"""
    reads, writes = set(), set()
    for n in walk_no_nested(fi.node):
        if isinstance(n, ast.Attribute) and n.attr.startswith('_cached') and isinstance(n.ctx, ast.Load):
            reads.add(n.attr)
        if isinstance(n, ast.Call) and norm(n.func) == 'object.__setattr__' and len(n.args) == 3 and isinstance(n.args[1], ast.Constant) \
                and str(n.args[1].value).startswith('_cached'):
            writes.add(n.args[1].value)
        if isinstance(n, ast.Attribute) and n.attr.startswith('_cached') and isinstance(n.ctx, ast.Store):
            writes.add(n.attr)
    return reads, writes


def make_mutable_rebinds(repo):
    """attribute -> expression text assigned by the __make_mutable decorator"""
    fi = repo.functions.get('bitcoin.core.__make_mutable')
    if fi is None:
        raise AnalysisError('anchor __make_mutable not found')
    out = {}
    p = fi.params[0]
    for n in walk_no_nested(fi.node):
        if isinstance(n, ast.Assign) and len(n.targets) == 1 and isinstance(n.targets[0], ast.Attribute) and norm(n.targets[0].value) == p:
            out[n.targets[0].attr] = n.value
        # setattr(cls, 'name', impl)
        if isinstance(n, ast.Call) and norm(n.func) == 'setattr' and len(n.args) == 3 and norm(n.args[0]) == p \
                and isinstance(n.args[1], ast.Constant) and isinstance(n.args[1].value, str):
            out[n.args[1].value] = n.args[2]
        # table-driven: for name, impl in <tuple of (str, expr) pairs>: setattr(cls, name, impl)
        if isinstance(n, ast.For) and isinstance(n.target, ast.Tuple) and len(n.target.elts) == 2 and all(isinstance(x, ast.Name) for x in n.target.elts):
            kn, vn = n.target.elts[0].id, n.target.elts[1].id
            sets = [c for c in ast.walk(n) if isinstance(c, ast.Call) and norm(c.func) == 'setattr' and len(c.args) == 3
                    and norm(c.args[0]) == p and norm(c.args[1]) == kn and norm(c.args[2]) == vn]
            table = n.iter
            if isinstance(table, ast.Name):
                bl = fi.module.bindings.get(table.id) or []
                if len(bl) == 1 and bl[0][0] == 'assign':
                    table = bl[0][1]
            if sets and isinstance(table, (ast.Tuple, ast.List)):
                for pair in table.elts:
                    if isinstance(pair, (ast.Tuple, ast.List)) and len(pair.elts) == 2 and isinstance(pair.elts[0], ast.Constant) and isinstance(pair.elts[0].value, str):
                        out[pair.elts[0].value] = pair.elts[1]
                    else:
                        raise AnalysisError('__make_mutable: unrecognised entry in the override table')
    return fi, out


def effective_method(repo, m, name, rebinds, rfi):
    """implementation of `name` on a __make_mutable class: the decorator's rebinding wins over the MRO"""
    if name in rebinds:
        v = repo.fold(rebinds[name], rfi.module)
        if isinstance(v, FuncRef):
            return v.info
        return norm(rebinds[name])
    return repo.lookup_method(m, name)


def rule_R3(ctx, repo, base, imm, mut):
    r = ctx.rule('C09.R3', 'cache discipline: one slot per caching method, never effective on a mutable class', engine='OWN', floor=12)
    rfi, rebinds = make_mutable_rebinds(repo)
    # (a) every caching method reads and writes the same single slot and returns the stored value
    caching = []
    known = getattr(repo, 'known_functions', None)
    # a private method the confirmed tree does not have, called as self.<name>() from a method of the same class, is part
    # of that caller: its slot reads and writes are the caller's
    absorbed = {}
    part_of_caller = set()
    if known is not None:
        for fi in repo.functions.values():
            if fi.cls is None:
                continue
            for c in common.iter_calls(fi.node):
                if isinstance(c.func, ast.Attribute) and isinstance(c.func.value, ast.Name) and c.func.value.id in ('self', 'cls'):
                    h = repo.lookup_method(fi.cls, c.func.attr)
                    if h is not None and h.qualname not in known and h.name.startswith('_') and not h.name.startswith('__') and h is not fi:
                        absorbed.setdefault(fi.qualname, []).append(h)
                        part_of_caller.add(h.qualname)

    def cache_use_closed(fi, depth=0):
        rd, wr = cache_use(fi)
        rd, wr = set(rd), set(wr)
        if depth < 3:
            for h in absorbed.get(fi.qualname, []):
                a, b = cache_use_closed(h, depth + 1)
                rd |= a
                wr |= b
        return rd, wr
    for fi in repo.functions.values():
        if fi.cls is None:
            continue
        if fi.qualname in part_of_caller or common.inlined_away(repo, fi):
            continue
        rd, wr = cache_use_closed(fi)
        if not rd and not wr:
            continue
        caching.append(fi)
        key = 'slot:%s' % fi.qualname.replace('bitcoin.', '')
        if absorbed.get(fi.qualname) and (cache_use(fi) != (rd, wr)):
            if len(rd) == 1 and rd == wr:
                r.undecided(key, fi.site, 'the slot %s is read here and filled in the helper(s) %s: stored and returned values were not compared' % (sorted(rd), [h.name for h in absorbed[fi.qualname]]))
            else:
                r.violated(key, fi.site, 'caching method (with its helpers %s) reads slots %s but writes slots %s: another method\'s cached identifier is overwritten or never filled'
                           % ([h.name for h in absorbed[fi.qualname]], sorted(rd), sorted(wr)))
            continue
        if len(rd) == 1 and rd == wr:
            slot = list(rd)[0]
            # the value stored is the value returned
            stored = returned = None
            for n in walk_no_nested(fi.node):
                if isinstance(n, ast.Call) and norm(n.func) == 'object.__setattr__' and len(n.args) == 3:
                    stored = norm(n.args[2])
            rets = [norm(n.value) for n in walk_no_nested(fi.node) if isinstance(n, ast.Return) and n.value is not None]
            ok = stored is not None and all(x in (stored, 'self.%s' % slot) for x in rets)
            r.check(ok, key, fi.site, 'reads and fills only %s and returns it' % slot, 'caching method returns %s but stores %s' % (rets, stored))
        else:
            r.violated(key, fi.site, 'caching method reads slots %s but writes slots %s: another method\'s cached identifier is overwritten or never filled'
                       % (sorted(rd), sorted(wr)))
    # one writer per slot per class hierarchy position
    by_slot = {}
    for fi in caching:
        for s in cache_use_closed(fi)[1]:
            by_slot.setdefault(s, []).append(fi)
    for s, fis in sorted(by_slot.items()):
        names = {f.name for f in fis}
        r.check(len(names) == 1, 'writer:%s' % s, fis[0].site, 'slot %s is filled only by %s' % (s, sorted(names)),
                'slot %s is filled by different methods %s' % (s, sorted(f.qualname for f in fis)))
    # (b) on every mutable class the effective implementation of a caching method name does not use a cache
    names = sorted({f.name for f in caching})
    for m in mut:
        for nm in names:
            eff = effective_method(repo, m, nm, rebinds, rfi)
            key = 'mutable:%s.%s' % (m.name, nm)
            if eff is None or isinstance(eff, str):
                r.ok(key, m.site, 'no library implementation (%s)' % eff)
                continue
            rd, wr = cache_use(eff)
            r.check(not rd and not wr, key, eff.site, 'effective implementation %s uses no cache' % eff.qualname,
                    'mutable class %s answers %s() through %s, which serves a cached value (%s): stale after a field assignment'
                    % (m.name, nm, eff.qualname, ', '.join(sorted(rd | wr))))
    # (c) the decorator rebinds every method the immutable base overrides with a caching version, to the uncached base version
    ser = repo.get_class(SER_BASE)
    for nm, fi in sorted(base.methods.items()):
        rd, wr = cache_use(fi)
        if not (rd or wr):
            continue
        key = 'rebind:%s' % nm
        if nm not in rebinds:
            r.violated(key, rfi.site, '__make_mutable does not undo the caching %s of ImmutableSerializable' % nm)
            continue
        v = repo.fold(rebinds[nm], rfi.module)
        ok = isinstance(v, FuncRef) and v.info is ser.methods.get(nm)
        r.check(ok, key, common.site_of(rfi, rebinds[nm]), '%s rebound to Serializable.%s' % (nm, nm),
                '__make_mutable rebinds %s to `%s`, not to the uncached Serializable.%s' % (nm, norm(rebinds[nm]), nm))
    rule_cached_value_agrees(r, repo, base, ser)


def rule_cached_value_agrees(r, repo, base, ser):
    """(d) what ImmutableSerializable remembers is what Serializable computes: a mutable object answers through the uncached
    method, an immutable one of equal value through the cached one - if the two compute different things, equal objects
    get different hashes / identifiers (a dict keyed by COutPoint is then missed by the prevout of a mutable input)"""
    for nm, fi in sorted(base.methods.items()):
        rd, wr = cache_use(fi)
        twin = ser.methods.get(nm)
        if not (rd or wr) or twin is None:
            continue
        stored = None
        for n in walk_no_nested(fi.node):
            if isinstance(n, ast.Call) and norm(n.func) == 'object.__setattr__' and len(n.args) == 3:
                stored = common.resolved(fi, n.args[2], repo)
                if isinstance(stored, ast.Name):
                    # a local assigned on both arms of the try (read from the slot / computed): the computed one
                    vals = [a.value for a in walk_no_nested(fi.node) if isinstance(a, ast.Assign) and len(a.targets) == 1 and norm(a.targets[0]) == stored.id
                            and not norm(a.value).startswith('self._cached')]
                    if len(vals) == 1:
                        stored = common.resolved(fi, vals[0], repo)
        trets = [n.value for n in walk_no_nested(twin.node) if isinstance(n, ast.Return) and n.value is not None]
        key = 'agrees:%s' % nm
        if stored is None or len(trets) != 1:
            r.undecided(key, fi.site, 'cached value of %s not identified' % nm)
            continue
        st = norm(stored)
        via_super = st in ('super(ImmutableSerializable, self).%s()' % nm, 'super().%s()' % nm, 'Serializable.%s(self)' % nm)
        same = st == norm(common.resolved(twin, trets[0], repo))
        r.check(via_super or same, key, fi.site, 'remembers what Serializable.%s computes' % nm,
                'ImmutableSerializable.%s remembers `%s`, Serializable.%s (the version every mutable class answers with) computes `%s`: equal objects, one mutable and one immutable, disagree'
                % (nm, st, nm, norm(trets[0])))


# ------------------------------------------------------------------------------------------------ R4
def rule_R4(ctx, repo, base, imm, mut):
    r = ctx.rule('C09.R4', 'the four mutable twins are decorated; the decorator restores plain attribute semantics; constructors use plain stores',
                 engine='OWN', floor=8)
    rfi, rebinds = make_mutable_rebinds(repo)
    for nm, want in (('__setattr__', 'object.__setattr__'), ('__delattr__', 'object.__delattr__')):
        got = norm(rebinds[nm]) if nm in rebinds else None
        r.check(got == want, 'decorator:%s' % nm, rfi.site, '%s = %s' % (nm, want), '__make_mutable sets %s to %s' % (nm, got))
    twins = [c for c in repo.classes.values() if c.name.startswith('CMutable') and repo.is_subclass(c, base)]
    for c in sorted(twins, key=lambda c: c.name):
        r.check(c in mut, 'decorated:%s' % c.name, c.site, 'decorated with __make_mutable',
                '%s derives from an immutable class but is not passed through __make_mutable: assignments raise and hashes stay cached' % c.name)
    ctx.extra['mutable_classes'] = [c.name for c in mut]
    ctx.extra['immutable_classes'] = [c.name for c in imm]
    for c in mut:
        init = c.methods.get('__init__')
        if init is None:
            r.ok('ctor:%s' % c.name, c.site, 'inherits the base constructor (object.__setattr__ on a fresh object)')
            continue
        bad = [n for n in walk_no_nested(init.node) if isinstance(n, ast.Call) and norm(n.func) == 'object.__setattr__']
        r.check(not bad, 'ctor:%s' % c.name, init.site, 'plain stores', 'constructor of mutable %s still uses object.__setattr__' % c.name)


# ------------------------------------------------------------------------------------------------ R5
def init_stores(fi):
    """slot -> stored expression for object.__setattr__(self, 'slot', EXPR) / self.slot = EXPR"""
    out = {}
    for n in walk_no_nested(fi.node):
        if isinstance(n, ast.Call) and norm(n.func) == 'object.__setattr__' and len(n.args) == 3 and isinstance(n.args[1], ast.Constant):
            out.setdefault(n.args[1].value, []).append((n.args[2], n, norm(n.args[0])))
        elif isinstance(n, ast.Assign) and len(n.targets) == 1 and isinstance(n.targets[0], ast.Attribute) and isinstance(n.targets[0].value, ast.Name):
            out.setdefault(n.targets[0].attr, []).append((n.value, n, n.targets[0].value.id))
    return out


def frozen_seq(repo, fi, e, elem, imm_names, mut):
    """is `e` a tuple of immutable elements?  -> (ok, why)"""
    if isinstance(e, ast.Tuple):
        return True, 'tuple literal'
    if isinstance(e, ast.Name):
        # a local assigned earlier from a tuple(...) expression / empty tuple on every path
        vals = [n.value for n in walk_no_nested(fi.node) if isinstance(n, ast.Assign) and len(n.targets) == 1 and norm(n.targets[0]) == e.id]
        if not vals:
            return False, 'the caller\'s sequence `%s` is stored as given' % e.id
        for v in vals:
            ok, why = frozen_seq(repo, fi, v, elem, imm_names, mut)
            if not ok:
                return ok, why
        return True, 'local built as tuple on every path'
    if isinstance(e, ast.Call) and norm(e.func) == 'tuple' and len(e.args) <= 1:
        if not e.args:
            return True, 'empty tuple'
        a = e.args[0]
        if elem == 'bytes':
            return True, 'tuple(...) of byte strings'
        eci = None
        for c in repo.classes.values():
            if c.name == elem:
                eci = c
        if eci is None:
            return False, 'unknown element class %s' % elem
        twin = has_mutable_twin(repo, eci, mut)
        if isinstance(a, ast.GeneratorExp) or isinstance(a, ast.ListComp):
            el = a.elt
            if isinstance(el, ast.Call) and isinstance(el.func, ast.Attribute) and el.func.attr.startswith('from_'):
                owner = repo.fold(el.func.value, fi.module, cls=fi.cls)
                if isinstance(owner, ClassRef) and owner.info is eci:
                    return True, 'tuple of %s.%s(...)' % (eci.name, el.func.attr)
                return False, 'elements pass through `%s`, not the immutable %s.from_*' % (norm(el.func), eci.name)
            if isinstance(el, ast.Call) and isinstance(el.func, ast.Attribute) and el.func.attr == 'stream_deserialize':
                return True, 'freshly deserialised elements'
            if not twin:
                return True, 'elements of %s (no mutable variant exists)' % eci.name
            return False, 'elements are stored without passing through %s.from_*' % eci.name
        if not twin:
            return True, 'tuple(...) of %s (no mutable variant exists)' % eci.name
        # tuple(vtx) where vtx was freshly deserialised by VectorSerializer.stream_deserialize(<immutable class>, f)
        if isinstance(a, ast.Name):
            for n in walk_no_nested(fi.node):
                if isinstance(n, ast.Assign) and norm(n.targets[0]) == a.id and isinstance(n.value, ast.Call) \
                        and norm(n.value.func).endswith('VectorSerializer.stream_deserialize') and n.value.args:
                    owner = repo.fold(n.value.args[0], fi.module, cls=fi.cls)
                    if isinstance(owner, ClassRef) and owner.info is eci:
                        return True, 'tuple of freshly deserialised %s' % eci.name
        return False, 'tuple(...) of possibly mutable %s elements' % eci.name
    return False, 'stored as `%s`' % norm(e)[:60]


def rule_R5(ctx, repo, eng, imm, mut, rid='C09.R5'):
    r = ctx.rule(rid, 'every slot of an immutable class holds an immutable value: sequences are tuples of immutable elements, nested objects pass through the immutable from_*',
                 engine='OWN', floor=30)
    imm_names = {c.name for c in imm}
    for c in imm:
        kinds = SLOT_KINDS.get(c.name)
        if kinds is None:
            r.undecided('class:%s' % c.name, c.site, 'immutable class %s is not in the slot-kind table' % c.name)
            continue
        for s in (c.slots or []):
            if s.startswith('_cached'):
                continue
            if s not in kinds:
                r.undecided('slot:%s.%s' % (c.name, s), c.site, 'slot %s.%s is not in the slot-kind table' % (c.name, s))
        writers = [f for f in c.methods.values() if f.name in ('__init__', 'stream_deserialize')]
        stores = {}
        for f in writers:
            for slot, lst in init_stores(f).items():
                for e, n, tgt in lst:
                    stores.setdefault(slot, []).append((f, e, n))
        for slot, kind in sorted(kinds.items()):
            key0 = '%s.%s' % (c.name, slot)
            if slot not in stores:
                # inherited from a base constructor
                owner = None
                for k in repo.mro(c)[1:]:
                    if isinstance(k, ClassInfo) and slot in SLOT_KINDS.get(k.name, {}):
                        owner = k
                if owner is not None:
                    continue
                r.undecided(key0, c.site, 'no store of slot %s found' % slot)
                continue
            for f, e, n in stores[slot]:
                key = '%s@%s' % (key0, f.name)
                site = common.site_of(f, n)
                if kind in ('int', 'bytes'):
                    r.ok(key, site, '%s slot' % kind)
                elif kind.startswith('seq:'):
                    ok, why = frozen_seq(repo, f, e, kind[4:], imm_names, mut)
                    # a parameter stored as it came is a fact about this statement, whatever else was rewritten
                    r.check(ok, key, site, why, 'sequence slot %s of immutable %s is not frozen: %s' % (slot, c.name, why), sure='is stored as given' in (why or ''))
                elif kind.startswith('obj:'):
                    ocn = kind[4:]
                    oci = [k for k in repo.classes.values() if k.name == ocn][0]
                    twin = has_mutable_twin(repo, oci, mut)
                    if not twin:
                        r.ok(key, site, 'nested %s (no mutable variant exists)' % ocn)
                        continue
                    good = isinstance(e, ast.Call) and isinstance(e.func, ast.Attribute) and e.func.attr.startswith('from_') \
                        and isinstance(repo.fold(e.func.value, f.module, cls=f.cls), ClassRef) \
                        and repo.fold(e.func.value, f.module, cls=f.cls).info is oci
                    r.check(good, key, site, 'stored through %s.from_*' % ocn,
                            'nested object slot %s of immutable %s stores `%s` without the immutable %s.from_*: a mutable %s stays aliased'
                            % (slot, c.name, norm(e)[:50], ocn, ocn))


# ------------------------------------------------------------------------------------------------ R6
def from_methods(repo, classes_):
    out = []
    for c in classes_:
        for nm, f in sorted(c.methods.items()):
            if nm.startswith('from_') and f.kind == 'classmethod' and len(f.params) == 2:
                out.append((c, f))
    return out


def rule_R6(ctx, repo, eng, imm, mut, rid='C09.R6'):
    r = ctx.rule(rid, 'copy constructors: identity only for exactly-immutable sources; mutable copies are deep', engine='OWN', floor=9)
    for c, f in from_methods(repo, imm):
        if c.name not in SLOT_KINDS or f.name in ('from_bytes',):
            continue
        arg = f.params[1]
        key = '%s.%s' % (c.name, f.name)
        rets = [n for n in walk_no_nested(f.node) if isinstance(n, ast.Return) and n.value is not None]
        idrets = [n for n in rets if norm(n.value) == arg]
        bad = False
        # `return x if T else cls(...)`: the argument itself is handed back exactly when T holds
        for n in rets:
            v_ = n.value
            while isinstance(v_, ast.IfExp):
                for arm, pol in ((v_.body, True), (v_.orelse, False)):
                    if norm(arm) == arg:
                        t_ = norm(v_.test) if pol else 'not (%s)' % norm(v_.test)
                        if not (pol and norm(v_.test) in ('%s.__class__ is %s' % (arg, c.name), 'type(%s) is %s' % (arg, c.name))) \
                                and not (not pol and norm(v_.test) in ('%s.__class__ is not %s' % (arg, c.name), 'type(%s) is not %s' % (arg, c.name))):
                            bad = True
                            r.violated(key, common.site_of(f, n), '%s returns its argument itself under `%s`: only an object whose class is exactly %s may be shared (a mutable subclass instance would be aliased)'
                                       % (key, t_, c.name), sure=True)
                v_ = v_.orelse if not isinstance(v_.orelse, ast.IfExp) and isinstance(v_.body, ast.IfExp) and False else (v_.orelse if isinstance(v_.orelse, ast.IfExp) else (v_.body if isinstance(v_.body, ast.IfExp) else None))
        for n in idrets:
            g = getattr(n, '_parent', None)
            want = '%s.__class__ is %s' % (arg, c.name)
            alt = 'type(%s) is %s' % (arg, c.name)
            from ..escape import implied_at
            if not (isinstance(g, ast.If) and n in g.body and norm(g.test) in (want, alt, '%s is %s.__class__' % (c.name, arg), '%s is type(%s)' % (c.name, arg))) \
                    and not (implied_at(repo, f, n, want) is True or implied_at(repo, f, n, alt) is True):
                bad = True
                r.violated(key, common.site_of(f, n), '%s returns its argument itself under `%s`: only an object whose class is exactly %s may be shared (a mutable subclass instance would be aliased)'
                           % (key, norm(g.test) if isinstance(g, ast.If) else 'no guard', c.name))
        # ... and every path hands an object back: a path that falls off the end answers None, which the constructors
        # of the enclosing classes then store as an element
        mf_ = flow.run_must(f.node)
        if any(k_ == 'fallthrough' for k_, n_, f_ in mf_.exits) and c.name not in ('COutPoint', 'CTxIn', 'CTxOut', 'CTransaction'):
            bad = True
            r.undecided(key + ':returns', f.site, '%s can finish without returning an object (no constructor of the library copies through it)' % key)
        elif any(k_ == 'fallthrough' for k_, n_, f_ in mf_.exits):
            bad = True
            r.violated(key + ':returns', f.site, '%s can finish without returning: a %s source yields None, and the immutable copy that was asked for holds None in its place' % (key, 'mutable' if idrets else 'given'), sure=True)
        if not bad:
            r.ok(key, f.site, 'argument returned only under `%s.__class__ is %s`; otherwise rebuilt through the constructor' % (arg, c.name))
    for c, f in from_methods(repo, mut):
        arg = f.params[1]
        key = '%s.%s' % (c.name, f.name)
        base_kinds = {}
        for k in repo.mro(c):
            if isinstance(k, ClassInfo) and k.name in SLOT_KINDS:
                for s, kd in SLOT_KINDS[k.name].items():
                    base_kinds.setdefault(s, kd)
        rets = [n for n in walk_no_nested(f.node) if isinstance(n, ast.Return) and n.value is not None]
        problems = []
        locals_ = {}
        for n in walk_no_nested(f.node):
            if isinstance(n, ast.Assign) and len(n.targets) == 1 and isinstance(n.targets[0], ast.Name):
                locals_[n.targets[0].id] = n.value
        for n in rets:
            v = n.value
            if norm(v) == arg:
                problems.append((n, 'returns its argument'))
                continue
            if not (isinstance(v, ast.Call) and norm(v.func) == 'cls'):
                problems.append((n, 'does not build a new object through cls(...): `%s`' % norm(v)[:50]))
                continue
            for a in list(v.args) + [k.value for k in v.keywords]:
                src = a
                if isinstance(a, ast.Name) and a.id in locals_:
                    src = locals_[a.id]
                why = deep_arg(repo, f, src, arg, base_kinds, mut)
                if why:
                    problems.append((n, why))
        if problems:
            for n, why in problems:
                r.violated(key, common.site_of(f, n), 'mutable copy constructor %s is shallow: %s' % (key, why))
        else:
            r.ok(key, f.site, 'every mutable-kind field is rebuilt through the mutable from_* of its class')


def deep_arg(repo, f, src, arg, kinds, mut):
    """None if the constructor argument `src` cannot alias mutable state of `arg`, else the reason"""
    t = norm(src)
    m = re.match(r'^%s\.(\w+)$' % re.escape(arg), t)
    if m:
        slot = m.group(1)
        kd = kinds.get(slot)
        if kd in ('int', 'bytes'):
            return None
        if kd is None:
            return 'field %s of unknown kind is passed on as is' % slot
        ocn = kd.split(':', 1)[1]
        oci = [k for k in repo.classes.values() if k.name == ocn]
        if kd.startswith('obj:') and oci and not has_mutable_twin(repo, oci[0], mut):
            return None
        return 'field `%s` (%s) of the source is passed on without a copy' % (t, kd)
    # [Mut.from_x(e) for e in arg.slot]
    if isinstance(src, (ast.ListComp, ast.GeneratorExp)) and len(src.generators) == 1:
        g = src.generators[0]
        mm = re.match(r'^%s\.(\w+)$' % re.escape(arg), norm(g.iter))
        el = src.elt
        if mm and isinstance(el, ast.Call) and isinstance(el.func, ast.Attribute) and el.func.attr.startswith('from_'):
            owner = repo.fold(el.func.value, f.module, cls=f.cls)
            if isinstance(owner, ClassRef) and owner.info in mut:
                return None
            return 'elements of %s pass through `%s`, not a mutable from_*' % (norm(g.iter), norm(el.func))
        return 'elements of `%s` are reused: `%s`' % (norm(g.iter), norm(el)[:40])
    if isinstance(src, ast.Call) and isinstance(src.func, ast.Attribute) and src.func.attr.startswith('from_'):
        owner = repo.fold(src.func.value, f.module, cls=f.cls)
        if isinstance(owner, ClassRef) and owner.info in mut:
            return None
        return '`%s` does not produce a mutable copy' % t[:50]
    if isinstance(src, ast.Call) and norm(src.func) in ('list', 'tuple', 'copy.copy') and src.args and re.match(r'^%s\.\w+$' % re.escape(arg), norm(src.args[0])):
        return '`%s` copies the container but shares its (mutable) elements' % t
    v = repo.fold(src, f.module, cls=f.cls)
    if v is not UNKNOWN:
        return None
    return 'argument `%s` is not a recognised deep copy' % t[:50]


# ------------------------------------------------------------------------------------------------ R7
def rule_R7(ctx, repo, imm, mut):
    r = ctx.rule('C09.R7', 'constructor defaults of data classes are immutable values (no shared mutable default)', engine='OWN', floor=20)
    # a None default that stands for "a fresh empty list" is replaced before it is stored
    for c_ in repo.classes.values():
        if c_.module.name != 'bitcoin.core' or '__init__' not in c_.methods:
            continue
        ini = c_.methods['__init__']
        dflt = ini.defaults()
        for p_, d_ in dflt.items():
            if not (isinstance(d_, ast.Constant) and d_.value is None):
                continue
            tests = [n for n in ini.node.body if isinstance(n, ast.If) and norm(n.test) == '%s is None' % p_]
            stored = any(isinstance(n, ast.Assign) and isinstance(n.targets[0], ast.Attribute) and norm(n.value) == p_ for n in walk_no_nested(ini.node))
            if tests and stored:
                t_ = tests[0]
                if any(isinstance(x, ast.Assign) and norm(x.targets[0]) == p_ for x in t_.body):
                    r.ok('none-default:%s.%s' % (c_.name, p_), common.site_of(ini, t_), 'replaced before it is stored')
                elif all(isinstance(x, ast.Pass) for x in t_.body):
                    r.violated('none-default:%s.%s' % (c_.name, p_), common.site_of(ini, t_), '%s.__init__ tests `%s is None` and then stores None itself in the field: an object built without the argument has %s = None '
                               '(append / iteration / serialisation fail)' % (c_.name, p_, p_), sure=True)
    imm_names = {c.name for c in imm}
    for c in imm + mut:
        init = c.methods.get('__init__')
        if init is None:
            continue
        for p, d in sorted(init.defaults().items()):
            key = '%s.__init__:%s' % (c.name, p)
            site = common.site_of(init, d)
            if isinstance(d, ast.Constant):
                r.ok(key, site, 'constant')
                continue
            if isinstance(d, ast.Tuple):
                r.ok(key, site, 'tuple')
                continue
            v = repo.fold(d, init.module)
            if isinstance(v, (bytes, int, str, tuple, frozenset)) or v is None:
                r.ok(key, site, 'immutable constant')
                continue
            if isinstance(d, ast.Call):
                cv = repo.fold(d.func, init.module)
                if isinstance(cv, ClassRef) and (cv.info.name in imm_names or repo.is_subclass(cv.info, 'bytes')) and cv.info not in mut:
                    r.ok(key, site, 'instance of immutable %s' % cv.info.name)
                    continue
            r.violated(key, site, 'default `%s` of %s.__init__(%s) is a mutable object shared by every instance built with the default' % (norm(d), c.name, p))


# ------------------------------------------------------------------------------------------------ R8
READ_ONLY = [
    ('bitcoin.core.script.RawSignatureHash', 'txTo'), ('bitcoin.core.script.SignatureHash', 'txTo'),
    ('bitcoin.core.scripteval.VerifyScript', 'txTo'), ('bitcoin.core.scripteval.EvalScript', 'txTo'),
    ('bitcoin.core.scripteval.VerifySignature', 'txTo'), ('bitcoin.core.scripteval.VerifySignature', 'txFrom'),
    ('bitcoin.core.CheckTransaction', 'tx'), ('bitcoin.core.CheckBlock', 'block'),
    ('bitcoin.core.CTransaction.GetTxid', 'self'), ('bitcoin.core.CTransaction.calc_weight', 'self'),
    ('bitcoin.core.CBlock.GetWeight', 'self'), ('bitcoin.core.serialize.Serializable.serialize', 'self'),
    ('bitcoin.core.serialize.Serializable.__eq__', 'self'), ('bitcoin.core.serialize.Serializable.__hash__', 'self'),
    ('bitcoin.core.serialize.Serializable.GetHash', 'self'),
    ('bitcoin.core.CTransaction.from_tx', 'tx'), ('bitcoin.core.CMutableTransaction.from_tx', 'tx'),
]


def rule_R8(ctx, repo, eng):
    r = ctx.rule('C09.R8', 'signature hashing, script verification, checks, identifiers and copies never store through the object they are given',
                 engine='OWN', floor=15)
    res = Resolver(repo, eng)
    ro = ReadOnly(repo, res)
    for q, p in READ_ONLY:
        fi = repo.get_function(q)
        ctxc = fi.cls
        ws = ro.writes(fi, p, ctxc)
        key = '%s(%s)' % (q.replace('bitcoin.', ''), p)
        if ws:
            for f, node, text, path in ws[:5]:
                r.violated('%s:%s' % (key, text), common.site_of(f, node), '%s modifies the object passed as `%s`: %s in %s' % (q, p, text, f.qualname), path=list(path))
        else:
            r.ok(key, fi.site, 'no store / delete / mutating call through `%s`' % p)
    # the legacy sighash works on a fresh deep copy
    fi = repo.get_function('bitcoin.core.script.RawSignatureHash')
    copies = [n for n in walk_no_nested(fi.node) if isinstance(n, ast.Assign) and isinstance(n.value, ast.Call)
              and isinstance(n.value.func, ast.Attribute) and n.value.func.attr == 'from_tx']
    ok = False
    for n in copies:
        owner = repo.fold(n.value.func.value, fi.module)
        if isinstance(owner, ClassRef) and owner.info.name == 'CMutableTransaction' and norm(n.value.args[0]) == 'txTo':
            ok = True
    r.check(ok, 'RawSignatureHash:scratch-copy', fi.site, 'scratch object is CMutableTransaction.from_tx(txTo) (deep by R6)',
            'RawSignatureHash does not take its scratch object from CMutableTransaction.from_tx(txTo)')
    ctx.extra['readonly_functions_visited'] = len(set(ro.visited))
    ctx.extra['readonly_unresolved_calls'] = ['%s: %s' % (f.qualname, norm(n)[:50]) for f, n in ro.unresolved][:20]
