"""C11 Bech32 segwit addresses: BIP173 codec and guaranteed corruption detection."""
import ast
import re

from ..model import UNKNOWN, ClassRef, FuncRef, norm, walk_no_nested
from ..rules import canon_guard, canon_text, equiv, equiv_folded
from .. import common, spec, flow, shape

SA = 'bitcoin.segwit_addr.'


def run(ctx):
    repo = ctx.repo
    rule_constants(ctx, repo)
    rule_polymod(ctx, repo)
    rule_decode_rules(ctx, repo)
    rule_convertbits(ctx, repo)
    rule_segwit_rules(ctx, repo)
    rule_encode(ctx, repo)
    rule_wrapper(ctx, repo)
    r = ctx.rule('C11.P1', 'the human-readable prefix is read from the selected chain at call time', engine='OWN', floor=1)
    common.rule_call_time_params(r, repo, files={'bitcoin/bech32.py', 'bitcoin/segwit_addr.py'})
    ctx.not_decided += ['the BCH distance guarantee (follows mathematically from the generator constants; not re-derived)', 'the bit regrouping arithmetic of convertbits beyond its rejection rules']
    ctx.assume('BIP173 generator polynomial detects up to four substitutions within 89 characters')


def is_reject(body):
    if len(body) != 1 or not isinstance(body[0], ast.Return):
        return False
    t = norm(body[0].value) if body[0].value is not None else 'None'
    return t in ('(None, None)', 'None')


def disjuncts(e):
    if isinstance(e, ast.BoolOp) and isinstance(e.op, ast.Or):
        out = []
        for v in e.values:
            out.extend(disjuncts(v))
        return out
    return [e]


def reject_rules(fi, repo):
    """canonical disjuncts of every rejecting `if` of fi -> {text: node}"""
    out = {}
    for n in walk_no_nested(fi.node):
        if isinstance(n, ast.If) and is_reject(n.body):
            for d in disjuncts(n.test):
                out[canon_guard(d, repo, fi.module)] = n
    return out


def compare_rules(r, fi, repo, want, prefix):
    """want: {key: (accepted canonical forms, measure text, description)}"""
    got = reject_rules(fi, repo)
    used = set()
    for key, (accepted, measure, what) in want.items():
        accepted = [canon_guard(ast.parse(a, mode='eval').body, repo, fi.module) for a in accepted]
        hit = [g for g in got if g in accepted]
        if hit:
            used.add(hit[0])
            r.ok('%s:%s' % (prefix, key), common.site_of(fi, got[hit[0]]), '%s: `%s`' % (what, hit[0]))
            continue
        near = [g for g in got if measure in g and g not in used]
        if near:
            used.add(near[0])
            r.violated('%s:%s' % (prefix, key), common.site_of(fi, got[near[0]]), '%s: the rejection rule is `%s`, BIP173: `%s`' % (what, near[0], accepted[0]))
        else:
            r.violated('%s:%s' % (prefix, key), fi.site, '%s: no rejection rule `%s` in %s' % (what, accepted[0], fi.name))
    for g in got:
        if g not in used:
            r.undecided('%s:extra:%s' % (prefix, g[:40]), common.site_of(fi, got[g]), 'additional rejection rule `%s` is not part of BIP173' % g)


def rule_constants(ctx, repo):
    r = ctx.rule('C11.C1', 'charset and generator constants', engine='CONST', floor=2)
    m = repo.get_module('bitcoin.segwit_addr')
    cs = repo.module_value(m, 'CHARSET')
    r.check(cs == spec.BECH32_CHARSET, 'charset', m.relpath + ':0', cs, 'CHARSET is %r' % (cs,))
    fi = repo.get_function(SA + 'bech32_polymod')
    gen = None
    for n in walk_no_nested(fi.node):
        if isinstance(n, ast.Assign) and norm(n.targets[0]) == 'generator':
            gen = repo.fold(n.value, fi.module)
    r.check(gen == spec.BECH32_GENERATORS, 'generators', fi.site, 'five BIP173 generator constants', 'generator constants are %s' % ([hex(x) for x in gen] if isinstance(gen, list) else gen))


def rule_polymod(ctx, repo):
    r = ctx.rule('C11.C2', 'checksum machinery: polymod step, prefix expansion, verification constant 1, checksum creation and extraction', engine='CONST', floor=8)
    fi = repo.get_function(SA + 'bech32_polymod')
    defs = {}
    for n in ast.walk(fi.node):
        if isinstance(n, ast.Assign) and len(n.targets) == 1:
            defs.setdefault(norm(n.targets[0]), []).append(n.value)
        if isinstance(n, ast.AugAssign):
            defs.setdefault(norm(n.target) + '^=', []).append(n.value)
    init = [norm(v) for v in defs.get('chk', [])][:1]
    r.check(init == ['1'], 'polymod:init', fi.site, 'chk starts at 1', 'chk starts as %s' % init)
    shape.verdict(r, 'polymod:top', fi.site, defs.get('top', [None])[0], 'chk >> 25', 'top bits')
    step = defs.get('chk', [None, None])[1] if len(defs.get('chk', [])) > 1 else None
    shape.verdict(r, 'polymod:step', fi.site, step, '(chk & 0x1ffffff) << 5 ^ value', 'shift step')
    x = defs.get('chk^=', [None])[0]
    ok = x is not None and norm(x) == 'generator[i] if top >> i & 1 else 0'
    loops = [norm(n.iter) for n in ast.walk(fi.node) if isinstance(n, ast.For)]
    r.check(ok and 'range(5)' in loops, 'polymod:generators', fi.site, 'chk ^= generator[i] when bit i of top is set, i in 0..4', 'generator mixing is `%s` over %s' % (norm(x) if x is not None else None, loops))
    he = repo.get_function(SA + 'bech32_hrp_expand')
    rets = [norm(n.value) for n in walk_no_nested(he.node) if isinstance(n, ast.Return)]
    r.check(rets == ['[ord(x) >> 5 for x in hrp] + [0] + [ord(x) & 31 for x in hrp]'], 'hrp-expand', he.site, 'high bits, 0, low bits', 'prefix expansion is %s' % rets)
    vc = repo.get_function(SA + 'bech32_verify_checksum')
    rets = [norm(n.value) for n in walk_no_nested(vc.node) if isinstance(n, ast.Return)]
    r.check(rets == ['bech32_polymod(bech32_hrp_expand(hrp) + data) == 1'], 'verify', vc.site, 'polymod(expand(hrp) + data) == 1', 'verification is %s' % rets)
    cc = repo.get_function(SA + 'bech32_create_checksum')
    d2 = {norm(n.targets[0]): norm(n.value) for n in walk_no_nested(cc.node) if isinstance(n, ast.Assign)}
    rets = [norm(n.value) for n in walk_no_nested(cc.node) if isinstance(n, ast.Return)]
    ok = d2.get('values') == 'bech32_hrp_expand(hrp) + data' and d2.get('polymod') == 'bech32_polymod(values + [0, 0, 0, 0, 0, 0]) ^ 1' and rets == ['[polymod >> 5 * (5 - i) & 31 for i in range(6)]']
    r.check(ok, 'create', cc.site, 'polymod(values + six zeros) ^ 1, six 5-bit groups', 'checksum creation is %s / %s' % (d2, rets))
    be = repo.get_function(SA + 'bech32_encode')
    rets = [norm(n.value) for n in walk_no_nested(be.node) if isinstance(n, ast.Return)]
    d3 = {norm(n.targets[0]): norm(n.value) for n in walk_no_nested(be.node) if isinstance(n, ast.Assign)}
    ok = d3.get('combined') == 'data + bech32_create_checksum(hrp, data)' and rets == ["hrp + '1' + ''.join([CHARSET[d] for d in combined])"]
    r.check(ok, 'encode-string', be.site, "hrp + '1' + data characters + checksum characters", 'bech32_encode builds %s / %s' % (d3, rets))


def rule_decode_rules(ctx, repo):
    r = ctx.rule('C11.R1', 'bech32_decode rejects exactly: characters outside 33..126, mixed case, bad separator position, over 90 characters, non-charset data, bad checksum', engine='RULES', floor=8)
    fi = repo.get_function(SA + 'bech32_decode')
    b = fi.params[0]
    want = {
        'char-low': (['any((ord(x) < 33 or ord(x) > 126 for x in %s))' % b], 'ord(x)', 'characters outside 33..126'),
        'mixed-case': (['%s.lower() != %s and %s.upper() != %s' % (b, b, b, b)], '.lower()', 'mixed case'),
        'separator-min': (['pos < 1'], 'pos <', 'empty prefix / no separator'),
        'data-min': (['pos + 7 > len(%s)' % b], 'pos +', 'fewer than six characters after the separator'),
        'max-length': (['len(%s) > 90' % b], 'len(%s) >' % b, 'more than 90 characters'),
        'charset': (['not all((x in CHARSET for x in %s[pos + 1:]))' % b], 'CHARSET', 'data characters outside the charset'),
        'checksum': (['not bech32_verify_checksum(hrp, data)'], 'verify_checksum', 'invalid checksum'),
    }
    compare_rules(r, fi, repo, want, 'decode')
    defs = {}
    for n in walk_no_nested(fi.node):
        if isinstance(n, ast.Assign) and len(n.targets) == 1:
            defs.setdefault(norm(n.targets[0]), []).append(norm(n.value))
    pos = defs.get('pos', [None])[-1]
    if pos == "%s.rfind('1')" % b:
        r.ok('separator-last', fi.site, 'separator is the last `1`')
    elif pos is not None and "find('1')" in pos or (pos and 'index' in pos):
        r.violated('separator-last', fi.site, 'the separator is located with `%s`: BIP173 takes the LAST `1` (a prefix may itself contain `1`)' % pos)
    else:
        r.undecided('separator-last', fi.site, 'separator position computed as %s' % pos)
    r.check(defs.get(b, [None])[-1] == '%s.lower()' % b, 'lowercased', fi.site, 'decoded in lower case', 'the string is normalised as %s' % defs.get(b))
    r.check(defs.get('hrp') == ['%s[:pos]' % b] and defs.get('data') == ['[CHARSET.find(x) for x in %s[pos + 1:]]' % b], 'split', fi.site, 'prefix before, data after the separator',
            'split is hrp=%s data=%s' % (defs.get('hrp'), defs.get('data')))
    rets = [norm(n.value) for n in walk_no_nested(fi.node) if isinstance(n, ast.Return) and norm(n.value) != '(None, None)']
    r.check(rets == ['(hrp, data[:-6])'], 'result', fi.site, 'data without the six checksum symbols', 'decode returns %s' % rets)


def rule_convertbits(ctx, repo):
    r = ctx.rule('C11.R2', 'convertbits: rejects out-of-range symbols; without padding rejects >= frombits left-over bits or non-zero padding', engine='RULES', floor=3)
    fi = repo.get_function(SA + 'convertbits')
    got = reject_rules(fi, repo)
    want = {
        'symbol-range': (['value < 0', 'value >> frombits'], None),
    }
    r.check('value < 0' in got and 'value >> frombits' in got, 'symbol-range', fi.site, 'value < 0 or value >> frombits', 'symbol range rules are %s' % sorted(got))
    # the pad=False arm
    arm = None
    for n in walk_no_nested(fi.node):
        if isinstance(n, ast.If) and norm(n.test) == 'pad':
            if len(n.orelse) == 1 and isinstance(n.orelse[0], ast.If):
                arm = n.orelse[0]
    if arm is None or not is_reject(arm.body):
        r.violated('no-pad-arm', fi.site, 'no rejecting `elif` for pad=False')
        return
    ds = [canon_guard(d, repo, fi.module) for d in disjuncts(arm.test)]
    r.check(canon_text('bits >= frombits') in ds, 'padding-bits', common.site_of(fi, arm), 'frombits or more left-over bits rejected',
            'left-over bits rule is %s; BIP173: reject when bits >= frombits (five or more padding bits)' % ds)
    r.check('acc << tobits - bits & maxv' in ds, 'padding-zero', common.site_of(fi, arm), 'non-zero padding rejected', 'non-zero padding rule missing: %s' % ds)
    defs = {norm(n.targets[0]): norm(n.value) for n in walk_no_nested(fi.node) if isinstance(n, ast.Assign)}
    r.check(defs.get('maxv') == '(1 << tobits) - 1', 'maxv', fi.site, '(1 << tobits) - 1', 'maxv is %s' % defs.get('maxv'))
    d = fi.defaults().get('pad')
    r.check(d is not None and repo.fold(d, fi.module) is True, 'pad-default', fi.site, 'pad defaults to True (encoder side)', 'pad default changed')


def rule_segwit_rules(ctx, repo):
    r = ctx.rule('C11.R3', 'segwit decode rejects exactly: other prefix, bad regrouping, program length outside 2..40, version above 16, version 0 with length other than 20/32', engine='RULES', floor=7)
    fi = repo.get_function(SA + 'decode')
    hrp, addr = fi.params
    want = {
        'prefix': (['hrpgot != %s' % hrp], 'hrpgot', 'prefix other than the expected one'),
        'regroup': (['decoded is None'], 'decoded is', 'invalid regrouping'),
        'length-min': (['len(decoded) < 2'], 'len(decoded) <', 'program shorter than 2 bytes'),
        'length-max': (['len(decoded) > 40'], 'len(decoded) >', 'program longer than 40 bytes'),
        'version-max': (['data[0] > 16'], 'data[0] >', 'witness version above 16'),
        'v0-length': (['data[0] == 0 and len(decoded) != 20 and len(decoded) != 32'], 'data[0] == 0', 'version 0 with a length other than 20 or 32'),
    }
    # v0 rule is a conjunction inside one `if`
    got = {}
    for n in walk_no_nested(fi.node):
        if isinstance(n, ast.If) and is_reject(n.body):
            for d in disjuncts(n.test):
                got[canon_guard(d, repo, fi.module)] = n
    compare_rules(r, fi, repo, want, 'segwit')
    defs = {}
    for n in walk_no_nested(fi.node):
        if isinstance(n, ast.Assign) and len(n.targets) == 1:
            defs[norm(n.targets[0])] = norm(n.value)
    r.check(defs.get('decoded') == 'convertbits(data[1:], 5, 8, False)', 'regroup-call', fi.site, 'convertbits(data[1:], 5, 8, pad=False)', 'regrouping call is %s' % defs.get('decoded'))
    r.check(defs.get('(hrpgot, data)') == 'bech32_decode(%s)' % addr, 'decode-call', fi.site, 'bech32_decode(addr)', 'inner decode is %s' % defs.get('(hrpgot, data)'))
    rets = [norm(n.value) for n in walk_no_nested(fi.node) if isinstance(n, ast.Return) and norm(n.value) != '(None, None)']
    r.check(rets == ['(data[0], decoded)'], 'result', fi.site, '(version, program)', 'decode returns %s' % rets)


def rule_encode(ctx, repo):
    r = ctx.rule('C11.E1', 'encode: version symbol + regrouped program, lower case by construction, checked by decoding it again', engine='RULES', floor=2)
    fi = repo.get_function(SA + 'encode')
    hrp, ver, prog = fi.params
    defs = {norm(n.targets[0]): norm(n.value) for n in walk_no_nested(fi.node) if isinstance(n, ast.Assign)}
    r.check(defs.get('ret') == 'bech32_encode(%s, [%s] + convertbits(%s, 8, 5))' % (hrp, ver, prog), 'build', fi.site, 'bech32_encode(hrp, [version] + convertbits(program, 8, 5))', 'encode builds %s' % defs.get('ret'))
    chk = [n for n in walk_no_nested(fi.node) if isinstance(n, ast.If)]
    ok = len(chk) == 1 and norm(chk[0].test) == 'decode(%s, ret) == (None, None)' % hrp and is_reject(chk[0].body)
    r.check(ok, 'self-check', fi.site, 'result must decode under the same prefix', 'the encoder does not verify its result by decoding it')


def rule_wrapper(ctx, repo):
    r = ctx.rule('C11.W1', 'CBech32Data: decodes with the selected chain\'s prefix, refuses undecodable text with Bech32Error, prints through encode', engine='MODEL', floor=4)
    ci = repo.get_class('bitcoin.bech32.CBech32Data')
    new = ci.methods['__new__']
    s = new.params[1]
    defs = {norm(n.targets[0]): norm(n.value) for n in walk_no_nested(new.node) if isinstance(n, ast.Assign)}
    r.check(defs.get('(witver, data)') == 'decode(bitcoin.params.BECH32_HRP, %s)' % s, 'decode', new.site, 'decode(bitcoin.params.BECH32_HRP, text)', 'the wrapper decodes with %s' % defs.get('(witver, data)'))
    fv = repo.fold(ast.parse('decode', mode='eval').body, new.module)
    r.check(isinstance(fv, FuncRef) and fv.info.qualname == SA + 'decode', 'decode:binding', new.site, 'segwit_addr.decode', 'decode resolves to %r' % (fv,))
    gs = [(canon_guard(n.test, repo, new.module), n) for n in walk_no_nested(new.node) if isinstance(n, ast.If)]
    ok = any(g in ('witver is None and data is None', 'witver is None', 'data is None') and flow.always_raises(n.body) for g, n in gs)
    exc = [norm(x.exc.func) for g, n in gs for x in n.body if isinstance(x, ast.Raise) and isinstance(x.exc, ast.Call)]
    r.check(ok and exc == ['Bech32Error'], 'refusal', new.site, 'undecodable text raises Bech32Error', 'refusal handling is %s / %s' % ([g for g, n in gs], exc))
    st = ci.methods['__str__']
    rets = [norm(n.value) for n in walk_no_nested(st.node) if isinstance(n, ast.Return)]
    r.check(rets == ['encode(bitcoin.params.BECH32_HRP, self.witver, self)'], 'str', st.site, 'encode(selected prefix, version, program)', '__str__ returns %s' % rets)
    fb = ci.methods['from_bytes']
    gs = [canon_guard(n.test, repo, fb.module) for n in walk_no_nested(fb.node) if isinstance(n, ast.If) and flow.always_raises(n.body)]
    r.check(gs == ['witver < 0 or witver > 16'], 'from_bytes:version', fb.site, 'version 0..16', 'from_bytes version rule is %s' % gs)
    m = repo.get_module('bitcoin')
    for name, ch in sorted(spec.CHAINS.items()):
        c = m.classes.get(ch['class'])
        v = repo.class_attr_value(c, 'BECH32_HRP') if c else UNKNOWN
        r.check(v == ch['hrp'], 'hrp:%s' % name, c.site if c else '', ch['hrp'], 'prefix of %s is %r, reference %r' % (name, v, ch['hrp']))
