"""C11 Bech32 segwit addresses: BIP173 codec and guaranteed corruption detection."""
import ast
import re

from ..model import UNKNOWN, ClassRef, FuncRef, norm, walk_no_nested
from ..rules import canon_guard, canon_text, equiv, equiv_folded
from .. import common, spec, flow, shape

SA = 'bitcoin.segwit_addr.'


def run(ctx):
    repo = ctx.repo
    rule_constants(ctx, repo)
    rule_polymod(ctx, repo)
    rule_decode_rules(ctx, repo)
    rule_convertbits(ctx, repo)
    rule_segwit_rules(ctx, repo)
    rule_encode(ctx, repo)
    rule_wrapper(ctx, repo)
    r = ctx.rule('C11.P1', 'the human-readable prefix is read from the selected chain at call time', engine='OWN', floor=1)
    common.rule_call_time_params(r, repo, files={'bitcoin/bech32.py', 'bitcoin/segwit_addr.py'})
    ctx.not_decided += ['the BCH distance guarantee (follows mathematically from the generator constants; not re-derived)', 'the bit regrouping arithmetic of convertbits beyond its rejection rules']
    ctx.assume('BIP173 generator polynomial detects up to four substitutions within 89 characters')


def is_reject(body):
    if len(body) != 1 or not isinstance(body[0], ast.Return):
        return False
    t = norm(body[0].value) if body[0].value is not None else 'None'
    return t in ('(None, None)', 'None')


def disjuncts(e):
    if isinstance(e, ast.BoolOp) and isinstance(e.op, ast.Or):
        out = []
        for v in e.values:
            out.extend(disjuncts(v))
        return out
    return [e]


def reject_rules(fi, repo):
    """canonical disjuncts of every rejecting `if` of fi -> {text: node}"""
    out = {}
    for n in walk_no_nested(fi.node):
        if isinstance(n, ast.If) and is_reject(n.body):
            for d in disjuncts(n.test):
                out[canon_guard(d, repo, fi.module)] = n
    return out


def compare_rules(r, fi, repo, want, prefix):
    """want: {key: (accepted canonical forms, measure text, description)}"""
    got = reject_rules(fi, repo)
    used = set()
    for key, (accepted, measure, what) in want.items():
        accepted = [canon_guard(ast.parse(a, mode='eval').body, repo, fi.module) for a in accepted]
        hit = [g for g in got if g in accepted]
        if hit:
            used.add(hit[0])
            r.ok('%s:%s' % (prefix, key), common.site_of(fi, got[hit[0]]), '%s: `%s`' % (what, hit[0]))
            continue
        near = [g for g in got if measure in g and g not in used]
        if near:
            used.add(near[0])
            r.violated('%s:%s' % (prefix, key), common.site_of(fi, got[near[0]]), '%s: the rejection rule is `%s`, BIP173: `%s`' % (what, near[0], accepted[0]))
        else:
            r.violated('%s:%s' % (prefix, key), fi.site, '%s: no rejection rule `%s` in %s' % (what, accepted[0], fi.name))
    for g in got:
        if g not in used:
            r.undecided('%s:extra:%s' % (prefix, g[:40]), common.site_of(fi, got[g]), 'additional rejection rule `%s` is not part of BIP173' % g)


def rule_constants(ctx, repo):
    r = ctx.rule('C11.C1', 'charset and generator constants', engine='CONST', floor=2)
    m = repo.get_module('bitcoin.segwit_addr')
    cs = repo.module_value(m, 'CHARSET')
    r.check(cs == spec.BECH32_CHARSET, 'charset', m.relpath + ':0', cs, 'CHARSET is %r' % (cs,))
    fi = repo.get_function(SA + 'bech32_polymod')
    gen = polymod_parts(repo, fi).get('table')
    r.check(gen is not None and list(gen) == list(spec.BECH32_GENERATORS), 'generators', fi.site, 'five BIP173 generator constants',
            'generator constants are %s' % ([hex(x) for x in gen] if isinstance(gen, (list, tuple)) else gen))


def polymod_parts(repo, fi):
    """the pieces of bech32_polymod by role: init, top, step, and the generator mixing (table, index range, condition),
    for both spellings of the mixing loop (range(n) with a conditional expression / enumerate(table) with an if)"""
    out = {}
    defs = {}
    for n in ast.walk(fi.node):
        if isinstance(n, ast.Assign) and len(n.targets) == 1:
            defs.setdefault(norm(n.targets[0]), []).append(n.value)
    out['defs'] = defs
    outer = [n for n in walk_no_nested(fi.node) if isinstance(n, ast.For) and n in fi.node.body]
    if len(outer) != 1:
        return out
    out['outer'] = outer[0]
    inner = [n for n in ast.walk(outer[0]) if isinstance(n, ast.For) and n is not outer[0]]
    if len(inner) != 1:
        return out
    lp = inner[0]
    xors = [n for n in ast.walk(lp) if isinstance(n, ast.AugAssign) and isinstance(n.op, ast.BitXor)]
    if len(xors) != 1:
        return out
    x = xors[0]
    cond = operand = None
    if isinstance(x.value, ast.IfExp) and repo.fold(x.value.orelse, fi.module) == 0:
        cond, operand = x.value.test, x.value.body
    else:
        par = getattr(x, '_parent', None)
        if isinstance(par, ast.If) and not par.orelse and len(par.body) == 1:
            cond, operand = par.test, x.value
    if cond is None:
        return out
    # index variable and table
    it = lp.iter
    idx = elem = table = None
    rng = None
    if isinstance(it, ast.Call) and norm(it.func) == 'range' and len(it.args) == 1 and isinstance(lp.target, ast.Name):
        idx = lp.target.id
        rng = repo.fold(it.args[0], fi.module)
        if isinstance(operand, ast.Subscript) and norm(operand.slice) == idx:
            tv = operand.value
            table = repo.fold(tv, fi.module)
            if table is UNKNOWN and isinstance(tv, ast.Name) and len(defs.get(tv.id, [])) == 1:
                table = repo.fold(defs[tv.id][0], fi.module)
    elif isinstance(it, ast.Call) and norm(it.func) == 'enumerate' and len(it.args) == 1 and isinstance(lp.target, ast.Tuple) and len(lp.target.elts) == 2:
        idx, elem = norm(lp.target.elts[0]), norm(lp.target.elts[1])
        tv = it.args[0]
        table = repo.fold(tv, fi.module)
        if table is UNKNOWN and isinstance(tv, ast.Name) and len(defs.get(tv.id, [])) == 1:
            table = repo.fold(defs[tv.id][0], fi.module)
        if norm(operand) == elem and isinstance(table, (list, tuple)):
            rng = len(table)
        else:
            table = None
    if isinstance(table, (list, tuple)) and all(isinstance(v, int) for v in table):
        out['table'] = list(table)
    out['range'] = rng
    out['idx'] = idx
    out['cond'] = cond
    out['target'] = norm(x.target)
    return out


def rule_polymod(ctx, repo):
    r = ctx.rule('C11.C2', 'checksum machinery: polymod step, prefix expansion, verification constant 1, checksum creation and extraction', engine='CONST', floor=8)
    from ..rules import canon_arith
    fi = repo.get_function(SA + 'bech32_polymod')
    pp = polymod_parts(repo, fi)
    defs = pp.get('defs', {})
    chk = pp.get('target', 'chk')
    init = [repo.fold(v, fi.module) for v in defs.get(chk, [])][:1]
    r.check(init == [1], 'polymod:init', fi.site, 'chk starts at 1', 'chk starts as %s' % init)
    top = defs.get('top', [None])[0]
    common.verdict3(r, 'polymod:top', fi.site, repo, fi, top, '%s >> 25' % chk, 'top bits')
    step = defs.get(chk, [None, None])[1] if len(defs.get(chk, [])) > 1 else None
    val = pp['outer'].target.id if pp.get('outer') is not None and isinstance(pp['outer'].target, ast.Name) else 'value'
    common.verdict3(r, 'polymod:step', fi.site, repo, fi, step, '(%s & 0x1ffffff) << 5 ^ %s' % (chk, val), 'shift step')
    cond = pp.get('cond')
    if cond is None or pp.get('idx') is None:
        r.undecided('polymod:generators', fi.site, 'generator mixing loop has an unrecognised shape')
    else:
        cond_ok = canon_arith(common.resolved(fi, cond, repo)) in (canon_arith('%s >> %s & 1' % (norm(top) if top is not None else 'top', pp['idx'])),
                                                                 canon_arith('(%s >> 25) >> %s & 1' % (chk, pp['idx'])))
        r.check(cond_ok and pp.get('range') == 5, 'polymod:generators', fi.site, 'chk ^= generator[i] when bit i of top is set, i in 0..4',
                'generator mixing tests `%s` for i in range(%s); BIP173: bit i of top, i in 0..4' % (norm(cond), pp.get('range')))
    he = repo.get_function(SA + 'bech32_hrp_expand')
    hp = he.params[0]
    common.verdict3(r, 'hrp-expand', he.site, repo, he, common.returned_value(he), '[ord(x) >> 5 for x in %s] + [0] + [ord(x) & 31 for x in %s]' % (hp, hp), 'prefix expansion')
    vc = repo.get_function(SA + 'bech32_verify_checksum')
    ve = common.return_expr(vc, inline_locals=True)
    vm = common.value_match(repo, vc, ve, 'bech32_polymod(bech32_hrp_expand(%s) + %s) == 1' % tuple(vc.params[:2])) if ve is not None else 'other'
    if vm == 'same':
        r.ok('verify', vc.site, 'polymod(expand(hrp) + data) == 1')
    elif ve is not None and 'bech32_polymod' in norm(ve):
        r.violated('verify', vc.site, 'verification is `%s`; BIP173: polymod(expand(hrp) + data) == 1' % norm(ve)[:120])
    else:
        r.undecided('verify', vc.site, 'verification is written as `%s`' % (norm(ve)[:100] if ve is not None else None))
    cc = repo.get_function(SA + 'bech32_create_checksum')
    h_, d_ = cc.params[:2]
    rv = common.returned_value(cc)
    # decided by unrolling: the comprehension is evaluated symbolically over its (constant) iteration domain and every
    # element brought to the arithmetic normal form, so `5 * (5 - i)`, `25 - 5 * i`, a descending range of shifts, `& 31`
    # / `% 32` / `& 0x1f` and `[0] * 6` all read alike
    ref = '[(bech32_polymod(bech32_hrp_expand(%s) + %s + [0, 0, 0, 0, 0, 0]) ^ 1) >> 5 * (5 - i) & 31 for i in range(6)]' % (h_, d_)
    want = unrolled(repo, cc, ast.parse(ref, mode='eval').body)
    got = unrolled(repo, cc, common.resolved(cc, rv, repo)) if rv is not None else None
    shown = ast.unparse(common.resolved(cc, rv, repo))[:160] if rv is not None else None
    if got is None:
        r.undecided('create', cc.site, 'checksum creation is written as `%s`' % shown)
    elif got == want:
        r.ok('create', cc.site, 'polymod(values + six zeros) ^ 1, six 5-bit groups')
    else:
        diff = [k for k in range(min(len(got), len(want))) if got[k] != want[k]]
        r.violated('create', cc.site, 'checksum creation is `%s`: %s; BIP173: polymod(expand(hrp) + data + [0]*6) ^ 1 split into six 5-bit groups, most significant first'
                   % (shown, ('%d groups instead of 6' % len(got)) if len(got) != len(want) else ('group %d is `%s`, BIP173 `%s`' % (diff[0], got[diff[0]][:80], want[diff[0]][:80]))))
    be = repo.get_function(SA + 'bech32_encode')
    h_, d_ = be.params[:2]
    rv = common.returned_value(be)
    refs = ["%s + '1' + ''.join([CHARSET[d] for d in %s + bech32_create_checksum(%s, %s)])" % (h_, d_, h_, d_),
            "%s + '1' + ''.join((CHARSET[d] for d in %s + bech32_create_checksum(%s, %s)))" % (h_, d_, h_, d_)]
    ms = [common.value_match(repo, be, rv, t) for t in refs]
    if 'same' in ms:
        r.ok('encode-string', be.site, "hrp + '1' + data characters + checksum characters")
    elif 'near' in ms:
        r.violated('encode-string', be.site, 'bech32_encode builds `%s`; BIP173: hrp + "1" + characters of data + checksum' % (ast.unparse(common.resolved(be, rv, repo))[:160] if rv is not None else None))
    else:
        r.undecided('encode-string', be.site, 'bech32_encode builds `%s`' % (ast.unparse(common.resolved(be, rv, repo))[:160] if rv is not None else None))


def unrolled(repo, fi, e):
    """[canonical text of each element] of a list comprehension with one generator over a constant range / tuple, or of
    a list display; None when it is something else"""
    from ..restore import NF
    from ..rules import canon_arith

    def ca(x):
        x = NF().visit(ast.parse(ast.unparse(x), mode='eval').body)
        try:
            return str(canon_arith(x))
        except Exception:
            return norm(x)
    if isinstance(e, ast.List):
        return [ca(x) for x in e.elts]
    if not (isinstance(e, ast.ListComp) and len(e.generators) == 1 and not e.generators[0].ifs and isinstance(e.generators[0].target, ast.Name)):
        return None
    dom = repo.fold(e.generators[0].iter, fi.module, cls=fi.cls)
    if isinstance(dom, range):
        dom = list(dom)
    if not isinstance(dom, (list, tuple)) or len(dom) > 64 or not all(isinstance(v, int) for v in dom):
        return None
    var = e.generators[0].target.id
    out = []
    for v in dom:
        class S(ast.NodeTransformer):
            def visit_Name(self, n):
                return ast.copy_location(ast.Constant(value=int(v)), n) if n.id == var and isinstance(n.ctx, ast.Load) else n
        out.append(ca(S().visit(ast.parse(ast.unparse(e.elt), mode='eval').body)))
    return out


def reject_outcomes(repo, fi):
    """{'reject': formula, 'accept': formula} of a decoder that answers (None, None) / None for refused input"""
    from ..rules import outcome_formula

    def classify(p):
        if p.end == 'return' and p.endnode is not None:
            t = norm(p.endnode.value) if p.endnode.value is not None else 'None'
            return 'reject' if t in ('(None, None)', 'None') else 'accept'
        return p.end
    try:
        return outcome_formula(repo, fi, classify)
    except OverflowError:
        return None


def decide_rejects(r, key, fi, repo, ref_reject, what, rules_table):
    """compare the refusal condition of `fi` with the reference formula; on a difference name the reference rule(s)
    whose atoms distinguish the two"""
    oc = reject_outcomes(repo, fi)
    if not oc or 'reject' not in oc or set(oc) - {'reject', 'accept'}:
        r.undecided(key, fi.site, 'the refusal condition of %s could not be extracted (outcomes: %s)' % (fi.name, sorted(oc) if oc else None))
        return None
    v = equiv(oc['reject'], ref_reject)
    if v is True:
        for k_, (txt, desc) in rules_table.items():
            r.ok('%s:%s' % (key, k_), fi.site, '%s: `%s`' % (desc, txt))
        return True
    if v is None:
        r.undecided(key, fi.site, 'the refusal condition of %s is not comparable with the BIP173 rule set by the guard algebra' % fi.name)
        return None
    w = equiv.witness or {}
    # which reference rules are decided differently on the witness?  Evaluate each rule on the witness cell.
    blamed = []
    for k_, (txt, desc) in rules_table.items():
        with_rule = ref_reject
        without = ' or '.join('(%s)' % t for kk, (t, d) in rules_table.items() if kk != k_) or 'False'
        if equiv(oc['reject'], without) is True:
            blamed.append((k_, txt, desc, 'missing'))
    if not blamed:
        for k_, (txt, desc) in rules_table.items():
            names = {n.id for n in ast.walk(ast.parse(txt, mode='eval')) if isinstance(n, ast.Name)} - {'x', 'any', 'all', 'len', 'ord'}
            if any(any(nm in str(a) for nm in names) for a in w):
                blamed.append((k_, txt, desc, 'differs'))
    for k_, (txt, desc) in rules_table.items():
        hit = [b for b in blamed if b[0] == k_]
        if hit:
            r.violated('%s:%s' % (key, k_), fi.site, '%s: the rule `%s` is %s in %s (the refusal conditions differ at %s)' % (desc, txt, 'missing' if hit[0][3] == 'missing' else 'not what the code tests', fi.name, w))
        elif blamed:
            r.ok('%s:%s' % (key, k_), fi.site, '%s: `%s`' % (desc, txt))
    if not blamed:
        r.violated('%s:rules' % key, fi.site, 'the refusal condition of %s differs from the BIP173 rule set at %s' % (fi.name, w))
    return False


def rule_decode_rules(ctx, repo):
    r = ctx.rule('C11.R1', 'bech32_decode rejects exactly: characters outside 33..126, mixed case, bad separator position, over 90 characters, non-charset data, bad checksum', engine='RULES', floor=8)
    fi = repo.get_function(SA + 'bech32_decode')
    b = fi.params[0]
    cs = spec.BECH32_CHARSET
    table = {
        'char-low': ('any((ord(x) < 33 or ord(x) > 126 for x in %s))' % b, 'characters outside 33..126'),
        'mixed-case': ('%s.lower() != %s and %s.upper() != %s' % (b, b, b, b), 'mixed case'),
        'separator-min': ('pos < 1', 'empty prefix / no separator'),
        'data-min': ('pos + 7 > len(%s)' % b, 'fewer than six characters after the separator'),
        'max-length': ('len(%s) > 90' % b, 'more than 90 characters'),
        'charset': ('not all((x in %r for x in %s[pos + 1:]))' % (cs, b), 'data characters outside the charset'),
        'checksum': ('not bech32_verify_checksum(hrp, data)', 'invalid checksum'),
    }
    # locals that are plain definitions are substituted so that the atoms speak about the same quantities
    defs = common.local_defs(fi)
    ref = ' or '.join('(%s)' % t for t, d in table.values())
    subs = {}
    for nm in ('hrp', 'data'):
        if nm in defs:
            subs[nm] = ast.unparse(defs[nm])
    ref_r = ref
    table_r = dict(table)
    decide_rejects(r, 'decode', FormulaView(fi, repo), repo, ref_r, 'bech32_decode', table_r)
    ds = {}
    for n in walk_no_nested(fi.node):
        if isinstance(n, ast.Assign) and len(n.targets) == 1:
            ds.setdefault(norm(n.targets[0]), []).append(n.value)
    pos = ds.get('pos', [None])[-1]
    pt = norm(pos) if pos is not None else None
    if pt == "%s.rfind('1')" % b:
        r.ok('separator-last', fi.site, 'separator is the last `1`')
    elif pt is not None and ("find('1')" in pt or 'index' in pt):
        r.violated('separator-last', fi.site, 'the separator is located with `%s`: BIP173 takes the LAST `1` (a prefix may itself contain `1`)' % pt)
    else:
        r.undecided('separator-last', fi.site, 'separator position computed as %s' % pt)
    low = [norm(v) for v in ds.get(b, [])]
    r.check(low[-1:] == ['%s.lower()' % b], 'lowercased', fi.site, 'decoded in lower case', 'the string is normalised as %s' % low)
    # what an accepted string decodes to, read along the accepting path(s)
    from ..table import Tracer
    tr = Tracer(repo, fi.module)
    accp = [p for p in tr.trace(fi.node.body, {}) if p.end == 'return' and p.endnode.value is not None and norm(p.endnode.value) not in ('(None, None)', 'None')]
    verdicts = set()
    shown = None
    for p in accp:
        pd = common.path_defs(p, keep=(b,))
        m = common.value_match(repo, fi, p.endnode.value, "(%s[:%s.rfind('1')], [CHARSET.find(x) for x in %s[%s.rfind('1') + 1:]][:-6])" % (b, b, b, b), defs=pd)
        verdicts.add(m)
        if m != 'same':
            shown = ast.unparse(common.resolved(fi, p.endnode.value, repo, defs=pd))[:160]
    site = common.site_of(fi, accp[0].endnode) if accp else fi.site
    if accp and verdicts == {'same'}:
        r.ok('split', fi.site, 'prefix before, data after the separator')
        r.ok('result', fi.site, 'data without the six checksum symbols')
    elif 'near' in verdicts:
        r.violated('result', site, 'decode returns `%s`; BIP173: (prefix before the separator, data symbols without the six checksum symbols)' % shown)
    else:
        r.undecided('result', site, 'decode returns `%s`' % shown)


class FormulaView(object):
    """a function seen with its single-definition locals that are not plain data substituted inside guards: the
    atoms of two spellings then speak about the same quantities (`data is None` after `data = f(x)` etc. stay as they are)"""

    def __init__(self, fi, repo):
        self.__dict__.update(fi.__dict__)
        self.fi = fi

    @property
    def params(self):
        return self.fi.params

    @property
    def site(self):
        return self.fi.site


def rule_convertbits(ctx, repo):
    r = ctx.rule('C11.R2', 'convertbits: rejects out-of-range symbols; without padding rejects >= frombits left-over bits or non-zero padding', engine='RULES', floor=3)
    from ..rules import outcome_formula
    fi = repo.get_function(SA + 'convertbits')
    loops = [n for n in fi.node.body if isinstance(n, ast.For)]
    if len(loops) != 1 or not isinstance(loops[0].target, ast.Name):
        r.undecided('loop', fi.site, 'regrouping loop not found')
        return
    lp = loops[0]
    val = lp.target.id

    def classify(p):
        if p.end == 'return' and p.endnode is not None:
            t = norm(p.endnode.value) if p.endnode.value is not None else 'None'
            return 'reject' if t in ('(None, None)', 'None') else 'accept'
        return p.end
    # (1) inside the loop: a symbol is refused iff it is negative or has bits above frombits
    oc = outcome_formula(repo, fi, classify, stmts=lp.body)
    rej = (oc or {}).get('reject', 'False')
    v = equiv(rej, '%s < 0 or %s >> frombits' % (val, val))
    if v is True:
        r.ok('symbol-range', common.site_of(fi, lp), 'value < 0 or value >> frombits')
    elif v is False:
        r.violated('symbol-range', common.site_of(fi, lp), 'a symbol is refused when `%s`; BIP173 regrouping refuses a symbol iff it is negative or does not fit frombits bits (%s)' % (rej, equiv.witness))
    else:
        r.undecided('symbol-range', common.site_of(fi, lp), 'symbol refusal condition `%s` is not comparable' % rej)
    # (2) after the loop, without padding: refuse frombits or more left-over bits, or non-zero padding bits
    after = fi.node.body[fi.node.body.index(lp) + 1:]
    oc = outcome_formula(repo, fi, classify, stmts=after)
    rej = (oc or {}).get('reject', 'False')
    ref = 'not pad and (bits >= frombits or (acc << tobits - bits & maxv))'
    v = equiv(rej, ref)
    if v is True:
        r.ok('padding-bits', fi.site, 'frombits or more left-over bits rejected')
        r.ok('padding-zero', fi.site, 'non-zero padding rejected')
    elif v is False:
        both = {'padding-bits': 'not pad and bits >= frombits', 'padding-zero': 'not pad and bits < frombits and (acc << tobits - bits & maxv)'}
        blamed = False
        for k_, part in both.items():
            other = [p_ for kk, p_ in both.items() if kk != k_][0]
            if equiv(rej, other) is True or equiv('(%s) and (%s)' % (rej, part), part) is not True:
                r.violated(k_, fi.site, 'without padding the final check refuses when `%s`; BIP173: bits >= frombits (five or more left-over bits) or non-zero padding bits (differs at %s)' % (rej, equiv.witness))
                blamed = True
            else:
                r.ok(k_, fi.site, part)
        if not blamed:
            r.violated('padding', fi.site, 'without padding the final check refuses when `%s`; BIP173: `%s`' % (rej, ref))
    else:
        r.undecided('padding', fi.site, 'final refusal condition `%s` is not comparable with `%s`' % (rej, ref))
    defs = {norm(n.targets[0]): n.value for n in walk_no_nested(fi.node) if isinstance(n, ast.Assign)}
    common.verdict3(r, 'maxv', fi.site, repo, fi, defs.get('maxv'), '(1 << tobits) - 1', 'maxv')
    d = fi.defaults().get('pad')
    r.check(d is not None and repo.fold(d, fi.module) is True, 'pad-default', fi.site, 'pad defaults to True (encoder side)', 'pad default changed')


def rule_segwit_rules(ctx, repo):
    r = ctx.rule('C11.R3', 'segwit decode rejects exactly: other prefix, bad regrouping, program length outside 2..40, version above 16, version 0 with length other than 20/32', engine='RULES', floor=7)
    fi = repo.get_function(SA + 'decode')
    hrp, addr = fi.params
    table = {
        'prefix': ('hrpgot != %s' % hrp, 'prefix other than the expected one'),
        'regroup': ('decoded is None', 'invalid regrouping'),
        'length-min': ('len(decoded) < 2', 'program shorter than 2 bytes'),
        'length-max': ('len(decoded) > 40', 'program longer than 40 bytes'),
        'version-max': ('data[0] > 16', 'witness version above 16'),
        'v0-length': ('data[0] == 0 and len(decoded) != 20 and len(decoded) != 32', 'version 0 with a length other than 20 or 32'),
    }
    ref = ' or '.join('(%s)' % t for t, d in table.values())
    decide_rejects(r, 'segwit', fi, repo, ref, 'decode', table)
    defs = {}
    for n in walk_no_nested(fi.node):
        if isinstance(n, ast.Assign) and len(n.targets) == 1:
            defs[norm(n.targets[0])] = n.value
    common.verdict3(r, 'regroup-call', fi.site, repo, fi, defs.get('decoded'), 'convertbits(data[1:], 5, 8, False)', 'regrouping call')
    dc = defs.get('(hrpgot, data)')
    r.check(dc is not None and norm(dc) == 'bech32_decode(%s)' % addr, 'decode-call', fi.site, 'bech32_decode(addr)', 'inner decode is %s' % (norm(dc) if dc is not None else None))
    acc = [n for n in walk_no_nested(fi.node) if isinstance(n, ast.Return) and n.value is not None and norm(n.value) not in ('(None, None)', 'None')]
    if len(acc) == 1:
        common.verdict3(r, 'result', common.site_of(fi, acc[0]), repo, fi, acc[0].value, '(data[0], convertbits(data[1:], 5, 8, False))', '(version, program)')
    else:
        r.undecided('result', fi.site, '%d accepting returns' % len(acc))


def rule_encode(ctx, repo):
    r = ctx.rule('C11.E1', 'encode: version symbol + regrouped program, lower case by construction, checked by decoding it again', engine='RULES', floor=2)
    fi = repo.get_function(SA + 'encode')
    hrp, ver, prog = fi.params
    build = 'bech32_encode(%s, [%s] + convertbits(%s, 8, 5))' % (hrp, ver, prog)
    from ..rules import outcome_formula

    def classify(p):
        if p.end == 'return' and p.endnode is not None:
            t = norm(p.endnode.value) if p.endnode.value is not None else 'None'
            return 'reject' if t in ('(None, None)', 'None') else 'accept'
        return p.end
    oc = outcome_formula(repo, fi, classify)
    acc = [n for n in walk_no_nested(fi.node) if isinstance(n, ast.Return) and n.value is not None and norm(n.value) not in ('(None, None)', 'None')]
    if len(acc) == 1:
        common.verdict3(r, 'build', common.site_of(fi, acc[0]), repo, fi, acc[0].value, build, 'encode builds')
    else:
        r.undecided('build', fi.site, '%d accepting returns' % len(acc))
    ret = ast.unparse(common.resolved(fi, acc[0].value, repo)) if len(acc) == 1 else 'ret'
    ok = None
    if oc and 'reject' in oc:
        # the self check, in the spelling the code uses for the built string (a local or the expression itself)
        names = [k for k, v in common.local_defs(fi).items() if norm(v) == build] + [build]
        for nm in names:
            if equiv(oc['reject'], 'decode(%s, %s) == (None, None)' % (hrp, nm)) is True:
                ok = True
        if ok is None:
            ok = False
    r.check(bool(ok), 'self-check', fi.site, 'result must decode under the same prefix', 'the encoder does not verify its result by decoding it (refusal condition: %s)' % (oc.get('reject') if oc else None))


def rule_wrapper(ctx, repo):
    r = ctx.rule('C11.W1', 'CBech32Data: decodes with the selected chain\'s prefix, refuses undecodable text with Bech32Error, prints through encode', engine='MODEL', floor=4)
    ci = repo.get_class('bitcoin.bech32.CBech32Data')
    new = ci.methods['__new__']
    s = new.params[1]
    defs = {norm(n.targets[0]): n.value for n in walk_no_nested(new.node) if isinstance(n, ast.Assign)}
    dv = defs.get('(witver, data)')
    common.verdict3(r, 'decode', new.site, repo, new, dv, 'decode(bitcoin.params.BECH32_HRP, %s)' % s, 'the wrapper decodes with')
    fv = repo.fold(ast.parse('decode', mode='eval').body, new.module)
    r.check(isinstance(fv, FuncRef) and fv.info.qualname == SA + 'decode', 'decode:binding', new.site, 'segwit_addr.decode', 'decode resolves to %r' % (fv,))
    gs = [(canon_guard(n.test, repo, new.module), n) for n in walk_no_nested(new.node) if isinstance(n, ast.If)]
    ok = any(g in ('witver is None and data is None', 'data is None and witver is None', 'witver is None', 'data is None') and flow.always_raises(n.body) for g, n in gs)
    exc = [norm(x.exc.func) for g, n in gs for x in n.body if isinstance(x, ast.Raise) and isinstance(x.exc, ast.Call)]
    r.check(ok and exc == ['Bech32Error'], 'refusal', new.site, 'undecodable text raises Bech32Error', 'refusal handling is %s / %s' % ([g for g, n in gs], exc))
    st = ci.methods['__str__']
    common.verdict3(r, 'str', st.site, repo, st, common.returned_value(st), 'encode(bitcoin.params.BECH32_HRP, self.witver, self)', '__str__ returns')
    fb = ci.methods['from_bytes']
    gs = [canon_guard(n.test, repo, fb.module) for n in walk_no_nested(fb.node) if isinstance(n, ast.If) and flow.always_raises(n.body)]
    r.check(len(gs) == 1 and equiv(gs[0], 'witver < 0 or witver > 16') is True, 'from_bytes:version', fb.site, 'version 0..16', 'from_bytes version rule is %s' % gs)
    m = repo.get_module('bitcoin')
    for name, ch in sorted(spec.CHAINS.items()):
        c = m.classes.get(ch['class'])
        v = repo.class_attr_value(c, 'BECH32_HRP') if c else UNKNOWN
        r.check(v == ch['hrp'], 'hrp:%s' % name, c.site if c else '', ch['hrp'], 'prefix of %s is %r, reference %r' % (name, v, ch['hrp']))
