"""C03 Legacy signature hash equals the consensus algorithm for every hash type."""
import ast

from ..model import UNKNOWN, ClassRef, FuncRef, norm, walk_no_nested
from ..layout import LayoutEngine, fmt_info
from ..sighash import Legacy, Bip143, hash_kind
from ..resolve import Resolver
from ..own import ReadOnly
from .. import common, flow
from . import c04

HASH_ONE = b'\x01' + b'\x00' * 31


def run(ctx):
    repo = ctx.repo
    eng = LayoutEngine(repo)
    lg = Legacy(repo)
    r0 = ctx.rule('C03.A0', 'anchor: RawSignatureHash works on a scratch copy taken with from_tx', engine='MODEL', floor=1)
    if lg.scratch is None:
        r0.violated('scratch-copy', lg.fi.site, 'RawSignatureHash does not take a scratch copy `X = <Class>.from_tx(%s)`: it would edit the caller\'s transaction' % lg.p_tx)
        return
    owner = repo.fold(lg.copy_stmt.value.func.value, lg.fi.module)
    r0.check(isinstance(owner, ClassRef) and owner.info.name == 'CMutableTransaction', 'scratch-copy', common.site_of(lg.fi, lg.copy_stmt),
             'scratch = CMutableTransaction.from_tx(%s)' % lg.p_tx, 'scratch copy is taken with `%s`' % norm(lg.copy_stmt.value))
    rule_table(ctx, repo, lg)
    rule_wrapper(ctx, repo)
    rule_RO(ctx, repo, eng, lg)
    rule_find_and_delete(ctx, repo)
    c04.common_hash_rule(ctx, repo, 'C03.H1')
    # what is hashed is the serialisation of the scratch copy: its layout, field ranges and constructor ranges (C01),
    # and the tokeniser FindAndDelete walks with (C08)
    from . import c01, c08
    from .. import escape as _esc
    common.retag(ctx, 'C03.S1', c01.rule_L1, repo, eng, title='the scratch transaction serialises as the wire format')
    common.retag(ctx, 'C03.S2', c01.rule_R1, repo, eng)
    common.retag(ctx, 'C03.S3', _esc.rule_C01_E2, repo)
    common.retag(ctx, 'C03.S4', c08.rule_raw_iter, repo)
    # the scratch copy is deep: what used to be an assumption is the C09 copy-constructor rule, run here
    from . import c09
    base, imm, mut = c09.classes(repo)
    c09.rule_R6(ctx, repo, eng, imm, mut, rid='C03.F2')
    ctx.not_decided += ['the bytes FindAndDelete produces on arbitrary scripts (only: every result comes out of the complete token walk)', 'the digest value (SHA-256, serialisation bytes: see C01)']
    ctx.assume('the serialisation of the scratch copy is the C01 layout')


def rule_find_and_delete(ctx, repo):
    """Must-pass-through: whatever FindAndDelete returns has been through the whole token walk.  A shortcut return
    (a length comparison, an emptiness test) hands back the script without deleting a pattern that *is* the script, and
    without the CScriptInvalidError a truncated push raises during the walk."""
    r = ctx.rule('C03.F1', 'every value FindAndDelete returns is the accumulator of the complete raw_iter() walk over the script', engine='DOM', floor=2)
    fi = repo.get_function('bitcoin.core.script.FindAndDelete')
    if fi is None:
        r.undecided('anchor', 'bitcoin/core/script.py:0', 'FindAndDelete not found')
        return
    script = fi.params[0]
    loops = [n for n in walk_no_nested(fi.node) if isinstance(n, ast.For) and isinstance(n.iter, ast.Call) and norm(n.iter) == '%s.raw_iter()' % script]
    if len(loops) != 1:
        r.undecided('walk', fi.site, 'expected one loop over %s.raw_iter(), found %d' % (script, len(loops)))
        return
    loop = loops[0]
    acc = sorted({n.target.id for n in ast.walk(loop) if isinstance(n, ast.AugAssign) and isinstance(n.target, ast.Name)}
                 | {n.func.value.id for n in ast.walk(loop) if isinstance(n, ast.Call) and isinstance(n.func, ast.Attribute)
                    and n.func.attr in ('append', 'extend') and isinstance(n.func.value, ast.Name)})

    # the pieces kept are cut at token starts: every slice of the script that goes into the result is bounded by the
    # position raw_iter() yields (or a copy of an earlier one); an end computed from the opcode and the data length
    # re-derives the tokeniser's extents and is not decided here
    idx_names = set()
    if isinstance(loop.target, ast.Tuple) and len(loop.target.elts) == 3 and isinstance(loop.target.elts[2], ast.Name):
        idx_names.add(loop.target.elts[2].id)
    for _ in range(3):
        for n in walk_no_nested(fi.node):
            if isinstance(n, ast.Assign) and all(isinstance(t, ast.Name) for t in n.targets):
                vals = n.value.elts if isinstance(n.value, ast.Tuple) else [n.value]
                if all((isinstance(v, ast.Name) and v.id in idx_names) or (isinstance(v, ast.Constant) and v.value == 0) for v in vals):
                    idx_names.update(t.id for t in n.targets)
    for n in walk_no_nested(fi.node):
        if isinstance(n, ast.Subscript) and norm(n.value) == script and isinstance(n.slice, ast.Slice):
            par = getattr(n, '_parent', None)
            feeds = isinstance(par, ast.AugAssign) or (isinstance(par, ast.Call) and isinstance(par.func, ast.Attribute) and par.func.attr in ('append', 'extend')) \
                or isinstance(par, (ast.BinOp, ast.Return))
            if not feeds:
                continue
            for b_ in (n.slice.lower, n.slice.upper):
                if b_ is None or (isinstance(b_, ast.Name) and b_.id in idx_names):
                    continue
                r.undecided('piece-bounds:%s' % norm(n)[:40], common.site_of(fi, n), 'the kept piece `%s` is not cut at positions yielded by raw_iter(): `%s` re-derives a token extent' % (norm(n), norm(b_)))

    def gen(stmt, facts):
        if stmt is loop:
            return facts  # facts at loop entry; 'walked' is added after the loop by the wrapper below
        return facts
    # run the must-analysis on a body where the loop is followed by a marker: emulate by checking position
    mf = flow.run_must(fi.node, gen=lambda st, f: f)
    # statements are visited in order; a return is "after the walk" iff the loop statement precedes it on every path:
    # since the loop is a top-level statement of the function, that is: the return is not nested before/inside it.
    top = list(fi.node.body)
    if loop not in top:
        r.undecided('walk', common.site_of(fi, loop), 'the token walk is nested inside another statement')
        return
    k = top.index(loop)
    early = [n for st in top[:k + 1] for n in walk_no_nested(st) if isinstance(n, ast.Return)]
    r.check(not early, 'no-shortcut', common.site_of(fi, early[0]) if early else fi.site, 'no return before the end of the token walk',
            'FindAndDelete returns `%s` before the token walk has finished: the pattern is not deleted on that path (and a malformed script no longer raises)'
            % (norm(early[0].value) if early else ''))
    late = [n for st in top[k + 1:] for n in walk_no_nested(st) if isinstance(n, ast.Return)]
    if not late:
        r.undecided('returns-accumulator', fi.site, 'no return after the walk')
        return
    for i, n in enumerate(late):
        names = {x.id for x in ast.walk(n.value) if isinstance(x, ast.Name)} if n.value is not None else set()
        r.check(bool(names & set(acc)) and script not in names, 'returns-accumulator:%d' % i, common.site_of(fi, n),
                'returns the accumulator (%s)' % ', '.join(acc), 'FindAndDelete returns `%s`, which is not built from the walk\'s accumulator (%s)' % (norm(n.value), ', '.join(acc)))


def rule_table(ctx, repo, lg):
    r = ctx.rule('C03.D1', 'decision and commitment table of RawSignatureHash over 256 hash types x index orderings equals the consensus algorithm',
                 engine='TABLE+OWN', floor=54)
    groups = {}
    nrows = 0
    for ht, on, oo, paths in lg.rows():
        nrows += 1
        base = ht & 0x1f
        cls = {2: 'NONE', 3: 'SINGLE'}.get(base, 'ALL-like')
        key = '%s%s:%s:%s' % (cls, '|ACP' if ht & 0x80 else '', on, oo)
        g = groups.setdefault(key, {'n': 0, 'bad': [], 'und': []})
        g['n'] += 1
        if len(paths) != 1:
            g['und'].append((ht, 'guards do not fold (%d paths; atoms %s)' % (len(paths), sorted({k for p in paths for k in p.assume})[:3])))
            continue
        S, result, problem = lg.interpret(paths[0])
        if problem:
            if 'positional' in problem or problem.startswith('DEFECT:'):
                g['bad'].append((ht, problem))
            else:
                g['und'].append((ht, problem))
            continue
        want = lg.reference(ht, on, oo)
        bad = compare(lg, S, result, want)
        if bad and bad.startswith('UND:'):
            # a value the interpreter could not reduce: what it is was not decided, so neither is the row
            g['und'].append((ht, bad[4:]))
        elif bad:
            g['bad'].append((ht, bad))
    site = lg.fi.site
    for key in sorted(groups):
        g = groups[key]
        if g['bad']:
            ht, why = g['bad'][0]
            r.violated(key, site, '%d of %d rows deviate from the consensus algorithm; first: hashtype 0x%02x: %s' % (len(g['bad']), g['n'], ht, why))
        elif g['und']:
            r.undecided(key, site, 'hashtype 0x%02x: %s' % g['und'][0])
        else:
            r.ok(key, site, '%d rows agree' % g['n'])
    ctx.extra['decision_rows'] = nrows
    ctx.extra['exhaustive_domain'] = '256 hash-type bytes x 3 orderings inIdx/len(vin) x 3 orderings inIdx/len(vout)'


def _opaque(v):
    if isinstance(v, tuple):
        if v and v[0] == 'expr':
            return True
        return any(_opaque(x) for x in v)
    if isinstance(v, list):
        return any(_opaque(x) for x in v)
    if isinstance(v, dict):
        return any(_opaque(x) for x in v.values())
    return False


def compare(lg, S, result, want):
    if result is None:
        return 'the function can finish without returning (digest, error)'
    val, err = result
    if want == 'const-one':
        if val != ('const', HASH_ONE):
            return ('UND:' if _opaque(val) else '') + 'must return the historical constant 1 (01 00..00) but returns %r' % (val,)
        if err != 'error':
            return 'the constant-1 case must carry an error indication, got %s' % err
        return None
    if err != 'none':
        return 'a regular digest must be returned with a None error, got %s' % err
    if not (val and val[0] == 'hash' and val[1] and val[1][0] == 'ser'):
        return ('UND:' if val and val[0] == 'expr' else '') + 'returns %r, not Hash(serialize(scratch) || hashtype)' % (val,)
    els = val[1][1]
    if len(els) != 2 or els[0][0] != 'scratch' or els[1][0] != 'int':
        return 'digest input is %r, not serialize(scratch) followed by the 4-byte hash type' % (els,)
    _, fmt, src = els[1]
    try:
        w, order, rng = fmt_info(fmt)
    except Exception:
        return 'hash type packed with %r' % fmt
    if not (w == 4 and order == '<' and rng and rng[0] <= 0 and rng[1] >= 255 and src == lg.p_ht):
        return 'hash type appended as %r of `%s`, consensus: four little-endian bytes of the hash type' % (fmt, src)
    if rng[0] >= 0:
        # the consensus hash type is a signed 32-bit integer (the reference vectors use negative ones)
        return 'hash type appended as %r: an unsigned field refuses the negative hash types, for which the consensus algorithm defines a digest (the type is a signed 32-bit integer)' % (fmt,)
    st = els[0][1]
    for k in ('own.scriptSig', 'others.scriptSig', 'own.nSequence', 'others.nSequence', 'own.prevout', 'others.prevout', 'wit', 'nVersion', 'nLockTime'):
        if st.get(k) != want[k]:
            return '%s is %s in the hashed copy, consensus: %s' % (k, st.get(k), want[k])
    # inputs
    inputs = st.get('inputs')
    if inputs == 'list':
        inputs = 'own-only' if st.get('vin_list') == [('keep', ('in', 'own'))] else 'list:%r' % (st.get('vin_list'),)
    if inputs != want['inputs']:
        return 'inputs kept: %s, consensus: %s' % (inputs, want['inputs'])
    outputs = st.get('outputs')
    if outputs == 'list':
        vl = st.get('vout_list')
        if vl == [('blanks', 'own', ('blank', -1, b'')), ('keep', ('out', 'own'))]:
            outputs = 'single'
        else:
            outputs = 'list:%r' % (vl,)
    if outputs != want['outputs']:
        return 'outputs kept: %s, consensus: %s' % (outputs, want['outputs'])
    if not st.get('copied'):
        return 'no scratch copy on this path'
    return None


def rule_wrapper(ctx, repo):
    r = ctx.rule('C03.P1', 'SignatureHash (legacy branch) raises ValueError exactly when the raw form reports an error, and returns the raw digest otherwise',
                 engine='DOM', floor=3)
    b = Bip143(repo)
    fi = b.fi
    tail = b.legacy_tail if b.branch is not None else fi.node.body
    call = None
    hv = ev = None
    for s in tail:
        if isinstance(s, ast.Assign) and isinstance(s.value, ast.Call):
            v = repo.fold(s.value.func, fi.module)
            if isinstance(v, FuncRef) and v.info.qualname == 'bitcoin.core.script.RawSignatureHash' and isinstance(s.targets[0], ast.Tuple) \
                    and len(s.targets[0].elts) == 2:
                call = s
                hv, ev = [norm(x) for x in s.targets[0].elts]
    if call is None:
        r.violated('delegates', fi.site, 'the legacy branch of SignatureHash does not take (digest, error) from RawSignatureHash')
        return
    args = [norm(a) for a in call.value.args]
    r.check(args == fi.params[:4], 'delegates', common.site_of(fi, call), 'RawSignatureHash(%s)' % ', '.join(args),
            'RawSignatureHash is called with (%s), not with the caller\'s (%s)' % (', '.join(args), ', '.join(fi.params[:4])))

    def cond(test):
        t = norm(test)
        if t in ('%s is not None' % ev, '%s != None' % ev, ev):
            return frozenset(['err']), frozenset(['noerr'])
        if t in ('%s is None' % ev, 'not %s' % ev):
            return frozenset(['noerr']), frozenset(['err'])
        return frozenset(), frozenset()
    idx = tail.index(call)
    mf = flow.run_must(ast.Module(body=tail[idx + 1:], type_ignores=[]), cond=cond)
    ok_ret = ok_raise = False
    bad = []
    for kind, node, facts in mf.exits:
        if kind in ('return', 'fallthrough'):
            if 'noerr' in facts and node is not None and norm(node.value) == hv:
                ok_ret = True
            else:
                bad.append((node, 'a normal return is reached without the error test, or does not return the raw digest'))
        elif kind == 'raise':
            exc = node.exc
            if 'err' in facts and isinstance(exc, ast.Call) and norm(exc.func) == 'ValueError':
                ok_raise = True
            else:
                bad.append((node, 'raises `%s` %s' % (norm(exc) if exc is not None else 're-raise', 'without' if 'err' not in facts else 'under')))
    for node, why in bad:
        r.violated('error-mapping', common.site_of(fi, node) if node is not None else fi.site, 'SignatureHash legacy branch: ' + why)
    if not bad:
        r.check(ok_ret and ok_raise, 'error-mapping', common.site_of(fi, call), 'error <=> ValueError; otherwise the raw digest is returned',
                'the legacy branch lacks %s' % ('the ValueError for a reported error' if not ok_raise else 'a normal return of the digest'))
    # nothing is evaluated on the way to the raw form that could raise something else: an index, in particular, is looked
    # at by RawSignatureHash first (and reported as an error value), never by the wrapper
    body = fi.node.body
    pre = []
    for s in body:
        if b.branch is not None and s is b.branch:
            break
        if s in tail:
            break
        pre.append(s)
    pre += tail[:idx]
    np_ = 0
    from ..rules import canon_guard as _cg3
    raw_fi = repo.get_function('bitcoin.core.script.RawSignatureHash')
    raw_err = set()
    for g_ in raw_fi.node.body:
        if isinstance(g_, ast.If) and g_.body and isinstance(g_.body[-1], ast.Return) and isinstance(g_.body[-1].value, ast.Tuple) and len(g_.body[-1].value.elts) == 2 \
                and norm(g_.body[-1].value.elts[1]) != 'None':
            raw_err.add(_cg3(g_.test, repo, raw_fi.module))
    for s in pre:
        if isinstance(s, ast.Expr) and isinstance(s.value, ast.Constant):
            continue
        if isinstance(s, ast.Assert):
            continue
        if isinstance(s, ast.If) and not s.orelse and len(s.body) == 1 and isinstance(s.body[0], ast.Raise) and isinstance(s.body[0].exc, ast.Call) \
                and norm(s.body[0].exc.func) == 'ValueError' and fi.params[:4] == raw_fi.params[:4] and _cg3(s.test, repo, fi.module) in raw_err:
            # the wrapper repeats a test the raw form makes (and reports as an error value): ValueError either way
            np_ += 1
            r.ok('prefix:%s' % norm(s.test)[:40], common.site_of(fi, s), 'repeats an error condition of the raw form, raising ValueError')
            continue
        for x in ast.walk(s):
            if isinstance(x, ast.Subscript) and not isinstance(x.slice, ast.Slice) and any(isinstance(y, ast.Name) and y.id == fi.params[2] for y in ast.walk(x.slice)):
                np_ += 1
                from ..escape import implied_at as _imp
                try:
                    g_ = _imp(repo, fi, x, '%s < len(%s)' % (norm(x.slice), norm(x.value))) if isinstance(x.slice, ast.Name) else None
                except Exception:
                    g_ = None
                if g_ is True:
                    r.ok('prefix:%s' % norm(x), common.site_of(fi, x), 'index guarded from above')
                    continue
                if g_ is None and any(norm(x.value) in norm(t_) for t_, _p in __import__('pblint.escape', fromlist=['path_condition']).path_condition(x)):
                    r.undecided('prefix:%s' % norm(x), common.site_of(fi, x), 'whether `%s` is guarded is not decided' % norm(x))
                    continue
                r.violated('prefix:%s' % norm(x), common.site_of(fi, x),
                           'SignatureHash evaluates `%s` before handing over to RawSignatureHash: an input index that does not exist raises IndexError here, where the raw form '
                           'reports the error that becomes ValueError' % norm(x), sure=True)
            elif isinstance(x, ast.Call) and not isinstance(s, ast.Assert):
                np_ += 1
                r.undecided('prefix:%s' % norm(x)[:40], common.site_of(fi, x), 'SignatureHash calls `%s` on the way to the raw form; what it can raise is not decided' % norm(x)[:80])
    if not any(i_.key.startswith('prefix') and i_.status != 'HOLDS' for i_ in r.instances):
        r.ok('prefix', fi.site, 'nothing that can raise is evaluated before the raw form is called (%d statements)' % len(pre))
    # nothing else may reject in the legacy branch (the digest is defined for every subscript that parses)
    n = 0
    for s in tail:
        for x in ast.walk(s):
            if isinstance(x, ast.Assert):
                n += 1
                r.violated('assert:%s' % norm(x.test), common.site_of(fi, x),
                           'the convenience form can raise AssertionError (`assert %s`): only ValueError is allowed, and the raw form computes the digest' % norm(x.test))
    if n == 0:
        r.ok('no-assert', fi.site, 'no assert in the legacy branch')
    # an index that does not exist is checked from above before anything else in the raw form
    lg = Legacy(repo)
    first = None
    for s in lg.fi.node.body:
        if isinstance(s, ast.If):
            first = s
            break
    ok = first is not None and norm(first.test) in ('%s >= len(%s.vin)' % (lg.p_idx, lg.p_tx), 'len(%s.vin) <= %s' % (lg.p_tx, lg.p_idx))
    r.check(ok, 'index-guard', common.site_of(lg.fi, first) if first is not None else lg.fi.site, 'inIdx >= len(vin) handled first',
            'the raw form does not start with the `inIdx >= len(txTo.vin)` case')


def rule_RO(ctx, repo, eng, lg):
    r = ctx.rule('C03.RO', 'neither form ever stores through the transaction it is given', engine='OWN', floor=2)
    res = Resolver(repo, eng)
    ro = ReadOnly(repo, res)
    for q in ('bitcoin.core.script.RawSignatureHash', 'bitcoin.core.script.SignatureHash'):
        fi = repo.get_function(q)
        ws = ro.writes(fi, 'txTo')
        key = q.split('.')[-1]
        if ws:
            for f, node, text, path in ws[:4]:
                r.violated('%s:%s' % (key, text), common.site_of(f, node), '%s modifies the caller\'s transaction: %s in %s' % (key, text, f.qualname), path=list(path))
        else:
            r.ok(key, fi.site, 'no store/delete/mutating call through txTo')
