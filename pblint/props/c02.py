"""C02 Identifiers: txid ignores witness, wtxid covers it, block hash = header hash."""
import ast

from ..model import UNKNOWN, ClassRef, FuncRef, ClassInfo, norm, walk_no_nested
from ..layout import LayoutEngine, Undecided, fixed_width
from ..table import Tracer
from ..sighash import hash_kind
from .. import common, spec
from . import c01, c09, c04


def run(ctx):
    repo = ctx.repo
    eng = LayoutEngine(repo)
    rule_T1(ctx, repo, eng)
    rule_T2(ctx, repo, eng)
    rule_T3(ctx, repo, eng)
    rule_T4(ctx, repo, eng)
    rule_T5(ctx, repo)
    rule_W1(ctx, repo, eng)
    rule_T6(ctx, repo)
    # a cached identifier is an identifier of the object's *current* fields only if those fields cannot change:
    # the deep-immutability obligations of C09 are obligations of this property as well
    base, imm, mut = c09.classes(repo)
    c09.rule_R5(ctx, repo, eng, imm, mut, rid='C02.F1')
    c09.rule_R6(ctx, repo, eng, imm, mut, rid='C02.F2')
    c04.common_hash_rule(ctx, repo, 'C02.H1')
    ctx.not_decided += ['collision-freeness of SHA-256 ("differs exactly when" is decided up to the witness guard of C01.L3)']
    ctx.assume('hashlib.sha256 is SHA-256')


def _body(fi):
    return [s for s in fi.node.body if not (isinstance(s, ast.Expr) and isinstance(s.value, ast.Constant))]


WITNESS_EMPTY_ATOMS = {
    'self.wit != CTxWitness()': False, 'self.wit == CTxWitness()': True, 'self.wit.is_null()': True,
    'self.has_witness()': False, 'CTxWitness() != self.wit': False, 'CTxWitness() == self.wit': True,
}


def rule_T1(ctx, repo, eng):
    r = ctx.rule('C02.T1', 'every value hashed by GetTxid is a witness-free serialisation of the same fields', engine='DOM+LAYOUT', floor=2)
    tx = repo.get_class('bitcoin.core.CTransaction')
    fi = repo.lookup_method(tx, 'GetTxid')
    if fi is None:
        r.undecided('GetTxid', tx.site, 'CTransaction.GetTxid not found')
        return
    tr = Tracer(repo, fi.module, cls=fi.cls)
    paths = tr.trace(fi.node.body, {})
    n = 0
    extra_paths = []
    work = list(paths)
    k_ = 0
    while k_ < len(work):
        p = work[k_]
        k_ += 1
        if extra_paths:
            work.extend(extra_paths)
            extra_paths[:] = []
        if p.end not in ('return', 'fall'):
            continue
        n += 1
        ret = p.endnode
        key = 'path:' + (','.join('%s=%s' % (k, v) for k, v in sorted(p.assume.items())) or 'unconditional')
        if ret is None or ret.value is None:
            r.violated(key, fi.site, 'GetTxid can finish without returning an identifier')
            continue
        # resolve the returned expression through the local assignments on this path
        expr = ret.value
        if isinstance(expr, ast.Name):
            for s in reversed(p.stmts()):
                if isinstance(s, ast.Assign) and len(s.targets) == 1 and norm(s.targets[0]) == expr.id:
                    expr = s.value
                    break
        site = common.site_of(fi, expr)
        if hash_kind(repo, expr, fi) != 'Hash' or len(expr.args) != 1:
            if any(isinstance(x, ast.Attribute) and x.attr.startswith('_cached') for x in ast.walk(expr)):
                r.violated(key, site, 'GetTxid returns a cached value (`%s`): stale on a mutable transaction after a field edit' % norm(expr))
            else:
                r.violated(key, site, 'GetTxid returns `%s`, not Hash(<witness-free serialisation>)' % norm(expr)[:80])
            continue
        ser = expr.args[0]
        # locals assigned on this path (a `preimage`, a `stripped` object chosen by a branch) stand for their last value

        def on_path(e, depth=0):
            if depth > 4:
                return e
            env_ = {}
            for s_ in p.stmts():
                if isinstance(s_, ast.Assign) and len(s_.targets) == 1 and isinstance(s_.targets[0], ast.Name):
                    env_[s_.targets[0].id] = s_.value

            class Sub(ast.NodeTransformer):
                def visit_Name(self, n_):
                    if isinstance(n_.ctx, ast.Load) and n_.id in env_ and n_.id != 'self':
                        return on_path(ast.parse(ast.unparse(env_[n_.id]), mode='eval').body, depth + 1)
                    return n_
            return ast.fix_missing_locations(Sub().visit(ast.parse(ast.unparse(e), mode='eval').body))
        ser = on_path(ser)
        if isinstance(ser, ast.IfExp):
            # Hash(A if c else B): decide the arm this path selects when the test is one of the assumed atoms, else both
            tv = tr.tri(ser.test, p)
            if tv is None:
                t_ = norm(ser.test)
                known_empty = WITNESS_EMPTY_ATOMS.get(t_)
                if known_empty is not None:
                    # judge the two arms as two paths
                    for val, arm in ((True, ser.body), (False, ser.orelse)):
                        q = p.fork()
                        q.assume[t_] = val
                        q.end, q.endnode = 'return', ast.copy_location(ast.Return(value=ast.Call(func=expr.func, args=[arm], keywords=[])), ret)
                        work.append(q)
                    n -= 1
                    continue
            else:
                ser = ser.body if tv else ser.orelse
        if not (isinstance(ser, ast.Call) and isinstance(ser.func, ast.Attribute) and ser.func.attr == 'serialize'):
            r.violated(key, site, 'hashed value `%s` is not a serialisation' % norm(ser)[:60])
            continue
        obj = ser.func.value
        stripped_arg = False
        for a in list(ser.args) + [k.value for k in ser.keywords]:
            v = repo.fold(a, fi.module, cls=fi.cls)
            if isinstance(v, dict) and v.get('include_witness') is False:
                stripped_arg = True
        if isinstance(obj, ast.Name) and obj.id == 'self':
            if stripped_arg:
                r.ok(key, site, 'self.serialize(include_witness=False)')
                continue
            empty = any(p.assume.get(a) is v for a, v in WITNESS_EMPTY_ATOMS.items())
            if empty:
                # the guard expression itself: comparison with the default witness object means "no entries", which
                # serialises without witness section; is_null()/has_witness() are the witness-empty test of C01.L3
                r.ok(key, site, 'full serialisation hashed only under a witness-empty guard (%s)' % ', '.join('%s=%s' % kv for kv in sorted(p.assume.items())))
            else:
                r.violated(key, site, 'GetTxid hashes the full serialisation `%s` on a path without a witness-empty guard (assumptions: %s): the txid then changes with the witness'
                           % (norm(ser), dict(p.assume) or 'none'))
            continue
        if isinstance(obj, ast.Call):
            cv = repo.fold(obj.func, fi.module, cls=fi.cls)
            if isinstance(cv, ClassRef) and repo.is_subclass(cv.info, tx):
                init = repo.lookup_method(cv.info, '__init__')
                ps = init.params[1:]
                bound = {}
                for i, a in enumerate(obj.args):
                    if i < len(ps):
                        bound[ps[i]] = norm(a)
                for k in obj.keywords:
                    bound[k.arg] = norm(k.value)
                _, slots = eng.param_slots(cv.info)
                wit_params = [pn for pn, sl in slots.items() if sl == 'wit']
                problems = []
                for pn in wit_params:
                    if pn in bound:
                        problems.append('passes the witness (`%s=%s`) to the reconstruction' % (pn, bound[pn]))
                for pn, val in bound.items():
                    sl = slots.get(pn)
                    if sl and sl != 'wit' and val != 'self.%s' % sl:
                        problems.append('reconstruction takes %s from `%s`, not self.%s' % (sl, val, sl))
                for sl in ('vin', 'vout', 'nLockTime', 'nVersion'):
                    pn = [k for k, v in slots.items() if v == sl]
                    if pn and pn[0] not in bound:
                        problems.append('reconstruction omits %s' % sl)
                if problems:
                    r.violated(key, site, 'stripped reconstruction in GetTxid is wrong: ' + '; '.join(problems))
                else:
                    r.ok(key, site, 'reconstruction %s(...) without witness, field by field from self' % cv.info.name)
                continue
        if isinstance(obj, ast.Name):
            r.undecided(key, site, 'hashed object `%s` is a local this rule cannot resolve on the path' % obj.id)
        else:
            r.violated(key, site, 'hashed object `%s` is not recognised as witness-free' % norm(obj)[:60])
    if n == 0:
        r.undecided('GetTxid', fi.site, 'no returning path found')


def rule_T2(ctx, repo, eng):
    r = ctx.rule('C02.T2', 'GetHash is Hash(serialize()) with the witness included by default', engine='MODEL', floor=3)
    ser = repo.get_class('bitcoin.core.serialize.Serializable')
    f = ser.methods.get('GetHash')
    b = _body(f) if f else []
    ok = len(b) == 1 and isinstance(b[0], ast.Return) and norm(b[0].value) == 'Hash(self.serialize())' and hash_kind(repo, b[0].value, f) == 'Hash'
    r.check(ok, 'Serializable.GetHash', f.site if f else ser.site, 'Hash(self.serialize())', 'Serializable.GetHash is `%s`' % (norm(b[-1]) if b else '?'))
    imm = repo.get_class('bitcoin.core.serialize.ImmutableSerializable')
    g = imm.methods.get('GetHash')
    if g is not None:
        calls = [n for n in walk_no_nested(g.node) if isinstance(n, ast.Call) and isinstance(n.func, ast.Attribute) and n.func.attr == 'GetHash']
        ok = len(calls) == 1 and norm(calls[0].func.value).startswith('super(')
        r.check(ok, 'ImmutableSerializable.GetHash', g.site, 'caches super().GetHash()', 'ImmutableSerializable.GetHash does not delegate to the serialisation-based GetHash')
    tx = repo.get_class('bitcoin.core.CTransaction')
    eff = repo.lookup_method(tx, 'GetHash')
    r.check(eff is g or eff is f, 'CTransaction.GetHash', eff.site if eff else tx.site, 'resolves to %s' % (eff.qualname if eff else None),
            'CTransaction.GetHash resolves to %s, not the serialisation-based hash' % (eff.qualname if eff else None))
    w = repo.lookup_method(tx, 'stream_serialize')
    d = w.defaults().get('include_witness')
    r.check(d is not None and repo.fold(d, w.module) is True, 'include_witness-default', w.site, 'include_witness defaults to True',
            'stream_serialize(include_witness=...) does not default to True: GetHash would not cover the witness')
    # serialize() forwards nothing but params to stream_serialize
    s = ser.methods.get('serialize')
    calls = [n for n in walk_no_nested(s.node) if isinstance(n, ast.Call) and norm(n.func) == 'self.stream_serialize']
    r.check(len(calls) == 1, 'Serializable.serialize', s.site, 'serialize() is stream_serialize into a fresh buffer', 'serialize() does not call self.stream_serialize exactly once')


def rule_T3(ctx, repo, eng):
    r = ctx.rule('C02.T3', 'CBlock.GetHash hashes the 80-byte header rebuilt field by field; no transaction-dependent value reaches it', engine='LAYOUT', floor=8)
    blk = repo.get_class('bitcoin.core.CBlock')
    hdr = repo.get_class('bitcoin.core.CBlockHeader')
    g = repo.lookup_method(blk, 'GetHash')
    hashed = None
    if g.cls is blk:
        for n in walk_no_nested(g.node):
            if isinstance(n, ast.Call) and isinstance(n.func, ast.Attribute) and n.func.attr == 'GetHash':
                hashed = n.func.value
        ok = hashed is not None and norm(hashed) == 'self.get_header()'
        r.check(ok, 'CBlock.GetHash', g.site, 'hash of self.get_header()', 'CBlock.GetHash hashes `%s`, not the header' % (norm(hashed) if hashed is not None else 'nothing recognisable'))
        for n in walk_no_nested(g.node):
            if isinstance(n, ast.Call) and isinstance(n.func, ast.Attribute) and n.func.attr == 'serialize' and norm(n.func.value) == 'self':
                r.violated('CBlock.GetHash:full-serialisation', common.site_of(g, n), 'CBlock.GetHash hashes the whole block serialisation')
    else:
        r.violated('CBlock.GetHash', blk.site, 'CBlock does not override GetHash: the hash would cover the transactions (resolves to %s)' % g.qualname)
    gh = repo.lookup_method(blk, 'get_header')
    rets = [n for n in walk_no_nested(gh.node) if isinstance(n, ast.Return)]
    if len(rets) != 1 or not isinstance(rets[0].value, ast.Call):
        r.undecided('get_header', gh.site, 'unrecognised shape')
        return
    call = rets[0].value
    cv = repo.fold(call.func, gh.module)
    r.check(isinstance(cv, ClassRef) and cv.info is hdr, 'get_header:class', common.site_of(gh, call), 'builds a CBlockHeader', 'get_header builds `%s`' % norm(call.func))
    init = repo.lookup_method(hdr, '__init__')
    ps = init.params[1:]
    _, slots = eng.param_slots(hdr)
    bound = {}
    for i, a in enumerate(call.args):
        if i < len(ps):
            bound[ps[i]] = a
    for k in call.keywords:
        bound[k.arg] = k.value
    for pn in ps:
        sl = slots.get(pn, pn)
        key = 'get_header:%s' % sl
        if pn not in bound:
            r.violated(key, common.site_of(gh, call), 'get_header does not forward %s (the default would be hashed instead)' % sl)
            continue
        t = norm(bound[pn])
        r.check(t == 'self.%s' % sl, key, common.site_of(gh, bound[pn]), 'forwards self.%s' % sl,
                'get_header takes %s from `%s`, not from the stored header field: the block hash then depends on something other than the 80 header bytes' % (sl, t))
    eff = repo.lookup_method(hdr, 'GetHash')
    r.check(eff.cls is not None and eff.cls.name in ('ImmutableSerializable', 'Serializable'), 'CBlockHeader.GetHash', eff.site,
            'header hash is the serialisation-based hash', 'CBlockHeader.GetHash resolves to %s' % eff.qualname)
    try:
        fw, fr, W, R, _ = common.layouts_of(repo, eng, hdr, 'stream_serialize', 'stream_deserialize')
        r.check(fixed_width(W) == 80, 'header:80-bytes', fw.site, '80 bytes', 'header serialises to %s bytes' % fixed_width(W))
    except Undecided as e:
        r.undecided('header:80-bytes', hdr.site, str(e))


def rule_T4(ctx, repo, eng):
    r = ctx.rule('C02.T4', 'mutable twins share serialisation, txid and equality code and answer identifiers without caches', engine='OWN', floor=16)
    base, imm, mut = c09.classes(repo)
    rfi, rebinds = c09.make_mutable_rebinds(repo)
    ser = repo.get_class('bitcoin.core.serialize.Serializable')
    for m in mut:
        parent = [k for k in repo.mro(m)[1:] if isinstance(k, ClassInfo) and k in imm][0]
        for nm in ('stream_serialize', 'serialize', '__eq__', '__ne__', 'GetTxid'):
            a, b = repo.lookup_method(m, nm), repo.lookup_method(parent, nm)
            if a is None and b is None:
                continue
            r.check(a is b, '%s.%s' % (m.name, nm), (a or b).site, 'same implementation as %s' % parent.name,
                    '%s.%s resolves to %s but %s.%s to %s: equal field values may give different results'
                    % (m.name, nm, a.qualname if a else None, parent.name, nm, b.qualname if b else None))
        for nm in ('GetHash', '__hash__', 'GetTxid', 'serialize', '__eq__'):
            eff = c09.effective_method(repo, m, nm, rebinds, rfi)
            if eff is None or isinstance(eff, str):
                continue
            rd, wr = c09.cache_use(eff)
            r.check(not rd and not wr, '%s.%s:uncached' % (m.name, nm), eff.site, 'computed from the current fields (%s)' % eff.qualname,
                    'mutable %s answers %s() from a cache (%s in %s): stale after a field edit' % (m.name, nm, ', '.join(sorted(rd | wr)), eff.qualname))
        for nm in ('GetHash', '__hash__'):
            eff = c09.effective_method(repo, m, nm, rebinds, rfi)
            r.check(eff is ser.methods.get(nm), '%s.%s:base' % (m.name, nm), rfi.site, 'Serializable.%s' % nm,
                    'on mutable %s, %s is %s, not Serializable.%s' % (m.name, nm, getattr(eff, 'qualname', eff), nm))


def rule_T5(ctx, repo):
    r = ctx.rule('C02.T5', 'equality and Python hash are functions of the serialised form of the operands only', engine='MODEL', floor=4)
    ser = repo.get_class('bitcoin.core.serialize.Serializable')
    imm = repo.get_class('bitcoin.core.serialize.ImmutableSerializable')
    eq = ser.methods.get('__eq__')
    rets = [n for n in walk_no_nested(eq.node) if isinstance(n, ast.Return)]
    vals = [norm(n.value) for n in rets]
    other = eq.params[1]
    # the type guard, decided as a truth table over its two atoms: NotImplemented exactly when neither operand is an
    # instance of the other's class (so a mutable object and its immutable twin do compare by value)
    A = 'isinstance(%s, self.__class__)' % other
    B = 'isinstance(self, %s.__class__)' % other
    rows = {}
    undec = None
    for a in (True, False):
        for b in (True, False):
            tr = Tracer(repo, eq.module, cls=ser, atom=lambda e, p, a=a, b=b: {A: a, B: b}.get(norm(e)))
            ps = [p for p in tr.trace(eq.node.body, {})]
            if len(ps) != 1 or ps[0].end != 'return':
                undec = 'the path through __eq__ for %s=%s, %s=%s is not decided by the two isinstance tests (%d paths: %s)' % (
                    A, a, B, b, len(ps), sorted({k for p in ps for k in p.assume}))
                break
            rows[(a, b)] = norm(ps[0].endnode.value) == 'NotImplemented'
        if undec:
            break
    if undec:
        r.undecided('Serializable.__eq__:type-guard', eq.site, undec)
    else:
        want = {(True, True): False, (True, False): False, (False, True): False, (False, False): True}
        bad = [k for k in want if rows[k] != want[k]]
        r.check(not bad, 'Serializable.__eq__:type-guard', eq.site, 'NotImplemented exactly when neither operand is an instance of the other class',
                'Serializable.__eq__ %s for (other is-a self.__class__, self is-a other.__class__) = %s: a mutable object and its immutable twin no longer compare by value'
                % ('gives up' if bad and rows[bad[0]] else 'compares', bad))
    ok = set(vals) <= {'NotImplemented', 'self.serialize() == %s.serialize()' % other, '%s.serialize() == self.serialize()' % other} \
        and any('serialize' in v for v in vals)
    r.check(ok, 'Serializable.__eq__', eq.site, 'compares serialisations', 'Serializable.__eq__ returns %s' % vals)
    ne = ser.methods.get('__ne__')
    if ne is not None:
        b = _body(ne)
        ok = len(b) == 1 and isinstance(b[0], ast.Return) and norm(b[0].value) in ('not self == %s' % ne.params[1], 'not (self == %s)' % ne.params[1])
        r.check(ok, 'Serializable.__ne__', ne.site, 'negation of ==', '__ne__ is `%s`' % (norm(b[-1]) if b else '?'))
    h = ser.methods.get('__hash__')
    b = _body(h)
    ok = len(b) == 1 and isinstance(b[0], ast.Return) and norm(b[0].value) == 'hash(self.serialize())'
    r.check(ok, 'Serializable.__hash__', h.site, 'hash(self.serialize())', 'Serializable.__hash__ is `%s`' % (norm(b[-1]) if b else '?'))
    ih = imm.methods.get('__hash__')
    if ih is not None:
        comp = [norm(n.value) for n in walk_no_nested(ih.node) if isinstance(n, ast.Assign) and isinstance(n.targets[0], ast.Name)]
        r.check('hash(self.serialize())' in comp, 'ImmutableSerializable.__hash__', ih.site, 'caches hash(self.serialize())',
                'ImmutableSerializable.__hash__ computes %s' % comp)
    # no data class overrides __eq__/__hash__ with something else
    base, imms, mut = c09.classes(repo)
    for c in imms + mut:
        for nm in ('__eq__', '__ne__'):
            if nm in c.methods:
                r.violated('%s.%s:override' % (c.name, nm), c.methods[nm].site, '%s overrides %s: equality no longer follows the serialised form' % (c.name, nm))


def rule_T6(ctx, repo):
    """cache-slot discipline: a caching method reads and fills one slot of its own, with the value it returns"""
    r = ctx.rule('C02.T6', 'every identifier cache slot is read, filled and returned by methods of one name only, with the value computed for that name', engine='OWN', floor=3)
    users = {}  # slot -> {method name: [FunctionInfo]}
    for fi in repo.iter_functions():
        if fi.cls is None:
            continue
        if repo.known_functions is not None and fi.qualname not in repo.known_functions and any('helper %s ' % fi.qualname in l for l in repo.desugar_log):
            continue  # a new private helper: analysed where the pre-pass inlined it
        rd, wr = c09.cache_use(fi)
        for slot in rd | wr:
            users.setdefault(slot, {}).setdefault(fi.name, []).append(fi)
        if not (rd or wr):
            continue
        key = '%s.%s' % (fi.cls.name, fi.name)
        if rd != wr or len(rd) != 1:
            r.violated(key + ':one-slot', fi.site, '%s reads cache slot(s) %s but fills %s: the value served later is not the one computed here' % (fi.qualname, sorted(rd), sorted(wr)))
            continue
        slot = list(rd)[0]
        # what is stored, and what is returned after storing
        stored = returned = None
        for n in walk_no_nested(fi.node):
            if isinstance(n, ast.Call) and norm(n.func) == 'object.__setattr__' and len(n.args) == 3 and isinstance(n.args[1], ast.Constant) and n.args[1].value == slot:
                stored = n.args[2]
        rets = [n.value for n in walk_no_nested(fi.node) if isinstance(n, ast.Return) and n.value is not None]
        # resolve local names
        defs = {}
        for n in walk_no_nested(fi.node):
            if isinstance(n, ast.Assign) and len(n.targets) == 1 and isinstance(n.targets[0], ast.Name):
                defs.setdefault(n.targets[0].id, []).append(n.value)

        def res(e):
            seen = 0
            while isinstance(e, ast.Name) and len(defs.get(e.id, [])) == 1 and seen < 5:
                e = defs[e.id][0]
                seen += 1
            return norm(e)
        if stored is None:
            r.undecided(key + ':stored', fi.site, 'no object.__setattr__(self, %r, ...) found' % slot)
            continue
        rt = {res(x) for x in rets} - {'self.' + slot}
        r.check(rt == {res(stored)}, key + ':stored-is-returned', common.site_of(fi, stored), 'stores and returns `%s`' % res(stored),
                '%s stores `%s` in %s but returns %s' % (fi.qualname, res(stored), slot, sorted(rt)))
    for slot, by in sorted(users.items()):
        r.check(len(by) == 1, 'slot:%s' % slot, sorted(f.site for fs in by.values() for f in fs)[0], 'used by %s only' % list(by)[0],
                'cache slot %s is shared by methods of different names (%s): one serves the value another computed' % (
                    slot, ', '.join('%s in %s' % (m, '/'.join(f.cls.name for f in fs)) for m, fs in sorted(by.items()))))


def rule_W1(ctx, repo, eng):
    r = ctx.rule('C02.W1', 'the witness-empty test used by serialisation and has_witness is "every stack has length 0"', engine='LAYOUT', floor=1)
    c01.witness_null_chain(repo, eng, r, 'witness')
    tx = repo.get_class('bitcoin.core.CTransaction')
    hw = repo.lookup_method(tx, 'has_witness')
    if hw is not None:
        e = common.return_expr(hw)
        ok = e is not None and norm(e) == 'not self.wit.is_null()'
        r.check(ok, 'has_witness', hw.site, 'not self.wit.is_null()', 'has_witness is `%s`' % (norm(e) if e is not None else norm(_body(hw)[-1])))
