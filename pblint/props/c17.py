"""C17 Compact targets and the proof-of-work check follow the consensus definition."""
import ast
import re

from ..model import UNKNOWN, ClassRef, FuncRef, norm, walk_no_nested
from ..layout import LayoutEngine, fmt_info, split_fmt, fmt_str
from ..resolve import Resolver
from ..escape import Escape, rule_entry
from ..rules import canon_guard, canon_text, equiv, equiv_folded
from .. import common, spec, flow, shape
from . import c16

CORE = 'bitcoin.core.'
SER = 'bitcoin.core.serialize.'


def run(ctx):
    repo = ctx.repo
    eng = LayoutEngine(repo)
    rule_pow(ctx, repo, eng)
    rule_hash_int(ctx, repo, eng)
    rule_limits(ctx, repo)
    rule_decode(ctx, repo)
    rule_encode(ctx, repo)
    r = ctx.rule('C17.P1', 'the work limit is read from the selected chain at call time', engine='OWN', floor=1)
    common.rule_call_time_params(r, repo, files={'bitcoin/core/__init__.py'})
    ctx.not_decided += ['the round trip decode(encode(x)) as such and truncation to three bytes (shift arithmetic): the formulas are matched against their reference forms, their composition is not evaluated']
    ctx.assume('Python integers are unbounded: an overflowing compact value decodes to a number above every limit and is rejected by the range rule')


def rule_pow(ctx, repo, eng):
    r = ctx.rule('C17.R1', 'CheckProofOfWork: reject sign bit, zero, above-limit targets and hash > target; accept equality; validation error', engine='RULES', floor=6)
    fi = repo.get_function(CORE + 'CheckProofOfWork')
    hv, bv = fi.params[0], fi.params[1]
    E = 'CheckProofOfWorkError'
    gs = c16.guards_with_class(fi, repo)
    defs = {}
    for n in walk_no_nested(fi.node):
        if isinstance(n, ast.Assign) and len(n.targets) == 1:
            defs.setdefault(norm(n.targets[0]), []).append(norm(n.value))
    r.check(defs.get('target') == ['uint256_from_compact(%s)' % bv], 'target-decoded', fi.site, 'target = uint256_from_compact(nBits)', 'target is computed as %s' % defs.get('target'))
    r.check(defs.get(hv) == ['uint256_from_str(%s)' % hv], 'hash-as-integer', fi.site, 'hash read as a little-endian 256-bit integer', 'hash conversion is %s' % defs.get(hv))
    c16.expect(r, 'negative', fi, gs, ['%s & 8388608' % bv], E, 'a compact value with the sign bit set is refused', '%s &' % bv)
    c16.expect(r, 'range', fi, gs, ['target < 1 or target > coreparams.PROOF_OF_WORK_LIMIT'], E, 'zero and above-limit targets are refused', 'target')
    c16.expect(r, 'hash-above-target', fi, gs, ['%s > target' % hv], E, 'hash above the target is refused, equality accepted', '%s' % hv)
    # order: conversions precede the comparisons
    body = [s for s in fi.node.body if not (isinstance(s, ast.Expr) and isinstance(s.value, ast.Constant))]
    idx = {}
    for k, s in enumerate(body):
        t = norm(s)
        if t.startswith('%s = uint256_from_str' % hv):
            idx['conv'] = k
        if isinstance(s, ast.If) and canon_guard(s.test, repo, fi.module) == canon_text('%s > target' % hv):
            idx['cmp'] = k
    r.check(idx.get('conv', 99) < idx.get('cmp', -1), 'order', fi.site, 'hash converted before the comparison', 'the hash is compared before it is converted to an integer')
    base = repo.get_class(CORE + 'ValidationError')
    ec = repo.get_class(CORE + E)
    r.check(repo.is_subclass(ec, base), 'error-family', ec.site, 'CheckProofOfWorkError is a ValidationError', 'CheckProofOfWorkError is not in the validation-error family')


def rule_hash_int(ctx, repo, eng):
    r = ctx.rule('C17.L1', 'uint256_from_str: eight little-endian u32 limbs, limb i shifted by 32*i', engine='LAYOUT', floor=3)
    fi = repo.get_function(SER + 'uint256_from_str')
    s = fi.params[0]
    unp = [c for c in common.iter_calls(fi.node) if norm(c.func) == 'struct.unpack']
    if len(unp) != 1:
        r.undecided('unpack', fi.site, 'no single struct.unpack')
        return
    fmt = repo.fold(unp[0].args[0], fi.module)
    codes = split_fmt(fmt_str(fmt)) if fmt is not UNKNOWN else []
    ok = len(codes) == 8 and all(fmt_info(c)[0] == 4 and fmt_info(c)[1] == '<' and fmt_info(c)[2][0] == 0 for c in codes)
    r.check(ok, 'limbs', common.site_of(fi, unp[0]), 'eight unsigned little-endian 32-bit limbs', 'the hash is unpacked with format %r; reference: 8 x little-endian u32' % (fmt,))
    r.check(norm(unp[0].args[1]) == '%s[:32]' % s, 'bytes', common.site_of(fi, unp[0]), 'first 32 bytes', 'unpacks `%s`' % norm(unp[0].args[1]))
    loops = [n for n in walk_no_nested(fi.node) if isinstance(n, ast.For)]
    ok = False
    if len(loops) == 1 and norm(loops[0].iter) == 'range(8)' and len(loops[0].body) == 1:
        b = loops[0].body[0]
        i = norm(loops[0].target)
        if isinstance(b, ast.AugAssign) and isinstance(b.op, (ast.Add, ast.BitOr)):
            ok = shape.match(b.value, 't[%s] << (%s * 32)' % (i, i)) == 'same'
    r.check(ok, 'weights', fi.site, 'r += limb[i] << 32*i for i in 0..7', 'limbs are not combined as limb[i] << (32*i) over i = 0..7')


def rule_limits(ctx, repo):
    r = ctx.rule('C17.C1', 'per-chain proof-of-work limits', engine='CONST', floor=4)
    for name, ch in sorted(spec.CHAINS.items()):
        c = repo.classes.get('bitcoin.core.' + ch['core'])
        if c is None:
            r.undecided(name, '', 'core chain class %s not found' % ch['core'])
            continue
        v = repo.class_attr_value(c, 'PROOF_OF_WORK_LIMIT')
        r.check(v == ch['pow_limit'], name, c.site, '2**%d - 1' % ch['pow_limit'].bit_length(), 'PROOF_OF_WORK_LIMIT of %s is %r' % (name, v))
        top = repo.classes.get('bitcoin.' + ch['class'])
        if top is not None:
            r.check(repo.class_attr_value(top, 'PROOF_OF_WORK_LIMIT') == ch['pow_limit'] and repo.is_subclass(top, c), name + ':selected-class', top.site,
                    '%s derives from %s' % (ch['class'], ch['core']), '%s does not inherit the work limit of %s' % (ch['class'], ch['core']))


def rule_decode(ctx, repo):
    r = ctx.rule('C17.F1', 'uint256_from_compact: exponent = bits 24..31, mantissa = low 24 bits, shifted right for exponents <= 3 and left above; result returned unmasked', engine='RULES', floor=5)
    fi = repo.get_function(SER + 'uint256_from_compact')
    c = fi.params[0]
    defs = {}
    for n in ast.walk(fi.node):
        if isinstance(n, ast.Assign) and len(n.targets) == 1:
            defs.setdefault(norm(n.targets[0]), []).append(n)
    nb = defs.get('nbytes', [None])[0]
    shape.verdict(r, 'exponent', fi.site, nb.value if nb is not None else None, '(%s >> 24) & 0xFF' % c, 'exponent')
    ifs = [n for n in walk_no_nested(fi.node) if isinstance(n, ast.If)]
    if len(ifs) != 1:
        r.undecided('branches', fi.site, 'expected one exponent test')
        return
    t = ifs[0]
    g = canon_guard(t.test, repo, fi.module)
    if g == 'nbytes < 4':
        r.ok('threshold', common.site_of(fi, t), 'exponents up to 3 shift right')
        small, large = t.body, t.orelse
    elif g == 'nbytes > 3':
        r.ok('threshold', common.site_of(fi, t), 'exponents above 3 shift left')
        small, large = t.orelse, t.body
    elif 'nbytes' in g:
        r.violated('threshold', common.site_of(fi, t), 'the exponent test is `%s`; reference: exponents <= 3 shift right, larger ones left' % g)
        return
    else:
        r.undecided('threshold', common.site_of(fi, t), 'unrecognised test `%s`' % g)
        return
    sv = [s.value for s in small if isinstance(s, ast.Assign)]
    lv = [s.value for s in large if isinstance(s, ast.Assign)]
    shape.verdict(r, 'small-exponent', common.site_of(fi, t), sv[0] if sv else None, '(%s & 0xFFFFFF) >> 8 * (3 - nbytes)' % c, 'value for exponents <= 3')
    shape.verdict(r, 'large-exponent', common.site_of(fi, t), lv[0] if lv else None, '(%s & 0xFFFFFF) << (8 * (nbytes - 3))' % c, 'value for exponents > 3')
    rets = [n for n in walk_no_nested(fi.node) if isinstance(n, ast.Return)]
    target = norm((small[0].targets[0])) if small and isinstance(small[0], ast.Assign) else 'v'
    if len(rets) == 1 and norm(rets[0].value) == target:
        r.ok('result', common.site_of(fi, rets[0]), 'the decoded integer is returned as is')
    elif len(rets) == 1 and target in norm(rets[0].value):
        r.violated('result', common.site_of(fi, rets[0]), 'the decoded value is post-processed (`%s`): an overflowing compact value must stay above every limit, not wrap around' % norm(rets[0].value))
    else:
        r.undecided('result', fi.site, 'unrecognised result')


def rule_encode(ctx, repo):
    r = ctx.rule('C17.F2', 'compact_from_uint256: size in bytes, three most significant bytes, renormalised when the sign bit would be set', engine='RULES', floor=5)
    fi = repo.get_function(SER + 'compact_from_uint256')
    v = fi.params[0]
    defs = {}
    for n in ast.walk(fi.node):
        if isinstance(n, ast.Assign) and len(n.targets) == 1:
            defs.setdefault(norm(n.targets[0]), []).append(n)
    nb = defs.get('nbytes', [None])[0]
    shape.verdict(r, 'size', fi.site, nb.value if nb is not None else None, '(%s.bit_length() + 7) >> 3' % v, 'size in bytes')
    ifs = [n for n in walk_no_nested(fi.node) if isinstance(n, ast.If)]
    sizeif = [n for n in ifs if 'nbytes' in norm(n.test)]
    signif = [n for n in ifs if 'compact' in norm(n.test)]
    if len(sizeif) == 1:
        t = sizeif[0]
        g = canon_guard(t.test, repo, fi.module)
        small, large = (t.body, t.orelse) if g == 'nbytes < 4' else ((t.orelse, t.body) if g == 'nbytes > 3' else (None, None))
        if small is None:
            r.violated('threshold', common.site_of(fi, t), 'size test is `%s`; reference: up to 3 bytes shift left, more shift right' % g)
        else:
            r.ok('threshold', common.site_of(fi, t), g)
            sv = [s.value for s in small if isinstance(s, ast.Assign)]
            lv = [s.value for s in large if isinstance(s, ast.Assign)]
            shape.verdict(r, 'small', common.site_of(fi, t), sv[0] if sv else None, '(%s & 0xFFFFFF) << 8 * (3 - nbytes)' % v, 'mantissa for up to 3 bytes')
            shape.verdict(r, 'large', common.site_of(fi, t), lv[0] if lv else None, '%s >> 8 * (nbytes - 3)' % v, 'mantissa for more than 3 bytes')
    else:
        r.undecided('threshold', fi.site, 'size test not found')
    if len(signif) != 1:
        r.violated('sign-renormalisation', fi.site, 'no renormalisation when the mantissa has its top bit set: the encoded value would have the sign bit set')
    else:
        t = signif[0]
        m = shape.match(t.test, 'compact & 0x00800000')
        body = sorted(norm(s) for s in t.body)
        if m == 'same' and body == ['compact >>= 8', 'nbytes += 1']:
            r.ok('sign-renormalisation', common.site_of(fi, t), 'mantissa >> 8 and exponent + 1 when bit 0x00800000 is set')
        elif m in ('same', 'near'):
            r.violated('sign-renormalisation', common.site_of(fi, t), 'renormalisation is `if %s: %s`; reference: if compact & 0x00800000: compact >>= 8; nbytes += 1' % (norm(t.test), '; '.join(body)))
        else:
            r.undecided('sign-renormalisation', common.site_of(fi, t), 'unrecognised test `%s`' % norm(t.test))
    rets = [n for n in walk_no_nested(fi.node) if isinstance(n, ast.Return)]
    shape.verdict(r, 'result', fi.site, rets[0].value if len(rets) == 1 else None, 'compact | nbytes << 24', 'compact value')
