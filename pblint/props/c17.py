"""C17 Compact targets and the proof-of-work check follow the consensus definition."""
import ast
import re

from ..model import UNKNOWN, ClassRef, FuncRef, norm, walk_no_nested
from ..layout import LayoutEngine, fmt_info, split_fmt, fmt_str
from ..resolve import Resolver
from ..escape import Escape, rule_entry
from ..rules import canon_guard, canon_text, equiv, equiv_folded
from .. import common, spec, flow, shape
from . import c16

CORE = 'bitcoin.core.'
SER = 'bitcoin.core.serialize.'


def run(ctx):
    repo = ctx.repo
    eng = LayoutEngine(repo)
    rule_pow(ctx, repo, eng)
    rule_hash_int(ctx, repo, eng)
    rule_limits(ctx, repo)
    rule_decode(ctx, repo)
    rule_encode(ctx, repo)
    r = ctx.rule('C17.P1', 'the work limit is read from the selected chain at call time', engine='OWN', floor=1)
    common.rule_call_time_params(r, repo, files={'bitcoin/core/__init__.py'})
    ctx.not_decided += ['the round trip decode(encode(x)) as such and truncation to three bytes (shift arithmetic): the formulas are matched against their reference forms, their composition is not evaluated']
    ctx.assume('Python integers are unbounded: an overflowing compact value decodes to a number above every limit and is rejected by the range rule')


def rule_pow(ctx, repo, eng):
    r = ctx.rule('C17.R1', 'CheckProofOfWork: reject sign bit, zero, above-limit targets and hash > target; accept equality; validation error', engine='RULES', floor=6)
    fi = repo.get_function(CORE + 'CheckProofOfWork')
    hv, bv = fi.params[0], fi.params[1]
    E = 'CheckProofOfWorkError'
    gs = c16.guards_with_class(fi, repo)
    # raising guards with the function's plain locals written out: the rules then speak about nBits and the hash argument
    ld = common.local_defs(fi)
    rg = []
    for g_, cls_, n_ in gs:
        t_ = n_.test if flow.always_raises(n_.body) else ast.UnaryOp(op=ast.Not(), operand=n_.test)
        rt = common.resolved(fi, t_, repo)
        rg.append((canon_guard(rt, repo, fi.module), cls_, n_))
    T = 'uint256_from_compact(%s)' % bv
    H = 'uint256_from_str(%s)' % hv
    rebinds = [s_ for s_ in walk_no_nested(fi.node) if isinstance(s_, ast.Assign) and len(s_.targets) == 1 and norm(s_.targets[0]) == hv]
    rebound = len(rebinds) == 1 and norm(rebinds[0].value) == H
    decoded = any(norm(v_) == T for v_ in ld.values()) or any(T in g_ for g_, c_, n_ in rg)
    r.check(decoded, 'target-decoded', fi.site, 'target = uint256_from_compact(nBits)', 'the target is not decoded with uint256_from_compact(%s)' % bv)
    c16.expect(r, 'negative', fi, rg, ['%s & 8388608' % bv], E, 'a compact value with the sign bit set is refused', '%s &' % bv)
    c16.expect(r, 'range', fi, rg, ['%s < 1 or %s > coreparams.PROOF_OF_WORK_LIMIT' % (T, T)], E, 'zero and above-limit targets are refused', T,
               domain={T: (0, None)})  # a decoded target is a masked mantissa shifted (C17.F1): never negative
    hx = hv if rebound else H
    n_cmp = c16.expect(r, 'hash-above-target', fi, rg, ['%s > %s' % (hx, T)], E, 'hash above the target is refused, equality accepted', ('%s' % hx, hv))
    if rebound:
        r.ok('hash-as-integer', common.site_of(fi, rebinds[0]), 'hash read as a little-endian 256-bit integer')
        body = [s_ for s_ in fi.node.body]
        k_conv = [k_ for k_, s_ in enumerate(body) if any(x is rebinds[0] for x in ast.walk(s_))]
        k_cmp = [k_ for k_, s_ in enumerate(body) if n_cmp is not None and any(x is n_cmp for x in ast.walk(s_))]
        r.check(bool(k_conv) and bool(k_cmp) and k_conv[0] < k_cmp[0], 'order', fi.site, 'hash converted before the comparison', 'the hash is compared before it is converted to an integer')
    elif n_cmp is not None:
        r.ok('hash-as-integer', common.site_of(fi, n_cmp), 'the integer reading of the hash is what is compared')
        r.ok('order', common.site_of(fi, n_cmp), 'conversion is part of the compared expression')
    else:
        conv = [c_ for c_ in common.iter_calls(fi.node) if norm(c_) == H]
        if conv:
            r.undecided('hash-as-integer', fi.site, 'the hash is converted, but the comparison with the target was not recognised')
        else:
            r.violated('hash-as-integer', fi.site, 'the hash is never read as a little-endian 256-bit integer (%s)' % H)
    base = repo.get_class(CORE + 'ValidationError')
    ec = repo.get_class(CORE + E)
    r.check(repo.is_subclass(ec, base), 'error-family', ec.site, 'CheckProofOfWorkError is a ValidationError', 'CheckProofOfWorkError is not in the validation-error family')


def branch_value(stmts, var):
    """value of `var` at the end of a straight-line branch: successive assignments composed into one expression;
    a `return <expr>` ends the branch with that value"""
    cur = None
    for s in stmts:
        e = None
        if isinstance(s, ast.Assign) and len(s.targets) == 1 and norm(s.targets[0]) == var:
            e = s.value
        elif isinstance(s, ast.AugAssign) and norm(s.target) == var and cur is not None:
            e = ast.BinOp(left=ast.Name(id=var, ctx=ast.Load()), op=s.op, right=s.value)
        elif isinstance(s, ast.Return) and s.value is not None:
            e = s.value
            if cur is None and not any(isinstance(n, ast.Name) and n.id == var for n in ast.walk(e)):
                return e
        if e is None:
            continue
        if cur is not None:
            class T(ast.NodeTransformer):
                def visit_Name(self, n, cur=cur):
                    if n.id == var and isinstance(n.ctx, ast.Load):
                        return ast.parse(ast.unparse(cur), mode='eval').body
                    return n
            e = ast.fix_missing_locations(T().visit(ast.parse(ast.unparse(e), mode='eval').body))
        cur = e
        if isinstance(s, ast.Return):
            break
    return cur


def rule_hash_int(ctx, repo, eng):
    r = ctx.rule('C17.L1', 'uint256_from_str: eight little-endian u32 limbs, limb i shifted by 32*i', engine='LAYOUT', floor=3)
    fi = repo.get_function(SER + 'uint256_from_str')
    s = fi.params[0]
    unp = [c for c in common.iter_calls(fi.node) if norm(c.func) == 'struct.unpack']
    if len(unp) != 1:
        r.undecided('unpack', fi.site, 'no single struct.unpack')
        return
    fmt = repo.fold(unp[0].args[0], fi.module)
    codes = split_fmt(fmt_str(fmt)) if fmt is not UNKNOWN else []
    # n unsigned little-endian limbs of w bits each with n * w = 256 (eight u32 on the confirmed tree; four u64, sixteen
    # u16, thirty-two bytes are the same number): limb i carries weight 2**(w*i)
    widths = {fmt_info(c)[0] for c in codes} if codes else set()
    w8 = widths.pop() if len(widths) == 1 else None
    ok = w8 in (1, 2, 4, 8) and len(codes) * w8 == 32 and all(fmt_info(c)[1] == '<' and fmt_info(c)[2][0] == 0 for c in codes)
    r.check(ok, 'limbs', common.site_of(fi, unp[0]), '%d unsigned little-endian %d-bit limbs' % (len(codes), 8 * (w8 or 0)),
            'the hash is unpacked with format %r; a 256-bit little-endian number is n unsigned little-endian limbs of 256/n bits (reference: 8 x u32)' % (fmt,))
    if not ok:
        return
    nl, wb = len(codes), 8 * w8
    from ..restore import NF
    src = norm(NF().visit(ast.parse(norm(unp[0].args[1]), mode='eval').body))
    r.check(src == '%s[:32]' % s, 'bytes', common.site_of(fi, unp[0]), 'first 32 bytes', 'unpacks `%s`' % norm(unp[0].args[1]))
    loops = [n for n in walk_no_nested(fi.node) if isinstance(n, ast.For)]
    from ..rules import canon_arith
    ok = False
    und = False

    def weight_ok(elt, limb_text, idx_text):
        try:
            return canon_arith(elt) == canon_arith('%s << (%s * %d)' % (limb_text, idx_text, wb))
        except Exception:
            return False
    tvar = None
    for n in walk_no_nested(fi.node):
        if isinstance(n, ast.Assign) and n.value is unp[0] and isinstance(n.targets[0], ast.Name):
            tvar = n.targets[0].id
    for lp_ in loops:
        early = [x for x in ast.walk(lp_) if isinstance(x, (ast.Break, ast.Return))]
        skips = [x for x in ast.walk(lp_) if isinstance(x, ast.Continue)]
        if skips and not early:
            # skipping a limb is harmless exactly when the limb is zero: not decided here
            r.undecided('weights:every-limb', common.site_of(fi, skips[0]), 'the loop that combines the limbs skips some iterations with `continue`')
            return
        if early:
            r.violated('weights:every-limb', common.site_of(fi, early[0]), 'the loop that combines the limbs can leave or skip with `%s`: limbs above (or at) that point do not contribute, and a hash '
                       'with a zero word below a non-zero one is read as a smaller number' % norm(early[0]), sure=True)
            return
    if len(loops) == 1 and len(loops[0].body) == 1 and isinstance(loops[0].target, ast.Name):
        b = loops[0].body[0]
        i = norm(loops[0].target)
        dom = repo.fold(loops[0].iter, fi.module)
        if isinstance(b, ast.AugAssign) and isinstance(b.op, (ast.Add, ast.BitOr)) and isinstance(dom, range) and list(dom) == list(range(nl)) and tvar:
            ok = weight_ok(b.value, '%s[%s]' % (tvar, i), i)
        elif not isinstance(dom, range):
            und = True
    elif not loops:
        und = True
        for n in ast.walk(fi.node):
            if isinstance(n, ast.Call) and norm(n.func) == 'sum' and len(n.args) == 1 and isinstance(n.args[0], (ast.GeneratorExp, ast.ListComp)):
                g = n.args[0]
                gen = g.generators[0] if len(g.generators) == 1 and not g.generators[0].ifs else None
                if gen is not None and isinstance(gen.iter, ast.Call) and norm(gen.iter.func) == 'enumerate' and isinstance(gen.target, ast.Tuple) and len(gen.target.elts) == 2:
                    pi, wi = norm(gen.target.elts[0]), norm(gen.target.elts[1])
                    und = False
                    ok = weight_ok(g.elt, wi, pi)
                elif gen is not None and isinstance(gen.target, ast.Name) and tvar:
                    dom = repo.fold(gen.iter, fi.module)
                    if isinstance(dom, range) and list(dom) == list(range(nl)):
                        und = False
                        ok = weight_ok(g.elt, '%s[%s]' % (tvar, gen.target.id), gen.target.id)
    else:
        und = True
    if not ok and und:
        r.undecided('weights', fi.site, 'the limbs are combined in a form that is not recognised')
        return
    r.check(ok, 'weights', fi.site, 'r += limb[i] << %d*i for i in 0..%d' % (wb, nl - 1), 'limbs are not combined as limb[i] << (%d*i) over i = 0..%d' % (wb, nl - 1))


def rule_limits(ctx, repo):
    r = ctx.rule('C17.C1', 'per-chain proof-of-work limits', engine='CONST', floor=4)
    for name, ch in sorted(spec.CHAINS.items()):
        c = repo.classes.get('bitcoin.core.' + ch['core'])
        if c is None:
            r.undecided(name, '', 'core chain class %s not found' % ch['core'])
            continue
        v = repo.class_attr_value(c, 'PROOF_OF_WORK_LIMIT')
        r.check(v == ch['pow_limit'], name, c.site, '2**%d - 1' % ch['pow_limit'].bit_length(), 'PROOF_OF_WORK_LIMIT of %s is %r' % (name, v))
        top = repo.classes.get('bitcoin.' + ch['class'])
        if top is not None:
            r.check(repo.class_attr_value(top, 'PROOF_OF_WORK_LIMIT') == ch['pow_limit'] and repo.is_subclass(top, c), name + ':selected-class', top.site,
                    '%s derives from %s' % (ch['class'], ch['core']), '%s does not inherit the work limit of %s' % (ch['class'], ch['core']))


def rule_decode(ctx, repo):
    r = ctx.rule('C17.F1', 'uint256_from_compact: exponent = bits 24..31, mantissa = low 24 bits, shifted right for exponents <= 3 and left above; result returned unmasked', engine='RULES', floor=5)
    fi = repo.get_function(SER + 'uint256_from_compact')
    c = fi.params[0]
    defs = {}
    for n in ast.walk(fi.node):
        if isinstance(n, ast.Assign) and len(n.targets) == 1:
            defs.setdefault(norm(n.targets[0]), []).append(n)
    nb = defs.get('nbytes', [None])[0]
    shape.verdict(r, 'exponent', fi.site, nb.value if nb is not None else None, '(%s >> 24) & 0xFF' % c, 'exponent')
    from ..rules import equiv as _equiv
    ifs = [n for n in walk_no_nested(fi.node) if isinstance(n, ast.If)]
    if len(ifs) != 1:
        r.undecided('branches', fi.site, 'expected one exponent test')
        return
    t = ifs[0]
    g = canon_guard(t.test, repo, fi.module)
    if g in ('nbytes < 4', 'nbytes < 3'):
        # at nbytes == 3 both branches shift by zero: `<= 3` and `< 3` split the values the same way (the branch
        # expressions are decided below, which is what makes the shift amounts 8*(3-nbytes) / 8*(nbytes-3))
        r.ok('threshold', common.site_of(fi, t), 'exponents up to 3 shift right')
        ctx.explain(fi, t, 'C17.F1 threshold: at an exponent of 3 both arms shift by zero')
        small = t.body
        large = t.orelse if t.orelse else fi.node.body[fi.node.body.index(t) + 1:]
    elif g in ('nbytes > 3', 'nbytes > 2'):
        r.ok('threshold', common.site_of(fi, t), 'exponents above 3 shift left')
        ctx.explain(fi, t, 'C17.F1 threshold: at an exponent of 3 both arms shift by zero')
        large = t.body
        small = t.orelse if t.orelse else fi.node.body[fi.node.body.index(t) + 1:]
    elif 'nbytes' in g:
        r.violated('threshold', common.site_of(fi, t), 'the exponent test is `%s`; reference: exponents <= 3 shift right, larger ones left' % g)
        return
    else:
        r.undecided('threshold', common.site_of(fi, t), 'unrecognised test `%s`' % g)
        return
    tgt_names = [norm(s_.targets[0]) for s_ in list(small) + list(large) if isinstance(s_, ast.Assign) and len(s_.targets) == 1]
    target = tgt_names[0] if tgt_names else 'v'
    tail_ret = [s_ for s_ in fi.node.body[fi.node.body.index(t) + 1:] if isinstance(s_, ast.Return)] if t in fi.node.body else []
    sv = branch_value(list(small), target)
    lv = branch_value(list(large), target)
    if sv is not None:
        sv = common.resolved(fi, sv, repo, defs={k_: v_ for k_, v_ in common.local_defs(fi).items() if k_ not in (target, 'nbytes')})
    if lv is not None:
        lv = common.resolved(fi, lv, repo, defs={k_: v_ for k_, v_ in common.local_defs(fi).items() if k_ not in (target, 'nbytes')})
    shape.verdict(r, 'small-exponent', common.site_of(fi, t), sv, '(%s & 0xFFFFFF) >> 8 * (3 - nbytes)' % c, 'value for exponents <= 3')
    shape.verdict(r, 'large-exponent', common.site_of(fi, t), lv, '(%s & 0xFFFFFF) << (8 * (nbytes - 3))' % c, 'value for exponents > 3')
    rets = [n for n in walk_no_nested(fi.node) if isinstance(n, ast.Return)]
    branch_rets = [n for n in rets if any(n is x for b_ in (small, large) for s_ in b_ for x in ast.walk(s_))]
    if len(branch_rets) == 2 and len(rets) == 2:
        r.ok('result', common.site_of(fi, rets[0]), 'each arm returns its decoded integer as is')
    elif len(rets) == 1 and norm(rets[0].value) == target:
        r.ok('result', common.site_of(fi, rets[0]), 'the decoded integer is returned as is')
    elif len(rets) == 1 and target in norm(rets[0].value):
        r.violated('result', common.site_of(fi, rets[0]), 'the decoded value is post-processed (`%s`): an overflowing compact value must stay above every limit, not wrap around' % norm(rets[0].value))
    else:
        r.undecided('result', fi.site, 'unrecognised result')


def rule_encode(ctx, repo):
    r = ctx.rule('C17.F2', 'compact_from_uint256: size in bytes, three most significant bytes, renormalised when the sign bit would be set', engine='RULES', floor=5)
    fi = repo.get_function(SER + 'compact_from_uint256')
    v = fi.params[0]
    defs = {}
    for n in ast.walk(fi.node):
        if isinstance(n, ast.Assign) and len(n.targets) == 1:
            defs.setdefault(norm(n.targets[0]), []).append(n)
    nb = defs.get('nbytes', [None])[0]
    shape.verdict(r, 'size', fi.site, nb.value if nb is not None else None, '(%s.bit_length() + 7) >> 3' % v, 'size in bytes')
    ifs = [n for n in walk_no_nested(fi.node) if isinstance(n, ast.If)]
    sizeif = [n for n in ifs if 'nbytes' in norm(n.test)]
    signif = [n for n in ifs if 'compact' in norm(n.test)]
    if len(sizeif) == 1:
        t = sizeif[0]
        g = canon_guard(t.test, repo, fi.module)
        # a size of exactly 3 shifts by zero in either arm (the arm values are decided below)
        small, large = (t.body, t.orelse) if g in ('nbytes < 4', 'nbytes < 3') else ((t.orelse, t.body) if g in ('nbytes > 3', 'nbytes > 2') else (None, None))
        if small is None:
            r.violated('threshold', common.site_of(fi, t), 'size test is `%s`; reference: up to 3 bytes shift left, more shift right' % g)
        else:
            r.ok('threshold', common.site_of(fi, t), g)
            ctx.explain(fi, t, 'C17.F2 threshold: at a size of 3 both arms shift by zero')
            sv = branch_value(list(small), 'compact')
            lv = branch_value(list(large), 'compact')
            shape.verdict(r, 'small', common.site_of(fi, t), sv, '(%s & 0xFFFFFF) << 8 * (3 - nbytes)' % v, 'mantissa for up to 3 bytes')
            shape.verdict(r, 'large', common.site_of(fi, t), lv, '(%s >> 8 * (nbytes - 3)) & 0xFFFFFF' % v, 'mantissa for more than 3 bytes')
    else:
        r.undecided('threshold', fi.site, 'size test not found')
    if len(signif) != 1:
        r.violated('sign-renormalisation', fi.site, 'no renormalisation when the mantissa has its top bit set: the encoded value would have the sign bit set')
    else:
        t = signif[0]
        m = shape.match(t.test, 'compact & 0x00800000')
        body = sorted(norm(s) for s in t.body)
        if m == 'same' and body == ['compact >>= 8', 'nbytes += 1']:
            r.ok('sign-renormalisation', common.site_of(fi, t), 'mantissa >> 8 and exponent + 1 when bit 0x00800000 is set')
            # ... on every path: small values (up to three bytes) can have the top bit of their leading byte set as well
            r.check(t in fi.node.body, 'sign-renormalisation:every-path', common.site_of(fi, t), 'tested after both size branches',
                    'the sign-bit test sits inside one branch of the size test: values of the other branch (0x80..0xff, 0x8000..0xffff, 0x800000..0xffffff when it is the '
                    'large branch that keeps it) are encoded with the sign bit set', sure=True)
        elif m in ('same', 'near'):
            r.violated('sign-renormalisation', common.site_of(fi, t), 'renormalisation is `if %s: %s`; reference: if compact & 0x00800000: compact >>= 8; nbytes += 1' % (norm(t.test), '; '.join(body)))
        else:
            r.undecided('sign-renormalisation', common.site_of(fi, t), 'unrecognised test `%s`' % norm(t.test))
    rets = [n for n in walk_no_nested(fi.node) if isinstance(n, ast.Return)]
    shape.verdict(r, 'result', fi.site, rets[0].value if len(rets) == 1 else None, 'compact | nbytes << 24', 'compact value')
