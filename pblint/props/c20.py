"""C20 Bloom filter: no false negatives, BIP37 bit schedule, lossless wire form."""
import ast
import re
import math

from ..model import UNKNOWN, ClassRef, FuncRef, norm, walk_no_nested
from ..layout import LayoutEngine, Undecided
from .. import common, spec, flow
from ..spec import vb, u32, u8

BLOOM_WIRE = [vb('vData'), u32('nHashFuncs'), u32('nTweak'), u8('nFlags')]


def run(ctx):
    repo = ctx.repo
    eng = LayoutEngine(repo)
    ci = repo.get_class('bitcoin.bloom.CBloomFilter')
    rule_wire(ctx, repo, eng, ci)
    rule_schedule(ctx, repo, ci)
    rule_murmur(ctx, repo)
    rule_caps(ctx, repo, ci)
    rule_siblings(ctx, repo, ci)
    rule_guard(ctx, repo, ci)
    ctx.not_decided += ['the MurmurHash3 value as such (arithmetic rounds): constants, rotations, masks and the length mix are decided, the composition is not',
                        'the sizing arithmetic below the caps']
    ctx.assume('struct/bytearray semantics')


def rule_wire(ctx, repo, eng, ci):
    r = ctx.rule('C20.L1', 'filter wire form: writer, reader and the BIP37 table agree (varbytes, u32, u32, u8)', engine='LAYOUT', floor=3)
    cmp_ = common.rule_agreement(r, repo, eng, ci)
    rfields = {i.field for i in (cmp_.R if cmp_ is not None else []) if i.get('field')}
    common.rule_vs_spec(r, repo, eng, ci, BLOOM_WIRE)
    # the reader installs every field on the returned object
    fr = repo.lookup_method(ci, 'stream_deserialize')
    sets = {}
    for n in walk_no_nested(fr.node):
        if isinstance(n, ast.Assign) and isinstance(n.targets[0], ast.Attribute) and isinstance(n.value, ast.Name):
            sets[n.targets[0].attr] = n.value.id
        elif isinstance(n, ast.Assign) and isinstance(n.targets[0], ast.Attribute) and isinstance(n.value, ast.Constant):
            sets[n.targets[0].attr] = '<constant %r>' % (n.value.value,)
    fields = ('vData', 'nHashFuncs', 'nTweak', 'nFlags')
    for f in fields:
        got = sets.get(f)
        if got == f or (got is None and f in rfields):
            r.ok('reader-installs:%s' % f, fr.site, 'field %s installed from the value read' % f)
        elif got in fields or (got or '').startswith('<constant'):
            r.violated('reader-installs:%s' % f, fr.site, 'the reader installs %s from the value read for %s' % (f, got))
        elif not any((isinstance(n, ast.Attribute) and n.attr == f and isinstance(n.ctx, ast.Store)) or (isinstance(n, ast.Constant) and n.value == f)
                     for n in ast.walk(fr.node)) and not any(isinstance(n, ast.Call) and norm(n.func) in ('cls', ci.name) and len(n.args) + len(n.keywords) >= 4 for n in ast.walk(fr.node)):
            r.violated('reader-installs:%s' % f, fr.site, 'the reader never stores the field %s on the object it returns' % f)
        else:
            r.undecided('reader-installs:%s' % f, fr.site, 'no plain assignment of the value read to the field %s was found (got %s)' % (f, got))


def canon(e):
    """canonical text of an arithmetic expression: commutative operands sorted, constants folded to hex"""
    if isinstance(e, ast.Constant) and isinstance(e.value, int):
        return hex(e.value)
    if isinstance(e, ast.BinOp):
        a, b = canon(e.left), canon(e.right)
        op = type(e.op).__name__
        if op in ('Add', 'Mult', 'BitAnd', 'BitOr', 'BitXor'):
            a, b = sorted([a, b])
        return '%s(%s,%s)' % (op, a, b)
    return norm(e)


def rule_schedule(ctx, repo, ci):
    r = ctx.rule('C20.S1', 'bit index = MurmurHash3(i*0xFBA4C795 + tweak mod 2^32, data) mod (8*len(data))', engine='CONST', floor=3)
    fi = repo.lookup_method(ci, 'bloom_hash')
    rets = [n for n in walk_no_nested(fi.node) if isinstance(n, ast.Return)]
    if len(rets) != 1 or not isinstance(rets[0].value, ast.BinOp) or not isinstance(rets[0].value.op, ast.Mod):
        r.undecided('bloom_hash:shape', fi.site, 'bloom_hash is not `MurmurHash3(seed, data) % bits`')
        return
    v = rets[0].value
    call, mod = v.left, v.right
    hnum, data = fi.params[1], fi.params[2]
    fv = repo.fold(call.func, fi.module) if isinstance(call, ast.Call) else None
    ok = isinstance(fv, FuncRef) and fv.info.qualname == 'bitcoin.bloom.MurmurHash3' and len(call.args) == 2 and norm(call.args[1]) == data
    r.check(ok, 'bloom_hash:function', common.site_of(fi, call), 'MurmurHash3(seed, element)', 'bit index is computed by `%s`' % norm(call)[:60])
    if ok:
        seed = canon(call.args[0])
        want = canon(ast.parse('((%s * 0xFBA4C795) + self.nTweak) & 0xFFFFFFFF' % hnum, mode='eval').body)
        r.check(seed == want, 'bloom_hash:seed', common.site_of(fi, call.args[0]), 'seed = (i*0xFBA4C795 + nTweak) & 0xFFFFFFFF',
                'seed expression is `%s`; BIP37: (nHashNum * 0xFBA4C795 + nTweak) mod 2^32' % norm(call.args[0]))
    r.check(canon(mod) == canon(ast.parse('len(self.vData) * 8', mode='eval').body), 'bloom_hash:modulus', common.site_of(fi, mod),
            'modulo the number of filter bits', 'modulus is `%s`, BIP37: len(vData) * 8' % norm(mod))


def rule_murmur(ctx, repo):
    r = ctx.rule('C20.M1', 'MurmurHash3 x86_32 constants by role: multipliers, rotations, additive constant, shifts, length mix', engine='CONST', floor=6)
    fi = repo.get_function('bitcoin.bloom.MurmurHash3')
    B = spec.BLOOM
    seedp, datap = fi.params
    env = {}
    nassign = {}
    for n in walk_no_nested(fi.node):
        if isinstance(n, (ast.Assign, ast.AugAssign)):
            for t in (n.targets if isinstance(n, ast.Assign) else [n.target]):
                if isinstance(t, ast.Name):
                    nassign[t.id] = nassign.get(t.id, 0) + 1
    for n in walk_no_nested(fi.node):
        if isinstance(n, ast.Assign) and isinstance(n.targets[0], ast.Name) and nassign.get(n.targets[0].id) == 1:
            v = repo.fold(n.value, fi.module)
            if isinstance(v, int) and not isinstance(v, bool):
                env[n.targets[0].id] = v
    mults, rots, adds, shifts = [], [], [], []
    for n in walk_no_nested(fi.node):
        if isinstance(n, ast.BinOp) and isinstance(n.op, ast.Mult):
            for side in (n.left, n.right):
                v = repo.fold(side, fi.module, env=env)
                if isinstance(v, int):
                    mults.append(v)
        if isinstance(n, ast.AugAssign) and isinstance(n.op, ast.Mult):
            v = repo.fold(n.value, fi.module, env=env)
            if isinstance(v, int):
                mults.append(v)
        if isinstance(n, ast.Call) and norm(n.func) == '_ROTL32' and len(n.args) == 2:
            v = repo.fold(n.args[1], fi.module, env=env)
            rots.append((norm(n.args[0]), v))
        if isinstance(n, ast.BinOp) and isinstance(n.op, ast.Add):
            for side in (n.left, n.right):
                v = repo.fold(side, fi.module, env=env)
                if isinstance(v, int) and v > 0xffff:
                    adds.append(v)
        if isinstance(n, ast.BinOp) and isinstance(n.op, ast.RShift):
            v = repo.fold(n.right, fi.module, env=env)
            if isinstance(v, int):
                shifts.append(v)
    want_m = sorted([B['c1'], B['c2'], B['c1'], B['c2'], B['m'], B['f1'], B['f2']])
    got_m = sorted(m for m in mults if m not in (4,))
    r.check(sorted(set(got_m)) == sorted(set(want_m)) and got_m.count(B['c1']) == 2 and got_m.count(B['c2']) == 2, 'multipliers', fi.site,
            'c1, c2 (body and tail), 5, 0x85ebca6b, 0xc2b2ae35',
            'multiplication constants are %s; MurmurHash3: c1=0xcc9e2d51 and c2=0x1b873593 in body and tail, 5, 0x85ebca6b, 0xc2b2ae35' % [hex(x) for x in got_m])
    k_rots = sorted(v for a, v in rots if a.startswith('k'))
    h_rots = sorted(v for a, v in rots if a.startswith('h'))
    r.check(k_rots == [15, 15] and h_rots == [13], 'rotations', fi.site, 'k1 rotated by 15 (body, tail), h1 by 13',
            'rotation amounts are k:%s h:%s; MurmurHash3: 15, 15 and 13' % (k_rots, h_rots))
    r.check(adds == [B['n']], 'additive-constant', fi.site, '0xe6546b64', 'additive constants are %s; MurmurHash3: 0xe6546b64' % [hex(x) for x in adds])
    fin = [s for s in shifts]
    r.check(sorted(fin) == sorted(B['shifts']), 'final-shifts', fi.site, 'h ^= h >> 16, 13, 16', 'right-shift amounts are %s; MurmurHash3 finaliser: 16, 13, 16' % fin)
    # _ROTL32
    rf = repo.get_function('bitcoin.bloom._ROTL32')
    x, rr = rf.params
    rets = [n for n in walk_no_nested(rf.node) if isinstance(n, ast.Return)]
    want = canon(ast.parse('((%s << %s) & 0xFFFFFFFF) | (%s >> (32 - %s))' % (x, rr, x, rr), mode='eval').body)
    r.check(len(rets) == 1 and canon(rets[0].value) == want, '_ROTL32', rf.site, '32-bit left rotation', '_ROTL32 returns `%s`' % (norm(rets[0].value) if rets else '?'))
    # the length is mixed in modulo 2^32
    found = False
    for n in walk_no_nested(fi.node):
        if isinstance(n, ast.AugAssign) and isinstance(n.op, ast.BitXor) and norm(n.target).startswith('h') \
                and 'len(%s)' % datap in norm(common.resolved(fi, n.value, repo)) and not any(isinstance(x, ast.Subscript) for x in ast.walk(n.value)):
            found = True
            v = common.resolved(fi, n.value, repo)
            ok = norm(v) == 'len(%s)' % datap
            if isinstance(v, ast.BinOp) and isinstance(v.op, ast.BitAnd):
                for a, b in ((v.left, v.right), (v.right, v.left)):
                    if norm(a) == 'len(%s)' % datap:
                        m = repo.fold(b, fi.module, env=env)
                        ok = isinstance(m, int) and (m & 0xFFFFFFFF) == 0xFFFFFFFF
            r.check(ok, 'length-mix', common.site_of(fi, n), 'h1 ^= len(data) mod 2^32',
                    'the data length is mixed in as `%s`: MurmurHash3 uses the full 32-bit length (elements of 256+ bytes hash differently)' % norm(v))
    if not found:
        r.violated('length-mix', fi.site, 'the data length is not mixed into the hash')
    # tail: bytes j+2, j+1, j shifted by 16, 8, 0
    tail = {}
    for n in walk_no_nested(fi.node):
        if isinstance(n, ast.AugAssign) and isinstance(n.op, ast.BitXor) and norm(n.target).startswith('k') and datap in norm(n.value):
            v = n.value
            sh = 0
            if isinstance(v, ast.BinOp) and isinstance(v.op, ast.LShift):
                sh = repo.fold(v.right, fi.module, env=env)
                v = v.left
            if isinstance(v, ast.Subscript):
                tail[norm(v.slice)] = sh
    want_tail = sorted([16, 8, 0])
    r.check(sorted(tail.values()) == want_tail and len(tail) == 3, 'tail-bytes', fi.site, 'tail bytes shifted by 0, 8, 16',
            'tail bytes are combined as %s; MurmurHash3: bytes 0,1,2 of the tail shifted by 0, 8, 16' % tail)


def upper(repo, fi, e, env):
    """upper bound of a numeric expression when unknown operands are unbounded (+inf)"""
    v = repo.fold(e, fi.module, cls=fi.cls, env=env)
    if isinstance(v, (int, float)) and not isinstance(v, bool):
        return v
    if isinstance(e, ast.Call):
        fn = norm(e.func)
        if fn == 'min':
            return min(upper(repo, fi, a, env) for a in e.args)
        if fn in ('int', 'float', 'round', 'math.floor', 'bytearray', 'bytes'):
            return upper(repo, fi, e.args[0], env) if e.args else math.inf
        if fn == 'len':
            return math.inf
        if fn == 'max':
            return max(upper(repo, fi, a, env) for a in e.args)
        return math.inf
    if isinstance(e, ast.BinOp):
        a, b = upper(repo, fi, e.left, env), upper(repo, fi, e.right, env)
        lb = repo.fold(e.right, fi.module, cls=fi.cls, env=env)
        la = repo.fold(e.left, fi.module, cls=fi.cls, env=env)
        if isinstance(e.op, (ast.Div, ast.FloorDiv)):
            if isinstance(lb, (int, float)) and lb > 0:
                return a / lb
            return math.inf
        if isinstance(e.op, ast.Mult):
            if isinstance(lb, (int, float)) and lb >= 0:
                return a * lb
            if isinstance(la, (int, float)) and la >= 0:
                return b * la
            return math.inf
        if isinstance(e.op, ast.Add):
            return a + b
        return math.inf
    return math.inf


def canon_guard_text(repo, fi, test):
    from ..rules import canon_guard
    return canon_guard(test, repo, fi.module, fi.cls)


def rule_caps(ctx, repo, ci):
    r = ctx.rule('C20.K1', 'filter size and hash-function count are capped at 36000 bytes / 50 functions by construction', engine='RULES', floor=4)
    B = spec.BLOOM
    r.check(repo.class_attr_value(ci, 'MAX_BLOOM_FILTER_SIZE') == B['max_size'], 'MAX_BLOOM_FILTER_SIZE', ci.site, '36000', 'MAX_BLOOM_FILTER_SIZE is %r' % (repo.class_attr_value(ci, 'MAX_BLOOM_FILTER_SIZE'),))
    r.check(repo.class_attr_value(ci, 'MAX_HASH_FUNCS') == B['max_funcs'], 'MAX_HASH_FUNCS', ci.site, '50', 'MAX_HASH_FUNCS is %r' % (repo.class_attr_value(ci, 'MAX_HASH_FUNCS'),))
    init = repo.lookup_method(ci, '__init__')
    env = {}
    for n in walk_no_nested(init.node):
        if isinstance(n, ast.Assign) and isinstance(n.targets[0], ast.Name):
            v = repo.fold(n.value, init.module, cls=ci)
            if v is not UNKNOWN:
                env[n.targets[0].id] = v
    stores = {}
    for n in walk_no_nested(init.node):
        if isinstance(n, ast.Assign) and isinstance(n.targets[0], ast.Attribute) and norm(n.targets[0].value) == 'self':
            stores[n.targets[0].attr] = n
    for slot, cap in (('vData', B['max_size']), ('nHashFuncs', B['max_funcs'])):
        n = stores.get(slot)
        if n is None:
            r.undecided('cap:%s' % slot, init.site, 'no store of %s in __init__' % slot)
            continue
        ub = upper(repo, init, common.resolved(init, n.value, repo), env)
        r.check(ub <= cap, 'cap:%s' % slot, common.site_of(init, n), 'upper bound %s <= %s' % (ub, cap),
                'the value stored in %s can reach %s (cap %s): `%s`' % (slot, ub, cap, norm(n.value)[:90]))
    # the BIP37 sizing formulas themselves (unit conversions: bits by 8 to bytes; the cap is given in bytes and compared in bits)
    from ..rules import canon_arith as _ca20
    REF = {'vData': 'bytearray(int(min(-1 / LN2SQUARED * nElements * math.log(nFPRate), self.MAX_BLOOM_FILTER_SIZE * 8) / 8))',
           'nHashFuncs': 'int(min(len(self.vData) * 8 / nElements * LN2, self.MAX_HASH_FUNCS))'}
    for slot, ref in REF.items():
        n = stores.get(slot)
        if n is None:
            continue
        got = common.resolved(init, n.value, repo)
        gt = norm(got)
        gt = re.sub(r'0\.48045301391820\d*', 'LN2SQUARED', gt)
        gt = re.sub(r'0\.69314718055994\d*', 'LN2', gt)
        gt = re.sub(r'\b_+(LN2SQUARED|LN2)\b', r'\1', gt)
        try:
            got = ast.parse(gt, mode='eval').body
            same = norm(got) == norm(ast.parse(ref, mode='eval').body) or _ca20(got) == _ca20(ref)
        except Exception:
            same = None
        if same:
            r.ok('sizing:%s' % slot, common.site_of(init, n), 'the BIP37 formula')
        else:
            # same shape, another unit constant: recognisably the formula with a changed 8
            a_, b_ = re.sub(r'\b\d+\b', '#', norm(got)), re.sub(r'\b\d+\b', '#', norm(ast.parse(ref, mode='eval').body))
            ops_ = lambda t: re.sub(r'//', '/', t)
            if ops_(a_) == ops_(b_):
                r.violated('sizing:%s' % slot, common.site_of(init, n), 'the size of %s is computed as `%s`; BIP37: `%s` (bits to bytes by 8, the byte cap compared in bits by 8)' % (slot, norm(got)[:110], ref), sure=True)
            else:
                r.undecided('sizing:%s' % slot, common.site_of(init, n), 'sizing formula `%s` not recognised' % norm(got)[:100])
    rot = repo.get_function('bitcoin.bloom._ROTL32')
    if rot is not None:
        from ..rules import equiv as _eq20
        for n in walk_no_nested(rot.node):
            if isinstance(n, ast.Assert):
                x_ = rot.params[0]
                g_ = canon_guard_text(repo, rot, n.test)
                v_ = _eq20(g_, '%s <= 4294967295' % x_)
                if v_ is not True and _eq20('(%s) and %s <= 4294967295' % (g_, x_), '%s <= 4294967295' % x_, domain={x_: (0, None)}) is True:
                    v_ = True  # a weaker assertion admits every 32-bit word as well
                if v_ is True:
                    r.ok('rotl32:domain', common.site_of(rot, n), 'every 32-bit word')
                elif v_ is False:
                    r.violated('rotl32:domain', common.site_of(rot, n), '_ROTL32 asserts `%s`: a legal 32-bit word (0xFFFFFFFF) aborts MurmurHash3, and with it insert/contains for the elements that produce it' % norm(n.test), sure=True)
    w = repo.lookup_method(ci, 'IsWithinSizeConstraints')
    if w is not None:
        from ..rules import equiv_folded as _ef
        e_ = common.return_expr(w, inline_locals=True)
        v_ = _ef(e_, repo, w.module, 'len(self.vData) <= 36000 and self.nHashFuncs <= 50', cls=ci) if e_ is not None else None
        if v_ is True:
            r.ok('IsWithinSizeConstraints', w.site, 'both limits, inclusive')
        elif v_ is False:
            r.violated('IsWithinSizeConstraints', w.site, 'IsWithinSizeConstraints returns `%s`; reference: len(vData) <= 36000 and nHashFuncs <= 50' % norm(e_))
        else:
            r.undecided('IsWithinSizeConstraints', w.site, 'IsWithinSizeConstraints returns `%s`' % (norm(e_) if e_ is not None else None))


def _body(fi):
    return [s for s in fi.node.body if not (isinstance(s, ast.Expr) and isinstance(s.value, ast.Constant))]


def rule_siblings(ctx, repo, ci):
    r = ctx.rule('C20.N1', 'insert and contains address the same bits: same schedule, same byte/bit split, same mask table, same shortcuts',
                 engine='OWN', floor=7)
    ins = repo.lookup_method(ci, 'insert')
    con = repo.lookup_method(ci, 'contains')
    mask = repo.class_attr_value(ci, ci.mangle('__bit_mask'))
    r.check(isinstance(mask, bytes) and list(mask) == [1 << k for k in range(8)], 'bit-mask-table', ci.site, '[1<<k for k in 0..7]', 'bit mask table is %r' % (mask,))

    def facts(fi):
        out = {}
        for n in walk_no_nested(fi.node):
            if isinstance(n, ast.For):
                out['range'] = norm(n.iter)
                out['loopvar'] = norm(n.target)
                for m in ast.walk(n):
                    if isinstance(m, ast.Assign) and isinstance(m.value, ast.Call) and norm(m.value.func) == 'self.bloom_hash':
                        out['index'] = norm(m.value)
                        out['idxvar'] = norm(m.targets[0])
                    if isinstance(m, ast.Subscript) and norm(m.value) == 'self.vData' and not isinstance(m.slice, ast.Constant):
                        out['byte'] = norm(m.slice)
                    if isinstance(m, ast.Subscript) and 'bit_mask' in norm(m.value):
                        out['bit'] = canon(m.slice)
            if isinstance(n, ast.If) and 'isinstance' in norm(n.test):
                out['convert'] = norm(n.test) + ' -> ' + norm(n.body)
            if isinstance(n, ast.Assign) and isinstance(n.value, ast.IfExp) and 'isinstance' in norm(n.value.test) and norm(n.value.orelse) == norm(n.targets[0]):
                # elem = elem.serialize() if isinstance(elem, COutPoint) else elem
                out['convert'] = norm(n.value.test) + ' -> ' + '%s = %s' % (norm(n.targets[0]), norm(n.value.body))
        if 'range' not in out:
            # the same schedule written with generator expressions: (bloom_hash(i, e) for i in range(n)) consumed by
            # all(... for idx in <that generator>)
            gens = {}
            for n in walk_no_nested(fi.node):
                if isinstance(n, ast.Assign) and isinstance(n.value, (ast.GeneratorExp, ast.ListComp)) and isinstance(n.targets[0], ast.Name):
                    gens[n.targets[0].id] = n.value
            for n in ast.walk(fi.node):
                if isinstance(n, (ast.GeneratorExp, ast.ListComp)) and len(n.generators) == 1 and not n.generators[0].ifs:
                    g = n.generators[0]
                    calls = [c for c in ast.walk(n.elt) if isinstance(c, ast.Call) and norm(c.func) == 'self.bloom_hash']
                    if calls and isinstance(g.target, ast.Name) and n.elt is calls[0]:
                        out['range'] = norm(g.iter)
                        out['loopvar'] = g.target.id
                        out['index'] = norm(calls[0])
                    src = g.iter
                    if isinstance(src, ast.Name) and src.id in gens:
                        src = gens[src.id]
                    if isinstance(src, (ast.GeneratorExp, ast.ListComp)) and any(isinstance(c, ast.Call) and norm(c.func) == 'self.bloom_hash' for c in ast.walk(src)) \
                            and isinstance(g.target, ast.Name):
                        out['idxvar'] = g.target.id
                        for m in ast.walk(n.elt):
                            if isinstance(m, ast.Subscript) and norm(m.value) == 'self.vData' and not isinstance(m.slice, ast.Constant):
                                out['byte'] = norm(m.slice)
                            if isinstance(m, ast.Subscript) and 'bit_mask' in norm(m.value):
                                out['bit'] = canon(m.slice)
        tests = [norm(n.test) for n in fi.node.body if isinstance(n, ast.If)]
        out['shortcuts'] = [t for t in tests if 'isinstance' not in t]
        return out
    a, b = facts(ins), facts(con)
    from ..rules import equiv as _eq, canon_arith as _ca
    for f_ in (a, b):
        if f_.get('range') == 'range(0, self.nHashFuncs)':
            f_['range'] = 'range(self.nHashFuncs)'
        f_['early'] = ' or '.join('(%s)' % t for t in f_['shortcuts']) or 'False'
    same_sc = _eq(a['early'], b['early'])
    r.check(same_sc is True, 'agree:shortcuts', ins.site, 'shortcuts: %s' % a['early'],
            'insert and contains disagree on shortcuts: insert leaves early when `%s`, contains when `%s` (an inserted element can then be reported as absent)' % (a['early'], b['early']))
    # what the shortcuts answer: a filter that is full or empty matches everything (contains -> True), and there is
    # nothing to set (insert -> leaves)
    for n in con.node.body:
        if isinstance(n, ast.If) and 'isinstance' not in norm(n.test) and not n.orelse:
            key = 'shortcut-answer:%s' % norm(n.test)[:40]
            if len(n.body) == 1 and isinstance(n.body[0], ast.Return) and isinstance(n.body[0].value, ast.Constant):
                r.check(n.body[0].value.value is True, key, common.site_of(con, n), 'answers True', 'contains answers %r when `%s`: a full (or empty) filter matches every element, an inserted element is reported absent'
                        % (n.body[0].value.value, norm(n.test)), sure=True)
            else:
                r.undecided(key, common.site_of(con, n), 'the shortcut `%s` of contains does not simply return a constant' % norm(n.test)[:50])
    def unvar(f_, k):
        # compare modulo the names of the loop / index variables
        v = f_.get(k)
        if v is None:
            return None
        for nm, ph in ((f_.get('idxvar'), '$idx'), (f_.get('loopvar'), '$i')):
            if nm:
                v = re.sub(r'\b%s\b' % re.escape(nm), ph, v)
        return v
    for k in ('range', 'index', 'byte', 'bit', 'convert'):
        if a.get(k) is None or b.get(k) is None:
            which = 'insert' if a.get(k) is None else 'contains'
            if k == 'convert' and a.get(k) is None and b.get(k) is None:
                pass
            else:
                r.undecided('agree:%s' % k, ins.site, 'the %s of %s is not written in a form this rule reads' % (k, which))
                continue
        r.check(unvar(a, k) == unvar(b, k) and a.get(k) is not None, 'agree:%s' % k, ins.site, '%s: %s' % (k, a.get(k)),
                'insert and contains disagree on %s: insert uses `%s`, contains uses `%s` (an inserted element can then be reported as absent)' % (k, a.get(k), b.get(k)))
    iv = a.get('idxvar', 'nIndex')
    r.check(a.get('range') in ('range(0, self.nHashFuncs)', 'range(self.nHashFuncs)'), 'schedule:range', ins.site, 'i in 0..nHashFuncs-1', 'hash functions iterated over `%s`' % a.get('range'))
    r.check(a.get('index') == 'self.bloom_hash(%s, elem)' % a.get('loopvar'), 'schedule:index', ins.site, 'bloom_hash(i, element)', 'index computed as `%s`' % a.get('index'))
    r.check(a.get('byte') == '%s >> 3' % iv and a.get('bit') in ('BitAnd(0x7,%s)' % iv,), 'schedule:byte-bit', ins.site, 'byte index >> 3, bit index & 7',
            'bit addressing is byte `%s` / bit `%s`, BIP37: vData[n >> 3] bit (n & 7)' % (a.get('byte'), a.get('bit')))
    full = 'len(self.vData) == 1 and self.vData[0] == 255'
    ref_early = 'len(self.vData) == 0 or (%s)' % full
    for nm, f in (('insert', a), ('contains', b)):
        v_ = _eq(f['early'], ref_early, domain={'self.vData[0]': (0, 255)})
        if v_ is True:
            r.ok('full-filter-shortcut:%s' % nm, ins.site if nm == 'insert' else con.site, full)
        elif v_ is False:
            r.violated('full-filter-shortcut:%s' % nm, ins.site if nm == 'insert' else con.site,
                       '%s leaves early when `%s`; the shortcuts are: empty filter, or the single byte 0xff (the match-everything filter) - they differ at %s' % (nm, f['early'], _eq.witness))
        else:
            r.undecided('full-filter-shortcut:%s' % nm, ins.site if nm == 'insert' else con.site, '%s leaves early when `%s`' % (nm, f['early']))
    # insert writes into vData in place: every constructor must store a mutable byte array there
    for f_ in [m_ for m_ in ci.methods.values()]:
        for n in walk_no_nested(f_.node):
            if isinstance(n, ast.Assign) and len(n.targets) == 1 and isinstance(n.targets[0], ast.Attribute) and n.targets[0].attr == 'vData':
                v_ = common.resolved(f_, n.value, repo)
                okb = isinstance(v_, ast.Call) and norm(v_.func) == 'bytearray'
                r.check(okb, 'vData-mutable:%s' % f_.name, common.site_of(f_, n), 'vData is a bytearray',
                        '%s stores `%s` in vData: insert() sets bits in place (vData[i] |= mask), which fails on an immutable bytes object - a filter read from the wire could not be extended' % (f_.name, norm(v_)[:80]))
    # insert sets, contains tests
    sets = [n for n in walk_no_nested(ins.node) if isinstance(n, ast.AugAssign) and isinstance(n.op, ast.BitOr) and norm(n.target).startswith('self.vData[')]
    r.check(len(sets) == 1, 'insert:sets-bit', ins.site, 'vData[byte] |= mask', 'insert does not set the bit with |=')
    # every scheduled index gets its bit: the loop over the hash functions is never left early and the store is unconditional
    for lp_ in [n for n in walk_no_nested(ins.node) if isinstance(n, ast.For)]:
        if not any(x in sets for x in ast.walk(lp_)):
            continue
        early = [x for x in ast.walk(lp_) if isinstance(x, (ast.Break, ast.Return))]
        skips = [x for x in ast.walk(lp_) if isinstance(x, ast.Continue)]
        uncond = any(x in sets for x in lp_.body)
        if skips and not early:
            # skipping the store is harmless exactly when the bit is already set: not decided here
            r.undecided('insert:every-index', common.site_of(ins, skips[0]), 'the loop over the hash functions skips some iterations with `continue`')
        elif early:
            r.violated('insert:every-index', common.site_of(ins, early[0]), 'the loop over the hash functions of insert() can leave or skip with `%s` before a bit is set: the bits of the remaining '
                       'hash functions stay clear, and contains() then reports the element just inserted as absent' % norm(early[0]), sure=True)
        elif not uncond:
            r.undecided('insert:every-index', common.site_of(ins, lp_), 'the bit store sits under a condition inside the loop')
        else:
            r.ok('insert:every-index', common.site_of(ins, lp_), 'one unconditional store per hash function')
    rets = [(norm(n.value), n) for n in walk_no_nested(con.node) if isinstance(n, ast.Return)]
    inloop = [t for t, n in rets if isinstance(getattr(getattr(n, '_parent', None), '_parent', None), ast.For) or isinstance(getattr(n, '_parent', None), ast.For)]
    last = _body(con)[-1]
    if isinstance(last, ast.Return) and isinstance(last.value, ast.Call) and norm(last.value.func) == 'all' and len(last.value.args) == 1 \
            and isinstance(last.value.args[0], (ast.GeneratorExp, ast.ListComp)) and 'self.vData[' in norm(last.value.args[0].elt):
        r.ok('contains:default-true', con.site, 'all(<bit set> for every scheduled index): true when every scheduled bit is set')
    elif isinstance(last, ast.Return) and last.value is not None and not isinstance(last.value, ast.Constant):
        r.undecided('contains:default-true', con.site, 'contains ends with `return %s`' % norm(last.value)[:60])
    else:
        r.check(isinstance(last, ast.Return) and norm(last.value) == 'True', 'contains:default-true', con.site, 'returns True when every scheduled bit is set',
                'contains does not end with `return True`')


def rule_guard(ctx, repo, ci):
    r = ctx.rule('C20.G1', 'the modulo by the number of filter bits is reached only for non-empty data; an empty filter matches everything', engine='GUARD', floor=2)
    for nm, want in (('insert', None), ('contains', 'True')):
        fi = repo.lookup_method(ci, nm)

        def cond(test):
            t = norm(test)
            if t in ('len(self.vData) == 0', 'not self.vData', 'not len(self.vData)', 'len(self.vData) < 1', '0 == len(self.vData)'):
                return frozenset(['empty']), frozenset(['nonempty'])
            if t in ('len(self.vData) != 0', 'self.vData', 'len(self.vData)', 'len(self.vData) > 0', 'len(self.vData) >= 1'):
                return frozenset(['nonempty']), frozenset(['empty'])
            return frozenset(), frozenset()
        mf = flow.run_must(fi.node, cond=cond)
        calls = []
        for n in ast.walk(fi.node):
            if isinstance(n, ast.stmt) and not isinstance(n, (ast.FunctionDef, ast.If, ast.For, ast.While, ast.Try)):
                if any(isinstance(c, ast.Call) and norm(c.func) == 'self.bloom_hash' for c in ast.walk(n)):
                    calls.append(n)
        if not calls:
            r.undecided('%s:no-call' % nm, fi.site, 'no bloom_hash call found')
            continue
        ok = True
        from ..escape import implied_at
        for c in calls:
            f = mf.at.get(id(c))
            if (f is None or 'nonempty' not in f) and implied_at(repo, fi, c, 'len(self.vData) > 0') is not True:
                ok = False
                r.violated('%s:modulo-guard' % nm, common.site_of(fi, c), '%s reaches bloom_hash (modulo len(vData)*8) without an emptiness guard: a filter with empty data, as can arrive from the wire, raises ZeroDivisionError' % nm)
        if ok:
            r.ok('%s:modulo-guard' % nm, fi.site, 'bloom_hash reached only when len(vData) != 0')
        # a byte of the data read by a literal index: the data must be known to be that long there (an empty filter can
        # arrive from the wire)
        for n in ast.walk(fi.node):
            if isinstance(n, ast.Subscript) and isinstance(n.ctx, ast.Load) and norm(n.value) == 'self.vData' and isinstance(n.slice, ast.Constant) \
                    and type(n.slice.value) is int and n.slice.value >= 0:
                v_ = implied_at(repo, fi, n, 'len(self.vData) > %d' % n.slice.value)
                k_ = '%s:indexed-byte:%d' % (nm, n.slice.value)
                if v_ is True:
                    r.ok(k_, common.site_of(fi, n), 'read only where the data is that long')
                elif v_ is False:
                    r.violated(k_, common.site_of(fi, n), '%s reads self.vData[%d] where the data can be empty (the tests in front of it admit a length of 0): an empty filter, as can arrive from the wire, raises IndexError'
                               % (nm, n.slice.value), sure=True)
                else:
                    r.undecided(k_, common.site_of(fi, n), '%s reads self.vData[%d]; that the data is long enough there was not established' % (nm, n.slice.value))
        empties = [(k, n) for k, n, f in mf.exits if 'empty' in f and k == 'return']
        if nm == 'contains':
            good = empties and all(norm(n.value) == 'True' for k, n in empties)
            if not good:
                # any spelling of the shortcut: the early `return True` paths (those that leave before the bit loop) must
                # cover the empty filter
                from ..rules import outcome_formula, equiv as _eq

                def classify(p):
                    looped = any(isinstance(s_, (ast.For, ast.While)) for s_ in p.stmts())
                    if p.end == 'return' and not looped and p.endnode.value is not None and repo.fold(p.endnode.value, fi.module) is True:
                        return 'early-true'
                    return 'other'
                oc = outcome_formula(repo, fi, classify) or {}
                good = _eq('not (len(self.vData) == 0) or (%s)' % oc.get('early-true', 'False'), 'True') is True
            r.check(bool(good), 'contains:empty-matches-all', fi.site, 'empty filter matches every element', 'contains does not return True for an empty filter')
