"""C15 Merkle roots, witness merkle root and weights equal their definitions."""
import ast
import re

from ..model import UNKNOWN, ClassRef, FuncRef, norm, walk_no_nested
from ..table import Tracer
from ..rules import canon_guard
from .. import common, spec, flow, shape

CORE = 'bitcoin.core.'


def run(ctx):
    repo = ctx.repo
    rule_weight(ctx, repo)
    rule_trees(ctx, repo)
    rule_pairing(ctx, repo)
    rule_block_ctor(ctx, repo)
    ctx.not_decided += ['the values produced by the pairing loop (hash arithmetic over all counts): its parameters are matched against the reference form, the loop is not evaluated']
    ctx.assume('GetTxid / GetHash as decided by C02; serialisation as decided by C01')


def linear(e, classify):
    """expression -> {term class: coefficient} for sums of k * len(<serialisation>) ; None if not of that form"""
    if isinstance(e, ast.BinOp) and isinstance(e.op, ast.Add):
        a, b = linear(e.left, classify), linear(e.right, classify)
        if a is None or b is None:
            return None
        out = dict(a)
        for k, v in b.items():
            out[k] = out.get(k, 0) + v
        return out
    if isinstance(e, ast.BinOp) and isinstance(e.op, ast.Mult):
        from ..rules import _ca_int
        for x, y in ((e.left, e.right), (e.right, e.left)):
            k_ = _ca_int(y)
            if k_ is not None:
                a = linear(x, classify)
                if a is None:
                    return None
                return {k: v * k_ for k, v in a.items()}
        return None
    if isinstance(e, ast.Call) and norm(e.func) == 'len' and len(e.args) == 1:
        c = classify(e.args[0])
        if c is not None:
            return {c: 1}
    return None


def block_linear(repo, fi, e):
    """size algebra for CBlock methods: expression -> linear form over
       '1' (bytes), 'V' (size of the CompactSize transaction count), 'S' (sum of stripped tx sizes), 'F' (sum of full tx sizes)
    using the C01 layouts: header = 80 bytes, block = header + V + transactions.  None if outside the algebra."""
    def add(a, b, k=1):
        out = dict(a)
        for x, v in b.items():
            out[x] = out.get(x, 0) + k * v
        return out

    def strip_arg(call):
        for a in list(call.args) + [k.value for k in call.keywords]:
            v = repo.fold(a, fi.module, cls=fi.cls)
            if isinstance(v, dict) and v.get('include_witness') is False:
                return True
        return False
    if isinstance(e, ast.Constant) and isinstance(e.value, int):
        return {'1': e.value}
    if isinstance(e, ast.Name):
        defs = [n.value for n in walk_no_nested(fi.node) if isinstance(n, ast.Assign) and len(n.targets) == 1 and norm(n.targets[0]) == e.id]
        if len(defs) == 1:
            return block_linear(repo, fi, defs[0])
        v = repo.fold(e, fi.module, cls=fi.cls)
        return {'1': v} if isinstance(v, int) and not isinstance(v, bool) else None
    if isinstance(e, ast.BinOp) and isinstance(e.op, (ast.Add, ast.Sub)):
        a, b = block_linear(repo, fi, e.left), block_linear(repo, fi, e.right)
        if a is None or b is None:
            return None
        return add(a, b, 1 if isinstance(e.op, ast.Add) else -1)
    if isinstance(e, ast.BinOp) and isinstance(e.op, ast.Mult):
        for x, y in ((e.left, e.right), (e.right, e.left)):
            k = repo.fold(y, fi.module, cls=fi.cls)
            if isinstance(k, int) and not isinstance(k, bool):
                a = block_linear(repo, fi, x)
                return None if a is None else {n: v * k for n, v in a.items()}
        return None
    if isinstance(e, ast.Call) and norm(e.func) == 'len' and len(e.args) == 1:
        x = e.args[0]
        if isinstance(x, ast.Call) and isinstance(x.func, ast.Attribute) and x.func.attr == 'serialize':
            recv = norm(x.func.value)
            if recv == 'self':
                return {'1': 80, 'V': 1, 'S' if strip_arg(x) else 'F': 1}
            if recv == 'self.get_header()':
                return {'1': 80}
            if recv == 'VarIntSerializer' and len(x.args) == 1 and norm(x.args[0]) == 'len(self.vtx)':
                return {'V': 1}
        return None
    if isinstance(e, ast.Call) and norm(e.func) == 'sum' and len(e.args) == 1 and isinstance(e.args[0], (ast.GeneratorExp, ast.ListComp)):
        g = e.args[0]
        if len(g.generators) == 1 and norm(g.generators[0].iter) == 'self.vtx' and not g.generators[0].ifs:
            v = norm(g.generators[0].target)
            el = g.elt
            if norm(el) == '%s.calc_weight()' % v:
                return {'S': 3, 'F': 1}  # per-transaction weight as decided by calc_weight's own rule
            if isinstance(el, ast.Call) and norm(el.func) == 'len' and isinstance(el.args[0], ast.Call) and norm(el.args[0].func) == '%s.serialize' % v:
                return {'S' if strip_arg(el.args[0]) else 'F': 1}
        return None
    return None


def rule_weight(ctx, repo):
    r = ctx.rule('C15.W1', 'weight = 3 x stripped size + full size (4 x full size only when the witness is empty)', engine='RULES', floor=4)
    tx = repo.get_class(CORE + 'CTransaction')
    fi = repo.lookup_method(tx, 'calc_weight')
    tr = Tracer(repo, fi.module, cls=tx)
    paths = [p for p in tr.trace(fi.node.body, {}) if p.end == 'return']
    stripped_vars = {}
    for n in walk_no_nested(fi.node):
        if isinstance(n, ast.Assign) and isinstance(n.value, ast.Call):
            cv = repo.fold(n.value.func, fi.module)
            if isinstance(cv, ClassRef) and repo.is_subclass(cv.info, tx):
                args = [norm(a) for a in n.value.args]
                stripped_vars[norm(n.targets[0])] = args == ['self.vin', 'self.vout', 'self.nLockTime', 'self.nVersion'] and not n.value.keywords

    def classify(x):
        if isinstance(x, ast.Call) and isinstance(x.func, ast.Attribute) and x.func.attr == 'serialize':
            recv = norm(x.func.value)
            strip_arg = False
            for a in list(x.args) + [k.value for k in x.keywords]:
                v = repo.fold(a, fi.module, cls=tx)
                if isinstance(v, dict) and v.get('include_witness') is False:
                    strip_arg = True
            if recv == 'self':
                return 'stripped' if strip_arg else 'full'
            if recv in stripped_vars:
                return 'stripped' if stripped_vars[recv] else 'bad-reconstruction'
        return None
    # the preconditions the function asserts hold for every transaction with at least one input and one output
    from ..rules import equiv as _eqw
    for n in walk_no_nested(fi.node):
        if isinstance(n, ast.Assert):
            t_ = norm(n.test)
            m_ = re.match(r'^len\(self\.(vin|vout)\)', t_)
            if m_:
                v_ = _eqw(t_, 'len(self.%s) > 0' % m_.group(1), domain={'len(self.%s)' % m_.group(1): (0, None)})
                if v_ is not True:
                    try:
                        code_ = compile(ast.parse(t_.replace('len(self.%s)' % m_.group(1), 'N_'), mode='eval'), '<assert>', 'eval')
                        if all(bool(eval(code_, {'__builtins__': {}}, {'N_': k_})) for k_ in (1, 2, 3, 10, 1000, 10 ** 6)):
                            v_ = True  # weaker than the confirmed precondition: nothing with at least one element is refused
                    except Exception:
                        pass
                if v_ is True:
                    r.ok('calc_weight:precondition:%s' % m_.group(1), common.site_of(fi, n), 'at least one')
                elif v_ is False:
                    r.violated('calc_weight:precondition:%s' % m_.group(1), common.site_of(fi, n), 'calc_weight asserts `%s`: a transaction with exactly one %s raises AssertionError instead of returning its weight'
                               % (t_, 'input' if m_.group(1) == 'vin' else 'output'), sure=True)
    if not paths:
        r.undecided('calc_weight', fi.site, 'no returning path')
    for p in paths:
        null = p.assume.get('self.wit.is_null()')
        key = 'calc_weight:%s' % ('witness-empty' if null else ('witness-present' if null is False else 'unconditional'))
        lin = linear(p.endnode.value, classify)
        site = common.site_of(fi, p.endnode)
        if lin is None:
            r.undecided(key, site, 'weight expression `%s` is not a sum of multiples of serialised sizes' % norm(p.endnode.value))
        elif lin == {'stripped': 3, 'full': 1} or (null is True and lin == {'full': 4}):
            r.ok(key, site, str(lin))
        else:
            r.violated(key, site, 'transaction weight is computed as %s (`%s`); BIP141: 3 x stripped size + full size%s'
                       % (lin, norm(p.endnode.value), '' if null is not True else ' (4 x full size is equal only when the witness is empty)'))
    blk = repo.get_class(CORE + 'CBlock')
    gw = repo.lookup_method(blk, 'GetWeight')
    rets = [n for n in walk_no_nested(gw.node) if isinstance(n, ast.Return)]
    if len(rets) == 1:
        lin = block_linear(repo, gw, rets[0].value)
        ref = {'1': 4 * 80, 'V': 4, 'S': 3, 'F': 1}
        if lin is None:
            r.undecided('GetWeight', gw.site, 'block weight expression `%s` is outside the size algebra (sums of serialised sizes of the block, its header and its transactions)' % norm(rets[0].value)[:90])
        else:
            lin = {k: v for k, v in lin.items() if v}
            r.check(lin == ref, 'GetWeight', gw.site, '4*80 + 4*count-prefix + 3*sum(stripped tx) + sum(full tx)',
                    'block weight is %s over {1, V = size of the transaction-count prefix, S = stripped tx sizes, F = full tx sizes}; BIP141 3 x stripped + full = %s%s'
                    % (lin, ref, ' (the count prefix is assumed to have a fixed size)' if lin.get('V', 0) != 4 else ''))
    else:
        r.undecided('GetWeight', gw.site, 'not a single return')
    ws = repo.lookup_method(blk, 'stream_serialize')
    calls = [norm(c) for c in common.iter_calls(ws.node) if norm(c.func) == 'VectorSerializer.stream_serialize']
    r.check(calls == ['VectorSerializer.stream_serialize(CTransaction, self.vtx, f, dict(include_witness=include_witness))'], 'block-strips-transactions', ws.site,
            'include_witness is forwarded to every transaction', 'the block writer serialises its transactions as %s' % calls)


def rule_trees(ctx, repo):
    r = ctx.rule('C15.M1', 'the merkle tree is built over txids; the witness tree over witness hashes with the coinbase entry zeroed; NoWitnessData iff no witness', engine='MODEL', floor=8)
    blk = repo.get_class(CORE + 'CBlock')
    f = repo.lookup_method(blk, 'build_merkle_tree_from_txs')
    p = f.params[0]
    defs = {norm(n.targets[0]): n.value for n in walk_no_nested(f.node) if isinstance(n, ast.Assign) and len(n.targets) == 1}
    rets = [n.value for n in walk_no_nested(f.node) if isinstance(n, ast.Return)]
    ids = norm(defs.get('txids')) if 'txids' in defs else None
    r.check(ids == '[tx.GetTxid() for tx in %s]' % p, 'txid-leaves', f.site, 'leaves are the txids', 'merkle leaves are `%s`, not the txids of all transactions in order' % ids)
    r.check(len(rets) == 1 and norm(rets[0]) == 'CBlock.build_merkle_tree_from_txids(txids)', 'txid-tree', f.site, 'tree built by build_merkle_tree_from_txids', 'returns %s' % [norm(x) for x in rets])
    cm = repo.lookup_method(blk, 'calc_merkle_root')
    rets = [norm(n.value) for n in walk_no_nested(cm.node) if isinstance(n, ast.Return)]
    r.check(rets == ['self.build_merkle_tree_from_txs(self.vtx)[-1]'], 'root-is-last', cm.site, 'root = last node of the tree over all transactions', 'calc_merkle_root returns %s' % rets)
    cw = repo.lookup_method(blk, 'calc_witness_merkle_root')
    rets = [norm(n.value) for n in walk_no_nested(cw.node) if isinstance(n, ast.Return)]
    if rets == ['self.build_witness_merkle_tree_from_txs(self.vtx)[-1]']:
        r.ok('witness-root-is-last', cw.site, 'witness root = last node of the witness tree over all transactions')
    elif len(rets) == 1 and re.match(r'^self\.build_witness_merkle_tree_from_txs\(self\.vtx\)\[-?\d+\]$', rets[0]):
        r.violated('witness-root-is-last', cw.site, 'calc_witness_merkle_root returns `%s`: the root is the LAST node of the tree ([-1]); [-0] is the zeroed coinbase leaf, [-2] an inner node' % rets[0], sure=True)
    elif not rets:
        r.violated('witness-root-is-last', cw.site, 'calc_witness_merkle_root returns nothing', sure=True)
    else:
        r.undecided('witness-root-is-last', cw.site, 'calc_witness_merkle_root returns %s' % rets)
    from ..rules import raising_guards as _rg15, equiv as _eq15
    cg = [(g, n) for g, n in _rg15(cw.node, repo, cw.module, cw.cls)]
    emp = [g for g, n in cg if 'vtx' in g]
    if len(emp) == 1:
        v_ = _eq15(emp[0], 'len(self.vtx) == 0', domain={'len(self.vtx)': (0, None)})
        if v_ is True:
            r.ok('witness-root:empty-block', cw.site, 'only an empty block is refused')
        elif v_ is False:
            r.violated('witness-root:empty-block', cw.site, 'calc_witness_merkle_root refuses when `%s`: every block WITH transactions is turned away (the confirmed test refuses the empty block only)' % emp[0], sure=True)
        else:
            r.undecided('witness-root:empty-block', cw.site, 'refusal `%s` not compared' % emp[0])
    w = repo.lookup_method(blk, 'build_witness_merkle_tree_from_txs')
    p = w.params[0]
    body = [s for s in w.node.body if not (isinstance(s, ast.Expr) and isinstance(s.value, ast.Constant))]
    texts = [norm(s) for s in body]
    loops = [s for s in body if isinstance(s, ast.For)]
    ok_loop = len(loops) == 1 and norm(loops[0].iter) == p and sorted(norm(x) for x in loops[0].body) == sorted(['hashes.append(tx.GetHash())', 'has_witness |= tx.has_witness()'])
    r.check(ok_loop, 'witness-leaves', w.site, 'leaves are the witness hashes (GetHash) of all transactions', 'witness leaves are built by `%s`' % (norm(loops[0]) if loops else texts)[:120])
    # "some transaction has witness data" ranges over ALL transactions, the coinbase (whose witness is the reserved value) included
    for n_ in ast.walk(w.node):
        if isinstance(n_, (ast.GeneratorExp, ast.ListComp)) and 'has_witness()' in norm(n_.elt) and len(n_.generators) == 1:
            it_ = n_.generators[0].iter
            if isinstance(it_, ast.Subscript) and norm(it_.value) == p and isinstance(it_.slice, ast.Slice) and not (it_.slice.lower is None or norm(it_.slice.lower) == '0'):
                r.violated('witness-leaves:all-transactions', common.site_of(w, n_), 'has_witness() is asked of `%s` only: a block whose only witness is the coinbase\'s reserved value raises '
                           'NoWitnessData instead of giving the tree (and CheckBlock then skips the commitment)' % norm(it_), sure=True)
    for lp_ in loops:
        it_ = lp_.iter
        if isinstance(it_, ast.Subscript) and norm(it_.value) == p and isinstance(it_.slice, ast.Slice) and any('has_witness' in norm(x) for x in ast.walk(lp_)) \
                and not (it_.slice.lower is None or norm(it_.slice.lower) == '0'):
            r.violated('witness-leaves:all-transactions', common.site_of(w, lp_), 'the loop that accumulates has_witness() runs over `%s` only: the coinbase\'s own witness no longer counts' % norm(it_), sure=True)
    zero = [k for k, s in enumerate(body) if isinstance(s, ast.Assign) and norm(s.targets[0]) == 'hashes[0]']
    retk = [k for k, s in enumerate(body) if isinstance(s, ast.Return)]
    loopk = [k for k, s in enumerate(body) if isinstance(s, ast.For)]
    ZERO32 = b'\x00' * 32
    # the argument handed to the tree builder
    tree_calls = [s.value for s in body if isinstance(s, ast.Return) and isinstance(s.value, ast.Call) and norm(s.value.func).endswith('build_merkle_tree_from_txids') and len(s.value.args) == 1]
    arg = tree_calls[0].args[0] if len(tree_calls) == 1 else None
    site0 = common.site_of(w, body[zero[0]]) if zero else w.site
    if arg is not None and norm(arg) == 'hashes':
        zv = repo.fold(body[zero[0]].value, w.module) if zero else None
        if len(zero) == 1 and zv == ZERO32 and loopk and retk and loopk[0] < zero[0] < retk[0]:
            r.ok('coinbase-zeroed', site0, 'entry 0 is replaced by 32 zero bytes before the tree is built')
        elif not zero or (len(zero) == 1 and isinstance(zv, bytes)) or (len(zero) == 1 and loopk and zero[0] < loopk[0]):
            r.violated('coinbase-zeroed', site0, 'the coinbase entry is not unconditionally replaced by 32 zero bytes between collecting the hashes and building the tree')
        else:
            r.undecided('coinbase-zeroed', site0, 'the replacement of entry 0 (`%s`) was not recognised' % '; '.join(norm(body[k]) for k in zero)[:100])
    elif arg is not None:
        # [Z, *hashes[1:]]  /  [Z] + hashes[1:]
        first = rest = None
        if isinstance(arg, ast.List) and len(arg.elts) == 2 and isinstance(arg.elts[1], ast.Starred):
            first, rest = arg.elts[0], arg.elts[1].value
        elif isinstance(arg, ast.BinOp) and isinstance(arg.op, ast.Add) and isinstance(arg.left, ast.List) and len(arg.left.elts) == 1:
            first, rest = arg.left.elts[0], arg.right
        zv = repo.fold(first, w.module) if first is not None else None
        if first is not None and norm(rest) == 'hashes[1:]' and not zero:
            r.check(zv == ZERO32, 'coinbase-zeroed', common.site_of(w, arg), 'the tree is built over 32 zero bytes followed by the other witness hashes',
                    'the coinbase entry handed to the tree builder is `%s`, not 32 zero bytes' % norm(first)[:60], sure=isinstance(zv, bytes))
        else:
            r.undecided('coinbase-zeroed', common.site_of(w, arg), 'the list handed to the tree builder (`%s`) was not recognised' % norm(arg)[:80])
    else:
        r.undecided('coinbase-zeroed', w.site, 'no single call of build_merkle_tree_from_txids in a return statement')
    if tree_calls:
        r.ok('witness-tree', w.site, 'same tree algorithm')
    else:
        calls_ = [c_ for c_ in ast.walk(w.node) if isinstance(c_, ast.Call) and norm(c_.func).endswith('build_merkle_tree_from_txids')]
        if calls_:
            r.undecided('witness-tree', w.site, 'build_merkle_tree_from_txids is called, but not as the returned value')
        else:
            r.violated('witness-tree', w.site, 'witness tree is not built by build_merkle_tree_from_txids(hashes)')
    from ..rules import canon_text as _ct0, _canon_text_of
    raising = [s for s in body if isinstance(s, ast.If) and len(s.body) == 1 and isinstance(s.body[0], ast.Raise) and norm(s.body[0].exc) in ('NoWitnessData', 'NoWitnessData()')]
    if len(raising) != 1:
        r.check(False, 'no-witness-data', w.site, '', 'NoWitnessData is not raised exactly when no transaction has witness data (%d raising guards)' % len(raising))
    else:
        t_ = raising[0].test
        parts = t_.values if isinstance(t_, ast.BoolOp) and isinstance(t_.op, ast.Or) else [t_]
        core = [x for x in parts if norm(x) == 'not has_witness']
        # "no transactions at all" is a case of "no transaction has witness data" (the loop never sets the flag)
        empties = {_ct0(t) for t in ('len(hashes) < 1', 'len(%s) < 1' % p)} | {'not hashes', 'not %s' % p}
        extra = [x for x in parts if norm(x) != 'not has_witness']
        redundant = all((_canon_text_of(ast.parse(norm(x), mode='eval').body) in empties or norm(x) in empties) for x in extra)
        if core and redundant:
            r.ok('no-witness-data', w.site, 'NoWitnessData iff no transaction has witness' + (' (an empty list included explicitly)' if extra else ''))
        elif core:
            r.undecided('no-witness-data', common.site_of(w, raising[0]), 'NoWitnessData is also raised when `%s`' % ' or '.join(norm(x) for x in extra))
        else:
            r.violated('no-witness-data', common.site_of(w, raising[0]), 'NoWitnessData is raised when `%s`, not exactly when no transaction has witness data' % norm(t_))
    init = [norm(n.value) for n in body if isinstance(n, ast.Assign) and norm(n.targets[0]) == 'has_witness']
    r.check(init == ['False'], 'no-witness-data:init', w.site, 'starts False', 'has_witness starts as %s' % init)
    hw = repo.find_method(CORE + 'CTransaction', 'has_witness')
    rets = [norm(n.value) for n in walk_no_nested(hw.node) if isinstance(n, ast.Return)]
    r.check(rets == ['not self.wit.is_null()'], 'has_witness', hw.site, 'some stack non-empty', 'has_witness returns %s' % rets)


def rule_pairing(ctx, repo):
    r = ctx.rule('C15.M2', 'pairing loop parameters: pairs (i, min(i+1, size-1)) of the current level, level offset += size, size halves rounding up', engine='RULES', floor=6)
    blk = repo.get_class(CORE + 'CBlock')
    f = repo.lookup_method(blk, 'build_merkle_tree_from_txids')
    p = f.params[0]
    wl = [n for n in f.node.body if isinstance(n, ast.While)]
    if len(wl) != 1:
        r.undecided('level-loop', f.site, 'no single `while size > 1` loop')
        return
    w = wl[0]
    # the level bookkeeping is integer arithmetic: a true division or a rounding call makes the level sizes wrong for
    # some leaf counts (round() rounds halves to even)
    inexact = [n for n in ast.walk(f.node) if (isinstance(n, ast.BinOp) and isinstance(n.op, ast.Div))
               or (isinstance(n, ast.Call) and norm(n.func) in ('round', 'float', 'math.ceil', 'math.floor', 'int') and any(isinstance(x, ast.BinOp) and isinstance(x.op, ast.Div) for x in ast.walk(n)))]
    r.check(not inexact, 'exact-arithmetic', common.site_of(f, inexact[0]) if inexact else f.site, 'integer arithmetic only',
            'the tree builder computes `%s` with floating-point division / rounding: level sizes are wrong for some leaf counts (e.g. round(2.5) == 2)' % (norm(inexact[0]) if inexact else ''))
    shape.verdict(r, 'level-loop', common.site_of(f, w), w.test, 'size > 1', 'level loop condition')
    inner = [n for n in w.body if isinstance(n, ast.For)]
    if len(inner) != 1:
        r.undecided('pair-loop', common.site_of(f, w), 'no single pair loop')
        return
    fl = inner[0]
    i = norm(fl.target)
    shape.verdict(r, 'pair-loop', common.site_of(f, fl), fl.iter, 'range(0, size, 2)', 'pair loop range')
    # resolve local definitions *inside the level loop* (a definition outside it is loop-invariant)
    inside = {}
    for n in ast.walk(w):
        if isinstance(n, ast.Assign) and len(n.targets) == 1 and isinstance(n.targets[0], ast.Name):
            inside.setdefault(n.targets[0].id, []).append(n.value)
    outside = {}
    for n in f.node.body:
        if isinstance(n, ast.Assign) and len(n.targets) == 1 and isinstance(n.targets[0], ast.Name):
            outside.setdefault(n.targets[0].id, []).append(n.value)
    app = [c for c in ast.walk(fl) if isinstance(c, ast.Call) and isinstance(c.func, ast.Attribute) and c.func.attr == 'append']
    if len(app) != 1:
        r.undecided('node', common.site_of(f, fl), 'no single append in the pair loop')
        return
    node = app[0].args[0]

    def inline(e):
        class T(ast.NodeTransformer):
            def visit_Name(s, n):
                if n.id in inside and len(inside[n.id]) == 1 and n.id not in (i, 'size', 'j'):
                    return s.visit(ast.parse(ast.unparse(inside[n.id][0]), mode='eval').body)
                return n
        return T().visit(ast.parse(ast.unparse(e), mode='eval').body)
    full = inline(node)
    # loop-invariant clamp: a name used in the node expression that is defined only outside the level loop from `size`
    stale = [n.id for n in ast.walk(full) if isinstance(n, ast.Name) and n.id in outside and n.id not in inside and n.id not in (p,)
             and any('size' in norm(v) or 'len(' in norm(v) for v in outside[n.id]) and n.id not in ('size', 'j', 'merkle_tree')]
    if stale:
        r.violated('pair-node', common.site_of(f, app[0]), 'the pair expression uses `%s`, computed once before the level loop from the leaf count, while the level size changes on every level: an odd inner level is paired with the wrong node'
                   % stale[0])
    else:
        shape.verdict(r, 'pair-node', common.site_of(f, app[0]), full, 'Hash(merkle_tree[j + %s] + merkle_tree[j + min(%s + 1, size - 1)])' % (i, i), 'parent node')
    tail = [s for s in w.body if not isinstance(s, ast.For)]
    texts = [norm(s) for s in tail]
    ok = len(tail) == 2 and texts[0] == 'j += size' and isinstance(tail[1], ast.Assign)
    if ok:
        r.ok('offset-then-halve', common.site_of(f, tail[0]), 'j += size before the size is halved')
        shape.verdict(r, 'halving', common.site_of(f, tail[1]), tail[1].value, '(size + 1) // 2', 'next level size')
    else:
        if 'j += size' in texts and any(t.startswith('size =') for t in texts) and texts.index('j += size') > [k for k, t in enumerate(texts) if t.startswith('size =')][0]:
            r.violated('offset-then-halve', common.site_of(f, w), 'the level offset is advanced by the *new* size: statements %s' % texts)
        elif len(tail) == 2 and texts[0] == 'j = size' and texts[1].startswith('size ='):
            # the offset of a level is the sum of the sizes of all levels below it; `j = size` is that only for the second level
            r.violated('offset-then-halve', common.site_of(f, tail[0]), 'the level offset is set to the size of the level just read (`j = size`) instead of advanced by it: from the third level on the '
                       'pairs are taken from the wrong part of the tree (five or more leaves)', sure=True)
        else:
            r.undecided('offset-then-halve', common.site_of(f, w), 'level bookkeeping is %s' % texts)
    init = {norm(n.targets[0]): norm(n.value) for n in f.node.body if isinstance(n, ast.Assign)}
    r.check(init.get('merkle_tree') == 'list(%s)' % p and init.get('size') == 'len(%s)' % p and init.get('j') == '0', 'initial-state', f.site,
            'tree starts as the leaves, size = number of leaves, offset 0', 'initial state is %s' % init)
    rets = [norm(n.value) for n in walk_no_nested(f.node) if isinstance(n, ast.Return)]
    r.check(rets == ['merkle_tree'], 'result', f.site, 'whole tree returned (root last)', 'returns %s' % rets)


def rule_block_ctor(ctx, repo):
    r = ctx.rule('C15.B1', 'CBlock(...) with transactions: an all-zero declared root is filled in, any other root must equal the computed one', engine='TABLE', floor=3)
    blk = repo.get_class(CORE + 'CBlock')
    init = repo.lookup_method(blk, '__init__')
    tr = Tracer(repo, init.module, cls=blk)
    paths = tr.trace(init.node.body, {})
    zero_atom = [k for p in paths for k in p.assume if 'hashMerkleRoot ==' in k]
    n_ok = 0
    for p in paths:
        vt = p.assume.get('vtx')
        texts = [norm(s) for s in p.stmts()]
        sup = [t for t in texts if t.startswith('super(CBlock, self).__init__(')]
        if vt is not True:
            continue
        tree = [t for t in texts if t.startswith('vMerkleTree = ')]
        if tree != ['vMerkleTree = tuple(CBlock.build_merkle_tree_from_txs(vtx))']:
            r.violated('computed-root', init.site, 'the constructor computes its tree as %s' % tree)
            return
        if p.end == 'raise':
            exc = norm(p.endnode.exc.func) if isinstance(p.endnode, ast.Raise) and isinstance(p.endnode.exc, ast.Call) else '?'
            mism = any(k == 'hashMerkleRoot != vMerkleTree[-1]' and v for k, v in p.assume.items())
            r.check(mism and exc == 'CheckBlockError', 'mismatch-refused', common.site_of(init, p.endnode), 'a different declared root is refused with CheckBlockError',
                    'a raising path is not the root-mismatch refusal (assumptions %s, error %s)' % (dict(p.assume), exc))
            continue
        if not sup:
            continue
        is_zero = any('hashMerkleRoot ==' in k and v for k, v in p.assume.items())
        filled = 'hashMerkleRoot = vMerkleTree[-1]' in texts
        equal = p.assume.get('hashMerkleRoot != vMerkleTree[-1]') is False
        if is_zero:
            r.check(filled, 'zero-root-filled', init.site, 'all-zero root replaced by the computed root', 'an all-zero declared root is not replaced by the computed root')
        else:
            r.check(equal, 'nonzero-root-checked', init.site, 'a non-zero declared root reaches the base constructor only if equal to the computed root',
                    'a block with transactions and a non-zero declared root is constructed without the equality test (assumptions %s)' % dict(p.assume))
        n_ok += 1
        args = sup[0]
        r.check('hashMerkleRoot' in args, 'root-forwarded', init.site, 'the (possibly filled-in) root is passed to the header constructor', 'the header constructor is called as %s' % args)
    # the all-zero test compares with 32 zero bytes
    for k in set(zero_atom):
        e = ast.parse(k, mode='eval').body
        v = repo.fold(e.comparators[0], init.module)
        r.check(v == b'\x00' * 32, 'zero-constant', init.site, '32 zero bytes', 'the "unset" root constant is %r' % (v,))
    if n_ok == 0:
        r.undecided('paths', init.site, 'no constructing path with transactions found')
