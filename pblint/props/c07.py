"""C07 Script verification is total, contained and side-effect free on any input."""
import ast
import re

from ..model import UNKNOWN, ClassRef, FuncRef, ClassInfo, norm, walk_no_nested
from ..layout import LayoutEngine
from ..interp import Interp, Depth, SEQS
from ..table import Tracer
from ..resolve import Resolver
from ..own import ReadOnly
from ..escape import Escape, rule_entry, justified_table, dead_by_domain, enclosing_if, implied_at
from ..rules import canon_guard, canon_text, equiv, equiv_folded
from .. import common, spec, flow
from . import c06


def run(ctx):
    repo = ctx.repo
    eng = LayoutEngine(repo)
    it = Interp(repo)
    rule_escape(ctx, repo, eng, it)
    rule_depth(ctx, repo, it)
    rule_multisig_typestate(ctx, repo, it)
    rule_names(ctx, repo, it)
    rule_index(ctx, repo)
    rule_readonly(ctx, repo, eng)
    from . import c09
    base_, imm_, mut_ = c09.classes(repo)
    c09.rule_R6(ctx, repo, eng, imm_, mut_, rid='C07.F2')
    rule_termination(ctx, repo, eng)
    rule_elements(ctx, repo)
    rule_error_state(ctx, repo)
    common.rule_flag_defaults(ctx, repo, 'C07.F3', need_empty=False)
    # "the state captured in a raised evaluation error respects the interpreter's limits": every iteration that grows a
    # stack ends in the stack-size guard, so no later error can capture more than the limit (C06.L2's obligation)
    c06.rule_stack_limit_path(ctx, repo, it)
    ctx.rules[-1].id = 'C07.L1'
    for i_ in ctx.rules[-1].instances:
        i_.rule = 'C07.L1'
    ctx.not_decided += ['loop-carried index bounds inside the multisig matching loop (relational invariant isig + sigs_count = const)',
                        'that the state captured in a raised error respects the limits, beyond the ordering rule C06.L1 multisig-op-count:order']
    ctx.assume('struct.error / OpenSSL behaviour inside libcrypto calls; list/bytes operations raise only IndexError on bad indices')


# ------------------------------------------------------------------------------------------------ X1
def script_justified(repo, it):
    just = justified_table(repo)

    # exhaustiveness-dead defaults: validated by enumerating the complete domain with the TABLE engine
    def dead_default(fq, var, domain, what):
        fi = repo.get_function(fq)

        def check(e):
            reached = dead_by_domain(repo, fi, var, domain)
            return id(e.node) not in reached, what
        return check
    isa_un = sorted(int(x) for x in (repo.module_value(it.mod, '_ISA_UNOP') or []))
    isa_bin = sorted(int(x) for x in (repo.module_value(it.mod, '_ISA_BINOP') or []))
    just[('bitcoin.core.scripteval._UnaryOp', "AssertionError('Unknown unary opcode")] = dead_default(
        'bitcoin.core.scripteval._UnaryOp', 'opcode', isa_un, 'the arms cover every member of _ISA_UNOP, and the only call site is guarded by `sop in _ISA_UNOP` (C06.D1/S1)')
    just[('bitcoin.core.scripteval._BinOp', "AssertionError('Unknown binop opcode")] = dead_default(
        'bitcoin.core.scripteval._BinOp', 'opcode', isa_bin, 'the arms cover every member of _ISA_BINOP, and the only call site is guarded by `sop in _ISA_BINOP`')
    just[('bitcoin.core.script.CScript.raw_iter', 'assert False')] = dead_default(
        'bitcoin.core.script.CScript.raw_iter', 'opcode', range(256), 'the push-class chain is exhaustive over the 256 byte values')
    # CScriptOp.__new__: the instance table is populated for 0..255 at import; opcodes are bytes
    def opcode_table(e):
        m = repo.get_module('bitcoin.core.script')
        ok = False
        for s in m.tree.body:
            if isinstance(s, ast.For) and norm(s.iter) in ('range(255 + 1)', 'range(256)', 'range(0xff + 1)') and any(norm(b).startswith('CScriptOp(') for b in s.body):
                ok = True
        return ok, 'the opcode instance table is filled for 0..255 at import; every opcode passed is a byte value'
    just[('bitcoin.core.script.CScriptOp.__new__', 'assert len(_opcode_instances) == n')] = opcode_table
    # encode_op_n: every call site passes a value guarded by 0 <= x <= 16
    def encode_guard(e):
        fi = repo.get_function('bitcoin.core.script.CScriptOp.encode_op_n')
        reached = dead_by_domain(repo, fi, fi.params[0], range(0, 17))
        sites_ok = True
        n = 0
        for f in repo.functions.values():
            for c in common.iter_calls(f.node):
                if norm(c.func).endswith('encode_op_n'):
                    n += 1
                    g = enclosing_if(c)
                    arg = norm(c.args[0]) if c.args else '?'
                    if g is None or canon_guard(g.test, repo, f.module) != '%s > -1 and %s < 17' % (arg, arg):
                        sites_ok = False
        return (id(e.node) not in reached) and sites_ok and n > 0, 'every call site passes a value guarded by `0 <= x <= 16` (%d site(s))' % n
    just[('bitcoin.core.script.CScriptOp.encode_op_n', "ValueError('Integer must be in range 0 <= n <= 16")] = encode_guard
    # decode_op_n: called on opcodes for which is_small_int() holds / OP_1..OP_16
    def decode_guard(e):
        op = repo.get_class('bitcoin.core.script.CScriptOp')
        isi = repo.lookup_method(op, 'is_small_int')
        dec = repo.lookup_method(op, 'decode_op_n')
        tr = Tracer(repo, isi.module, cls=op)
        small = []
        for v in range(256):
            ps = tr.trace(isi.node.body, {'self': v})
            if len(ps) == 1 and ps[0].end == 'return' and repo.fold(ps[0].endnode.value, isi.module, cls=op, env={'self': v}) is True:
                small.append(v)
        reached = dead_by_domain(repo, dec, 'self', small)
        sites_ok = True
        n = 0
        for f in repo.functions.values():
            for c in common.iter_calls(f.node):
                if isinstance(c.func, ast.Attribute) and c.func.attr == 'decode_op_n':
                    n += 1
                    g = enclosing_if(c)
                    recv = norm(c.func.value)
                    gt = canon_guard(g.test, repo, f.module) if g is not None else ''
                    base = re.sub(r'^CScriptOp\((\w+)\)$', r'\1', recv)
                    if not (gt == '%s.is_small_int()' % recv or ('%s > 80' % base in gt and '%s < 97' % base in gt)):
                        # any spelling / nesting of the guard: the path condition at the call must imply it
                        if not (implied_at(repo, f, c, '%s.is_small_int()' % recv) is True or implied_at(repo, f, c, '80 < %s < 97' % base) is True):
                            sites_ok = False
        return (id(e.node) not in reached) and sites_ok and n > 0, 'every call site is guarded by is_small_int() or OP_1 <= op <= OP_16 (%d site(s)); domain %d opcodes' % (n, len(small))
    just[('bitcoin.core.script.CScriptOp.decode_op_n', "ValueError('op %r is not an OP_N'")] = decode_guard
    # RIPEMD-160 round function selector: called with rnd and 4 - rnd, rnd = j >> 4 for j in range(80)
    def ripemd_fi(e):
        fi = repo.get_function('bitcoin.core.contrib.ripemd160.fi')
        comp = repo.get_function('bitcoin.core.contrib.ripemd160.compress')
        reached = dead_by_domain(repo, fi, fi.params[3], range(5))
        txt = norm(comp.node)
        sites = [norm(c.args[3]) for c in common.iter_calls(comp.node) if norm(c.func) == 'fi' and len(c.args) == 4]
        ok = 'for j in range(80):' in txt and 'rnd = j >> 4' in txt and sorted(sites) == ['4 - rnd', 'rnd']
        return ok and id(e.node) not in reached, 'the selector is j >> 4 or 4 - (j >> 4) for j in range(80), i.e. 0..4, and the chain covers 0..4'
    just[('bitcoin.core.contrib.ripemd160.fi', 'assert False')] = ripemd_fi
    # VerifyScript: P2SH arm `assert len(stack)`
    def p2sh_stack(e):
        g = enclosing_if(e.node)
        ok = g is not None and 'is_p2sh()' in norm(g.test)
        return ok, 'the arm is entered only after HASH160 <20> EQUAL evaluated true on the copied stack, which needs at least one element'
    just[('bitcoin.core.scripteval.VerifyScript', 'assert len(stack)')] = p2sh_stack
    return just


def rule_escape(ctx, repo, eng, it):
    r = ctx.rule('C07.X1', 'from VerifyScript / EvalScript / VerifySignature only the ValidationError family escapes', engine='ESCAPE', floor=3)
    res = Resolver(repo, eng)
    ee = Escape(repo, res)
    val = repo.get_class('bitcoin.core.ValidationError')
    just = script_justified(repo, it)
    for q in ('bitcoin.core.scripteval.VerifyScript', 'bitcoin.core.scripteval.EvalScript', 'bitcoin.core.scripteval.VerifySignature'):
        fi = repo.get_function(q)
        rule_entry(r, repo, ee, fi, [val], fi.name, justified=just)
    for (f, t) in sorted(ee.unresolved)[:15]:
        r.note('unresolved call: %s in %s' % (t, f))
    for a in sorted(set(ee.applied))[:20]:
        r.note(a)
    if ee.recursion:
        r.note('recursive cycle cut at: %s' % sorted(ee.recursion))
    ctx.extra['escape_functions_visited'] = sorted(ee.visited)
    # X2: every consumer of raw_iter reachable from _EvalScript runs inside the try that converts CScriptInvalidError
    r2 = ctx.rule('C07.X2', 'the invalid-script error of the tokeniser is converted by EvalScript for the whole evaluation', engine='ESCAPE', floor=1)
    ev = repo.get_function('bitcoin.core.scripteval.EvalScript')
    tries = [n for n in walk_no_nested(ev.node) if isinstance(n, ast.Try)]
    inv = repo.get_class('bitcoin.core.script.CScriptInvalidError')
    ok = False
    for t in tries:
        calls = [norm(c.func) for b in t.body for c in ast.walk(b) if isinstance(c, ast.Call)]
        for h in t.handlers:
            ht = ee.handler_types(h, ev)
            if '_EvalScript' in calls and any(hi is inv or hn in ('Exception',) for hn, hi in ht):
                raises = [n for n in ast.walk(h) if isinstance(n, ast.Raise) and n.exc is not None]
                if raises and all(ee.exc_class(x.exc, ev, None, None)[0] == 'EvalScriptError' for x in raises):
                    ok = True
            elif '_EvalScript' in calls and ht:
                r2.violated('handler:%s' % ','.join(hn for hn, hi in ht), common.site_of(ev, h),
                            'EvalScript converts only %s: the base CScriptInvalidError of the tokeniser (e.g. "PUSHDATA1: missing data length") escapes the ValidationError contract' % [hn for hn, hi in ht])
    r2.check(ok, 'EvalScript:converts-CScriptInvalidError', ev.site, 'try: _EvalScript(...) except CScriptInvalidError -> EvalScriptError',
             'EvalScript does not convert CScriptInvalidError raised while tokenising into EvalScriptError')


# ------------------------------------------------------------------------------------------------ G1
def rule_depth(ctx, repo, it):
    r = ctx.rule('C07.G1', 'every stack / altstack / vfExec access in the interpreter and its helpers is dominated by a sufficient depth guard', engine='DEPTH', floor=50)
    rows = it.rows()
    site0 = common.site_of(it.fi, it.loop)
    total = 0
    for v in range(256):
        for ex in (True, False):
            probs = []
            acc = 0
            for p in rows[(v, ex)]:
                st = c06.effects(it, p)
                for s in SEQS:
                    acc += st[s]['accesses']
                    for node, why in st[s]['problems']:
                        probs.append((node, why))
            total += acc
            if not acc and not probs:
                continue
            key = '%s:%s' % (c06.opn(v), 'exec' if ex else 'skip')
            if probs:
                node, why = probs[0]
                r.violated(key, common.site_of(it.fi, node), '%s: %s -> IndexError instead of a script failure' % (c06.opn(v), why))
            else:
                r.ok(key, site0, '%d guarded access(es)' % acc)
    # helpers
    for fname, ops in (('_UnaryOp', sorted(spec.UNARY)), ('_BinOp', sorted(spec.BINARY))):
        fi, summ = c06.helper_summary(it, fname, ops)
        for v in ops:
            req, deltas, probs, paths = summ[v]
            key = '%s:%s' % (fname, c06.opn(v))
            if probs:
                node, why = probs[0]
                r.violated(key, common.site_of(fi, node), '%s(%s): %s -> IndexError instead of a script failure' % (fname, c06.opn(v), why))
            else:
                r.ok(key, fi.site, 'requires %d, guarded' % req)
    # VerifyScript
    vs = repo.get_function('bitcoin.core.scripteval.VerifyScript')
    tr = Tracer(repo, vs.module)
    n_acc = 0
    bad = []
    for p in tr.trace(vs.node.body, {}):
        d = Depth(repo, vs.module)
        # EvalScript may change the stack arbitrarily: forget guarantees at each evaluation
        st = run_with_resets(d, p)
        n_acc += st['stack']['accesses']
        bad.extend(st['stack']['problems'])
    if bad:
        node, why = bad[0]
        r.violated('VerifyScript', common.site_of(vs, node), 'VerifyScript: %s' % why)
    else:
        r.ok('VerifyScript', vs.site, '%d guarded stack accesses on all paths (the P2SH pop is the justified site of C07.X1)' % n_acc)
    ctx.extra['stack_accesses_checked'] = total + n_acc


def run_with_resets(d, path):
    """Depth over a VerifyScript path: a call to EvalScript invalidates what is known about the stack depth"""
    st = {s: {'g': 0, 'delta': 0, 'required': 0, 'problems': [], 'dyn': None, 'accesses': 0} for s in SEQS}
    d.st = st
    d.path = path
    for ev in path.events:
        if ev[0] == 'if':
            d.test_accesses(ev[1].test)
            d.guard(ev[1].test, ev[2])
        else:
            s = ev[1]
            t = norm(s)
            if t.startswith('EvalScript(') or t.startswith('stack = '):
                st['stack']['g'] = 0
                st['stack']['delta'] = 0
                if t == 'stack = stackCopy':
                    # justified: see C07.X1 (HASH160 <20> EQUAL evaluated true on this very stack)
                    st['stack']['g'] = 1
                continue
            if isinstance(s, ast.Assert):
                d.guard(s.test, True)
                continue
            d.stmt(s)
    return st


# ------------------------------------------------------------------------------------------------ G2
def rule_multisig_typestate(ctx, repo, it):
    r = ctx.rule('C07.G2', 'CHECKMULTISIG: the running bound is checked against the stack depth before every use as an index', engine='DEPTH', floor=3)
    ms = repo.get_function('bitcoin.core.scripteval._CheckMultiSig')
    ivar = 'i'
    guards = []  # raising guards passed since the bound was last changed: on fall-through none of them held
    n = 0

    def established():
        # len(stack) >= i holds after the guards iff  G1 or G2 or ... or len(stack) >= i  is valid; decided by the
        # cell enumeration of the RULES engine over the single term i - len(stack)
        if not guards:
            return False
        f = ' or '.join('(%s)' % g for g in guards + ['len(stack) >= %s' % ivar])
        return equiv(f, 'True') is True
    for s in ms.node.body:
        if isinstance(s, ast.Assign) and norm(s.targets[0]) == ivar:
            guards = []
        elif isinstance(s, ast.AugAssign) and norm(s.target) == ivar:
            guards = []
        elif isinstance(s, ast.If):
            cur = s
            while True:
                if flow.always_raises(cur.body, ['err_raiser']):
                    guards.append(norm(cur.test))
                if len(cur.orelse) == 1 and isinstance(cur.orelse[0], ast.If):
                    cur = cur.orelse[0]
                else:
                    break
        # uses: stack[-i] directly in this statement
        for sub in ast.walk(s):
            if isinstance(sub, ast.Subscript) and norm(sub.value) == 'stack' and norm(sub.slice) == '-%s' % ivar:
                n += 1
                r.check(established(), 'use:%d:%s' % (n, norm(sub)), common.site_of(ms, sub), 'bound checked before use',
                        '`stack[-%s]` is read while the bound `%s` has not been compared with len(stack) since it was last extended -> IndexError on short stacks' % (ivar, ivar))
        is_pop_loop = (isinstance(s, ast.While) and norm(s.test) == '%s > 1' % ivar) or \
            (isinstance(s, ast.For) and norm(s.iter) in ('range(%s - 1)' % ivar, 'range(1, %s)' % ivar))
        if is_pop_loop:
            n += 1
            pops = [x for x in ast.walk(s) if isinstance(x, ast.Call) and norm(x.func) == 'stack.pop']
            r.check(established() and len(pops) == 1, 'pop-loop', common.site_of(ms, s), 'pops i-1 items after len(stack) >= i was established',
                    'the cleanup loop pops %s-1 items without an established bound len(stack) >= %s' % (ivar, ivar))
    # the final dummy pop: guarded by `len(stack)` in the NULLDUMMY test only - Core pops unconditionally after size check i
    r.note('the loop-carried indices isig/ikey inside the matching loop are not decided (relational invariant)')
    if n == 0:
        r.undecided('uses', ms.site, 'no uses of the running bound found')


# ------------------------------------------------------------------------------------------------ N1
def rule_names(ctx, repo, it):
    r = ctx.rule('C07.N1', 'every OPCODE_NAMES[...] lookup is reached only by named opcodes', engine='GUARD', floor=5)
    names = repo.module_value(repo.get_module('bitcoin.core.script'), 'OPCODE_NAMES')
    named = {int(k) for k in names} if isinstance(names, dict) else set()
    rows = it.rows()
    # lookups inside the interpreter loop: by dispatch row
    bad = {}
    n = 0
    for (v, ex), paths in rows.items():
        for p in paths:
            for s in p.stmts():
                for sub in ast.walk(s):
                    if isinstance(sub, ast.Subscript) and norm(sub.value) == 'OPCODE_NAMES' and norm(sub.slice) == it.v_op:
                        n += 1
                        if v not in named:
                            bad.setdefault(sub.lineno, []).append(v)
                    # error classes constructed with the opcode: MissingOpArgumentsError(opcode, ...) looks the name up too
                    if isinstance(sub, ast.Call) and norm(sub.func) in ('err_raiser', 'check_args'):
                        pass
    # a lookup keyed by anything but the opcode of this iteration (a position, a counter) finds a name only by accident
    for sub in ast.walk(it.fi.node):
        if isinstance(sub, ast.Subscript) and norm(sub.value) == 'OPCODE_NAMES' and isinstance(sub.ctx, ast.Load) and norm(sub.slice) != it.v_op \
                and isinstance(sub.slice, ast.Name) and sub.slice.id not in ('opcode',):
            r.violated('loop-lookup:key:%s' % norm(sub.slice), common.site_of(it.fi, sub), 'OPCODE_NAMES is indexed by `%s`, not by the opcode `%s`: KeyError for every value that is not an opcode number'
                       % (norm(sub.slice), it.v_op), sure=True)
    for line, vs in sorted(bad.items()):
        r.violated('loop-lookup:line-group', '%s:%d' % (it.mod.relpath, line), 'OPCODE_NAMES[%s] is evaluated for unnamed opcode(s) %s -> KeyError' % (it.v_op, ['0x%02x' % x for x in sorted(set(vs))[:6]]))
    r.check(not bad, 'loop-lookups', common.site_of(it.fi, it.loop), '%d lookups reached only by named opcodes' % n, 'unnamed opcodes reach a name lookup')
    # lookups in the error classes' constructors: the opcode argument at each raising site must be named
    ctors = {}
    for c in repo.classes.values():
        if c.module is it.mod and '__init__' in c.methods:
            init = c.methods['__init__']
            for sub in ast.walk(init.node):
                if isinstance(sub, ast.Subscript) and norm(sub.value) == 'OPCODE_NAMES':
                    ctors[c.name] = (init, norm(sub.slice), init.params.index(norm(sub.slice)) if norm(sub.slice) in init.params else None)
    r.check(len(ctors) >= 3, 'error-constructors', it.mod.relpath + ':0', 'constructors with a name lookup: %s' % sorted(ctors), 'expected error classes with name lookups, found %s' % sorted(ctors))
    # raising sites: err_raiser(Cls, opcode, ...) -> which opcodes reach them
    site_ops = {}
    for (v, ex), paths in rows.items():
        for p in paths:
            if p.end == 'raise':
                s = p.endnode
                call = s.value if isinstance(s, ast.Expr) else (s.exc if isinstance(s, ast.Raise) else None)
                if isinstance(call, ast.Call) and norm(call.func) == 'err_raiser' and call.args and norm(call.args[0]) in ctors:
                    site_ops.setdefault((call.lineno, norm(call.args[0])), set()).add(v)
            for s in p.stmts():
                if isinstance(s, ast.Expr) and isinstance(s.value, ast.Call) and norm(s.value.func) == 'check_args':
                    site_ops.setdefault((s.value.lineno, 'check_args'), set()).add(v)
    for (line, cls), vs in sorted(site_ops.items()):
        un = sorted(v for v in vs if v not in named)
        r.check(not un, 'raise-site:%s:%d-ops' % (cls, len(vs)), '%s:%d' % (it.mod.relpath, line), '%s raised only for named opcodes (%d)' % (cls, len(vs)),
                '%s is raised with unnamed opcode(s) %s: its constructor evaluates OPCODE_NAMES[opcode] -> KeyError' % (cls, ['0x%02x' % x for x in un[:6]]))
    # helpers receive the opcode from the dispatch: _UnaryOp/_BinOp/_CheckMultiSig get named opcodes only (C06.D1/S1)


# ------------------------------------------------------------------------------------------------ I1
def rule_index(ctx, repo):
    r = ctx.rule('C07.I1', 'the input index is guarded from both sides before it is used as a sequence index', engine='GUARD', floor=2)
    raw = repo.get_function('bitcoin.core.script.RawSignatureHash')
    idx = raw.params[2]
    guards = [canon_guard(n.test, repo, raw.module) for n in walk_no_nested(raw.node) if isinstance(n, ast.If)]
    upper = any(re.search(r'\b%s > len\(\w+\.vin\) - 1|%s >= len\(\w+\.vin\)' % (idx, idx), norm(n.test)) for n in walk_no_nested(raw.node) if isinstance(n, ast.If))
    lower = any(re.search(r'\b%s < 0\b' % idx, g) for g in guards)
    uses = [n for n in walk_no_nested(raw.node) if isinstance(n, ast.Subscript) and norm(n.slice) == idx and norm(n.value).endswith('.vin')]
    r.check(upper, 'RawSignatureHash:upper', raw.site, 'inIdx >= len(vin) handled', 'no upper guard on the input index')
    if uses:
        if lower:
            r.ok('RawSignatureHash:lower', raw.site, 'negative index handled')
        else:
            r.violated('RawSignatureHash:lower', common.site_of(raw, uses[0]),
                       '`%s` uses the caller-supplied index, which is guarded only from above: a negative index smaller than -len(vin) raises IndexError out of VerifyScript (the sibling entry VerifySignature does check `inIdx < 0`)' % norm(uses[0]))
    vs = repo.get_function('bitcoin.core.scripteval.VerifySignature')
    g2 = [norm(n.test) for n in walk_no_nested(vs.node) if isinstance(n, ast.If)]
    r.check('inIdx < 0' in g2 and 'inIdx >= len(txTo.vin)' in g2, 'VerifySignature:both-sides', vs.site, 'both sides guarded', 'VerifySignature guards: %s' % g2)


# ------------------------------------------------------------------------------------------------ RO
def rule_readonly(ctx, repo, eng):
    r = ctx.rule('C07.RO', 'verification never stores through the transaction or the scripts it is given', engine='OWN', floor=5)
    res = Resolver(repo, eng)
    ro = ReadOnly(repo, res)
    for q, p in (('bitcoin.core.scripteval.VerifyScript', 'txTo'), ('bitcoin.core.scripteval.EvalScript', 'txTo'), ('bitcoin.core.scripteval.VerifySignature', 'txTo'),
                 ('bitcoin.core.scripteval.VerifySignature', 'txFrom'), ('bitcoin.core.script.RawSignatureHash', 'txTo')):
        fi = repo.get_function(q)
        ws = ro.writes(fi, p)
        key = '%s(%s)' % (fi.name, p)
        if ws:
            for f, node, text, path in ws[:4]:
                r.violated('%s:%s' % (key, text), common.site_of(f, node), '%s modifies its `%s`: %s in %s' % (fi.name, p, text, f.qualname), path=list(path))
        else:
            r.ok(key, fi.site, 'no store through `%s`' % p)
    # the scratch copy used for hashing is deep: CMutableTransaction.from_tx / CMutableTxIn.from_txin never hand back their argument
    from . import c09
    base, imm, mut = c09.classes(repo)
    for c, f in c09.from_methods(repo, mut):
        arg = f.params[1]
        shared = [n for n in walk_no_nested(f.node) if isinstance(n, ast.Return) and n.value is not None and norm(n.value) == arg]
        r.check(not shared, 'deep-copy:%s.%s' % (c.name, f.name), f.site, 'always builds a new object',
                '%s.%s can return its argument itself: the "scratch copy" edited by the signature hash is then the caller\'s object' % (c.name, f.name))
    r.note('scripts are bytes subclasses (immutable by type)')


# ------------------------------------------------------------------------------------------------ T1
def rule_termination(ctx, repo, eng):
    r = ctx.rule('C07.T1', 'the reachable call graph is recursion-free and every while loop has a ranking step on every path', engine='MODEL', floor=4)
    res = Resolver(repo, eng)
    # call graph from the entries
    entries = [repo.get_function('bitcoin.core.scripteval.' + n) for n in ('VerifyScript', 'EvalScript', 'VerifySignature')]
    graph = {}
    work = list(entries)
    seen = set()
    while work:
        f = work.pop()
        if f.qualname in seen:
            continue
        seen.add(f.qualname)
        outs = set()
        for c in common.iter_calls(f.node):
            tg = res.resolve(c, f, f.cls)
            for t in tg or []:
                outs.add(t.fi.qualname)
                work.append(t.fi)
        for nf in f.nested.values():
            outs.add(nf.qualname)
            work.append(nf)
        graph[f.qualname] = outs
    # cycles
    color = {}
    cyc = []

    def dfs(u, stack):
        color[u] = 1
        for v in graph.get(u, ()):
            if color.get(v) == 1:
                cyc.append(stack + [u, v])
            elif v not in color:
                dfs(v, stack + [u])
        color[u] = 2
    for e in entries:
        if e.qualname not in color:
            dfs(e.qualname, [])
    r.check(not cyc, 'recursion-free', entries[0].site, '%d functions reachable, no cycle' % len(graph), 'recursive cycle: %s' % (' -> '.join(cyc[0][-4:]) if cyc else ''))
    ctx.extra['reachable_functions'] = len(graph)
    rule_const_index(ctx, repo, graph)
    rule_error_arity(ctx, repo, graph)
    # while loops
    n = 0
    for q in sorted(graph):
        f = repo.functions.get(q)
        if f is None:
            continue
        for w in walk_no_nested(f.node):
            if isinstance(w, ast.While):
                n += 1
                key = 'while:%s:%s' % (q.replace('bitcoin.', ''), norm(w.test)[:40])
                ok, why = ranking(w)
                if not ok:
                    ok, why = ranking_table(f, w)
                if ok:
                    r.ok(key, common.site_of(f, w), why)
                else:
                    r.violated(key, common.site_of(f, w), 'loop `while %s` has a path through its body that does not advance %s: verification may not terminate' % (norm(w.test)[:50], why))


STACKS = ('stack', 'altstack', 'vfExec', 'nOpCount')


def rule_const_index(ctx, repo, graph):
    """Every `x[k]` with a constant k on a parameter of a function verification reaches is dominated by a test that makes
    x long enough (the stack accesses have their own engine, C07.D1).  Signatures and public keys come off the stack as
    arbitrary byte strings - one byte long, for instance - so an unguarded constant index is an IndexError out of
    VerifyScript."""
    r = ctx.rule('C07.I2', 'constant indices into byte strings taken from scripts are guarded by a length test on every path', engine='GUARD', floor=1)
    funcs = [repo.functions[q] for q in sorted(graph) if q in repo.functions and repo.functions[q].module.relpath.startswith('bitcoin/')]
    n = common.const_index_instances(r, repo, funcs, skip=STACKS + ('self', 'cls'),
                                     what='a short byte string from a script raises IndexError out of verification')
    if n == 0:
        r.undecided('instances', '', 'no constant index found (the confirmed tree has `sig[-1]` in _CheckSig)')


STATE_NAMES = ('sop', 'sop_data', 'sop_pc', 'stack', 'scriptIn', 'txTo', 'inIdx', 'flags', 'altstack', 'vfExec', 'pbegincodehash', 'nOpCount')


def rule_error_arity(ctx, repo, graph):
    """Every error object built on the verification path is built with arguments its class accepts: `err_raiser(Cls, a, b)`
    constructs `Cls(a, b, **state)`, `raise Cls(a)` constructs Cls(a).  A positional argument the constructor has no
    parameter for raises TypeError - not a ValidationError - in the middle of reporting a script failure."""
    r = ctx.rule('C07.A1', 'every error constructed on the verification path matches the constructor of its class (positional arity, keyword names)', engine='RESOLVE', floor=20)
    from ..model import ClassRef
    # the state handed to the base constructor is kept on the error object, name for name; the subclasses hand their
    # keywords on to it
    base = repo.get_class('bitcoin.core.scripteval.EvalScriptError')
    if base is not None and '__init__' in base.methods:
        bi = base.methods['__init__']
        stores = {}
        for n in walk_no_nested(bi.node):
            if isinstance(n, ast.Assign) and len(n.targets) == 1 and isinstance(n.targets[0], ast.Attribute) and norm(n.targets[0].value) == bi.params[0]:
                stores[n.targets[0].attr] = norm(n.value)
        for nm in ('stack', 'altstack', 'nOpCount'):
            if nm not in bi.params:
                continue
            if stores.get(nm) == nm:
                r.ok('state-kept:%s' % nm, bi.site, 'self.%s = %s' % (nm, nm))
            elif nm not in stores and not any(isinstance(c_, ast.Call) and norm(c_.func) in ('setattr', 'vars', 'self.__dict__.update') for c_ in ast.walk(bi.node)):
                r.violated('state-kept:%s' % nm, bi.site, 'EvalScriptError.__init__ does not keep `%s`: every raised evaluation error lacks the captured %s' % (nm, nm), sure=True)
            elif nm in stores and stores[nm] in STATE_NAMES:
                r.violated('state-kept:%s' % nm, bi.site, 'EvalScriptError.__init__ keeps `%s` under the name %s' % (stores[nm], nm), sure=True)
            else:
                r.undecided('state-kept:%s' % nm, bi.site, 'how `%s` is kept on the error object was not recognised (%s)' % (nm, stores.get(nm)))
        for ci_ in repo.classes.values():
            if ci_ is not base and repo.is_subclass(ci_, base) and '__init__' in ci_.methods and ci_.module is base.module:
                si = ci_.methods['__init__']
                sup = [c_ for c_ in common.iter_calls(si.node) if isinstance(c_.func, ast.Attribute) and c_.func.attr == '__init__' and norm(c_.func.value).startswith('super(')]
                fwd = [c_ for c_ in sup if any(k_.arg is None for k_ in c_.keywords)]
                if si.node.args.kwarg is None:
                    continue
                if fwd:
                    r.ok('state-forwarded:%s' % ci_.name, si.site, 'keywords handed on to the base constructor')
                elif not sup:
                    r.violated('state-forwarded:%s' % ci_.name, si.site, '%s.__init__ does not call the base constructor: the error carries no message and none of the captured state' % ci_.name, sure=True)
                else:
                    r.violated('state-forwarded:%s' % ci_.name, si.site, '%s.__init__ does not hand its keywords (**%s) on to the base constructor: the captured state is dropped' % (ci_.name, si.node.args.kwarg.arg), sure=True)
    for q in sorted(graph):
        f = repo.functions.get(q)
        if f is None or not f.module.relpath.startswith('bitcoin/'):
            continue
        for c in common.iter_calls(f.node):
            # execution state handed over by keyword: each state keyword carries the value of the same name
            st_kw = [k for k in c.keywords if k.arg in STATE_NAMES]
            if len(st_kw) >= 4:
                for k in st_kw:
                    v_ = k.value.value if (isinstance(k.value, ast.Subscript) and isinstance(k.value.value, ast.Name)) else k.value
                    if isinstance(v_, ast.Name) and v_.id != k.arg and v_.id in STATE_NAMES:
                        r.violated('state:%s=%s@%d' % (k.arg, v_.id, c.lineno), common.site_of(f, c), '`%s=%s`: the error is given the %s where its %s belongs - the captured state no longer '
                                   'describes the interpreter (its stack sizes, for one, need not respect the limits)' % (k.arg, norm(k.value), v_.id, k.arg), sure=True)
            cls_expr = None
            args = kws = None
            if norm(c.func) == 'err_raiser' and c.args:
                cls_expr, args, kws = c.args[0], c.args[1:], [k.arg for k in c.keywords] + ['sop', 'sop_data', 'sop_pc', 'stack', 'scriptIn', 'txTo', 'inIdx', 'flags', 'altstack', 'vfExec', 'pbegincodehash', 'nOpCount']
            elif isinstance(getattr(c, '_parent', None), ast.Raise) and c._parent.exc is c:
                cls_expr, args, kws = c.func, c.args, [k.arg for k in c.keywords]
            if cls_expr is None:
                continue
            v = repo.fold(cls_expr, f.module, cls=f.cls)
            if not isinstance(v, ClassRef):
                continue
            if any(isinstance(a, ast.Starred) for a in args) or any(k is None for k in kws):
                continue
            init = repo.lookup_method(v.info, '__init__')
            if init is None:
                continue  # builtin exception constructor: any arguments
            a_ = init.node.args
            pos = [x.arg for x in a_.posonlyargs + a_.args][1:]
            required = len(pos) - len(a_.defaults)
            names = set(pos) | {x.arg for x in a_.kwonlyargs}
            key = '%s:%s(%d)@%d' % (q.replace('bitcoin.core.', ''), v.info.name, len(args), c.lineno)
            problems = []
            if a_.vararg is None and len(args) > len(pos):
                problems.append('%d positional argument(s) for a constructor that takes %d (%s)' % (len(args), len(pos), ', '.join(pos)))
            if norm(c.func) != 'err_raiser' and len(args) + len([k for k in kws if k in pos]) < required:
                problems.append('%d positional argument(s), %d required' % (len(args), required))
            if norm(c.func) == 'err_raiser' and len(args) < len([p_ for p_ in pos[:required] if p_ not in kws]):
                problems.append('%d positional argument(s), %d required' % (len(args), required))
            if a_.kwarg is None:
                bad = [k for k in kws if k not in names]
                if bad and norm(c.func) != 'err_raiser':
                    problems.append('keyword(s) %s not accepted' % bad)
                elif bad:
                    problems.append('the execution state keywords %s are not accepted' % bad[:3])
            # a value named like one parameter of the constructor passed in the position of another one (execution state
            # handed over positionally: `EvalScriptError(msg, stack, scriptIn, ...)` puts the stack where `sop` is expected)
            for k_, a_v in enumerate(args):
                if isinstance(a_v, ast.Name) and k_ < len(pos) and a_v.id in pos and pos[k_] != a_v.id and a_v.id not in ('opcode', 'msg'):
                    problems.append('the value `%s` is bound to parameter `%s` (position %d), not to `%s`' % (a_v.id, pos[k_], k_ + 1, a_v.id))
            for kw_ in c.keywords:
                if kw_.arg and isinstance(kw_.value, ast.Name) and kw_.value.id != kw_.arg and kw_.value.id in names and kw_.arg in names:
                    problems.append('the value `%s` is bound to parameter `%s`' % (kw_.value.id, kw_.arg))
            if problems and all('is bound to parameter' in p_ for p_ in problems):
                r.violated(key, common.site_of(f, c), '`%s` builds %s with %s: the error carries the wrong execution state' % (norm(c)[:70], v.info.name, '; '.join(problems[:3])), sure=True)
                continue
            if problems:
                r.violated(key, common.site_of(f, c), '`%s` builds %s with %s: TypeError is raised instead of the script error' % (norm(c)[:70], v.info.name, '; '.join(problems)), sure=True)
            else:
                r.ok(key, common.site_of(f, c), 'matches %s.__init__(%s)' % (v.info.name, ', '.join(pos)))


def ranking_table(f, w):
    """loops whose ranking function is not a variable of the test: listed with the argument, validated structurally"""
    if f.qualname == 'bitcoin.core.scripteval._CheckMultiSig' and norm(w.test) == 'success and sigs_count > 0':
        top = [norm(s) for s in w.body]
        fails = [s for s in w.body if isinstance(s, ast.If) and norm(s.test) == 'sigs_count > keys_count' and any(norm(x) == 'success = False' for x in s.body)]
        if 'keys_count -= 1' in top and fails:
            return True, 'keys_count decreases on every iteration and the loop ends (success = False) once sigs_count > keys_count; sigs_count >= 1 inside the loop'
    return False, ''


def ranking(w):
    """a variable of the loop test that moves monotonically on every path through the body"""
    names = sorted({n.id for n in ast.walk(w.test) if isinstance(n, ast.Name)})
    for v in names:
        # does every path through the body pass `v += c` / `v -= c` / v reassigned to a strictly different expression / pop of it
        def gen(stmt, facts):
            t = norm(stmt)
            if re.match(r'^%s [+-]= ' % re.escape(v), t) or re.match(r'^%s\.pop\(' % re.escape(v), t):
                return facts | {'step'}
            return facts
        mf = flow.run_must(ast.Module(body=w.body, type_ignores=[]), gen=gen)
        outs = [f for k, n, f in mf.exits if k == 'fallthrough'] + [f for f in mf._ctl] if False else [f for k, n, f in mf.exits if k == 'fallthrough']
        conts = []
        if outs and all('step' in f for f in outs):
            # `continue` statements inside must also have stepped
            ok = True
            for n in ast.walk(ast.Module(body=w.body, type_ignores=[])):
                if isinstance(n, ast.Continue):
                    f = mf.at.get(id(n))
                    if f is None or 'step' not in f:
                        ok = False
            if ok:
                return True, 'ranking variable `%s` steps on every path' % v
    # boolean flag loops: `while success and sigs_count > 0` - handled above through sigs_count/keys_count? fall back:
    # every path either steps one of the variables or makes the test false by assigning a constant False
    def gen2(stmt, facts):
        t = norm(stmt)
        for v in names:
            if re.match(r'^%s [+-]= ' % re.escape(v), t) or t == '%s = False' % v:
                return facts | {'step'}
        return facts
    mf = flow.run_must(ast.Module(body=w.body, type_ignores=[]), gen=gen2)
    outs = [f for k, n, f in mf.exits if k == 'fallthrough']
    if outs and all('step' in f for f in outs):
        return True, 'some variable of the test steps on every path'
    return False, ' / '.join(names)


# ------------------------------------------------------------------------------------------------ K1
def rule_elements(ctx, repo):
    r = ctx.rule('C07.K1', 'stack elements are byte strings: everything pushed is bytes or a stack element (invariant used by the ESCAPE value kinds)', engine='OWN', floor=30)
    m = repo.get_module('bitcoin.core.scripteval')
    from ..resolve import Resolver
    ee = Escape(repo, Resolver(repo, LayoutEngine(repo)))
    n = 0
    for fi in [f for f in repo.functions.values() if f.module is m]:
        ee.kinds = ee.local_kinds(fi, fi.cls, {})
        # names bound to elements
        for s in walk_no_nested(fi.node):
            if isinstance(s, ast.Assign) and len(s.targets) == 1 and isinstance(s.targets[0], ast.Name):
                k = ee.expr_kind(s.value, fi)
                if k == 'bytes':
                    ee.kinds.setdefault(s.targets[0].id, 'bytes')
        for c in common.iter_calls(fi.node):
            if isinstance(c.func, ast.Attribute) and c.func.attr in ('append', 'insert') and norm(c.func.value) in ('stack', 'altstack') and c.args:
                arg = c.args[-1]
                n += 1
                k = ee.expr_kind(arg, fi)
                if k is None and isinstance(arg, ast.Name) and arg.id == 'sop_data':
                    k = 'bytes'  # data yielded by raw_iter: bytes(self[i:i+datasize])
                key = '%s:%s' % (fi.name, norm(c)[:50])
                r.check(k == 'bytes', key + ('#%d' % n), common.site_of(fi, c), 'pushes bytes', 'pushes `%s`, which is not recognisably a byte string' % norm(arg))


# ------------------------------------------------------------------------------------------------ S1
def rule_error_state(ctx, repo):
    r = ctx.rule('C07.S1', 'the state captured in a raised error respects the limits: counters are charged only with validated amounts', engine='RULES', floor=2)
    ms = repo.get_function('bitcoin.core.scripteval._CheckMultiSig')
    c06.multisig_order_check(r, repo, ms)
    # the per-opcode counter is incremented by exactly one and compared right after
    it_fi = repo.get_function('bitcoin.core.scripteval._EvalScript')
    incs = [n for n in ast.walk(it_fi.node) if isinstance(n, ast.AugAssign) and norm(n.target) == 'nOpCount[0]']
    r.check(len(incs) == 1 and norm(incs[0]) == 'nOpCount[0] += 1', 'opcount-step', it_fi.site, 'nOpCount += 1 per counted opcode', 'operation counter updates in _EvalScript: %s' % [norm(x) for x in incs])
